#!/bin/sh
# MANIFEST.setup_cmd: nothing to build (pure Python, stdlib only). Verifies the
# interpreter and that mido imports from the working tree.
set -e
cd "$(dirname "$0")"
mkdir -p evidence replay .work
/venv/bin/python -B -c "import sys; assert sys.version_info >= (3, 12), sys.version; import sys.monitoring" 2>/dev/null || /venv/bin/python -B -c "import sys; assert sys.version_info >= (3, 12), sys.version"
PYTHONPATH="$(pwd):${VERIF_REPO:-/repo}" /venv/bin/python -B -c "import mido, vmon.core; print('setup ok: mido from', mido.__file__)"
