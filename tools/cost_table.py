#!/venv/bin/python
"""tools/cost_table.py <quick-evidence-dir> <thorough-evidence-dir>  - prints the markdown rows of DESIGN 8.5"""
import json, os, sys
q, t = sys.argv[1], sys.argv[2]
print('| id | quick: evaluations | distinct non-trivial | quick wall | thorough: evaluations | thorough wall |')
print('|---|---|---|---|---|---|')
for i in range(1, 21):
    pid = f'C{i:02d}'
    row = [pid]
    for d in (q, t):
        p = os.path.join(d, pid + '.json')
        if not os.path.exists(p):
            row += ['-', '-'] if d == q else ['-']
            continue
        e = json.load(open(p))
        c = e['coverage']
        if d == q:
            row += [f"{c['evaluations']:,}".replace(',', ' '), f"{c['distinct_nontrivial']:,}".replace(',', ' '), f"{e['wall_s']:.0f} s"]
        else:
            row += [f"{c['evaluations']:,}".replace(',', ' '), f"{e['wall_s']:.0f} s"]
    print('| ' + ' | '.join(row) + ' |')
