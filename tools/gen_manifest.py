#!/venv/bin/python
"""Regenerates MANIFEST.json from the property modules that exist."""
import importlib
import json
import os
import sys

HERE = os.path.dirname(os.path.dirname(os.path.abspath(__file__)))
sys.path[:0] = [HERE, os.environ.get('VERIF_REPO', '/repo')]

props = [json.loads(line) for line in open(os.path.join(HERE, 'properties.jsonl'))]
checks, na = [], []
for p in props:
    pid = p['id']
    path = os.path.join(HERE, 'vmon', 'props', pid.lower() + '.py')
    if not os.path.exists(path):
        na.append({'property_id': pid, 'reason': 'check not built yet (work in progress); see DESIGN.md section 3'})
        continue
    mod = importlib.import_module('vmon.props.' + pid.lower())
    mf = getattr(mod, 'MANIFEST', {})
    checks.append({
        'property_id': pid,
        'quick_cmd': f'./check {pid} --tier quick',
        'thorough_cmd': f'./check {pid} --tier thorough',
        'evidence_file': f'/verif/evidence/{pid}.json',
        'replay_cmd_template': f'./check {pid} --replay {{path}}',
        'engine': 'vmon',
        'level_claimed': {
            'category': mod.LEVEL,
            'text': mf.get('text', mod.__doc__.strip().split('\n\n', 1)[-1].replace('\n', ' ')),
            'design_ref': f'DESIGN.md section 3, {pid}',
        },
        'level_note': mf.get('note', '; '.join(mod.ASSUMPTIONS)),
        'technique': mf.get('technique', 'runtime monitoring: boundary monitor + reference oracle over generated workloads'),
    })
manifest = {
    'version': 1,
    'setup_cmd': './setup.sh',
    'hooks': {
        'guard': 'MIDO_VERIF',
        'enable': 'no source hooks are needed: every monitor is attached from outside (attribute wrapping, sys.monitoring, replaced module globals); the guard variable is reserved and unused',
        'baseline_off_cmd': 'cd /repo && /venv/bin/python -m pytest -ra -q -p no:cacheprovider --timeout=900 --continue-on-collection-errors',
        'source_commits': [],
        'add_only': True,
    },
    'engines': [{
        'name': 'vmon', 'path': '/verif/vmon',
        'serves_properties': [c['property_id'] for c in checks],
        'kind_free_text': 'runtime monitors over the real mido code imported from /repo: boundary and ride-along monitors, reference oracles, deterministic thread scheduler and failpoints on sys.monitoring, real sockets/processes/files',
    }],
    'checks': checks,
    'not_applicable': na,
    'notes': 'Entry point ./check <ID> [--tier quick|thorough] [--seed N] [--replay FILE]; honours VERIF_SEED / VERIF_TIER / VERIF_REPO. Exit 0 held, 1 violation (VIOLATION line + replay file), 2 inconclusive. known_findings.json lists known/fixed findings.',
}
with open(os.path.join(HERE, 'MANIFEST.json'), 'w') as f:
    json.dump(manifest, f, indent=1)
    f.write('\n')
print(len(checks), 'checks,', len(na), 'not yet claimed')
