#!/venv/bin/python
"""Regenerates MANIFEST.json from the property modules that exist."""
import importlib
import json
import os
import sys

HERE = os.path.dirname(os.path.dirname(os.path.abspath(__file__)))
sys.path[:0] = [HERE, os.environ.get('VERIF_REPO', '/repo')]

TECHNIQUE = {
 'C01': 'runtime monitoring: boundary monitor on bytes/bin/hex/len/from_bytes/from_hex + ride-along codec monitor, independent MIDI 1.0 reference encoder, exhaustive enumeration of the non-sysex space; two-thread first-use and overlap schedules in a child interpreter (deterministic scheduler on sys.monitoring); unusual numeric types; classes that inherit the codec (frozen, user subclass); shards run under 8 interpreter environments (-O, warnings as errors, C locale, library busy elsewhere, ...); generic verdicts for escaped library exceptions and calls stuck inside the library',
 'C02': 'runtime monitoring: boundary monitor on from_bytes/from_hex, reference acceptor + exception-class contract, exhaustive enumeration of all strings of length <= 3, perturbation sequences, decoders inherited by frozen/user classes, RtMidi delivery through a stand-in extension module, two-thread overlap schedules',
 'C03': 'runtime monitoring: invariant monitor (independent validity predicate + before/after snapshots) round every checked entry point incl. parse_string(_stream), grid + assignment histories with a shadow model interleaved with rejected edits and everyday handling (copies, pickle, hashed frozen twin); two-thread first-construction schedules',
 'C04': 'runtime monitoring: relational monitor on parse_all/feed/feed_byte/get_message polling (totality, validity, real-time exactly-once, position-exact subsequence), exhaustive class-alphabet strings + size ladders, entry points x iterable kinds, Parser subclasses, nested and alternating parsers, two parsers in two threads (child interpreter, one-preemption schedules)',
 'C05': 'runtime monitoring: shadow-parser monitor (byte-at-a-time twin) + FIFO/pending counter model over all cuts, container types (incl. wide-item arrays) and retrieval interleavings, Tokenizer used directly, feeds that fail half way, queue fed from several threads, clocks that jump (wrappers installed before import), unusual integer types as bytes, two parsers in two threads',
 'C06': 'runtime monitoring: relational monitor parse(P+enc(M)) == parse(P)+[M] with the reference encoder, all prefixes x boundary messages, split feeds, failed feeds, nested calls, retrieval by get_message / interrupted loops, messages delivered in pieces; two-thread first-parse and overlap schedules',
 'C07': 'runtime monitoring: monitor at save/load with an independent end_of_track folding model, save-must-raise table, byte-mutation fixed-point checks, file modes, track chunks beyond 1 MB, failed saves followed by valid ones, tracks of immutable (frozen) messages',
 'C08': 'runtime monitoring: bytes of save() parsed by an independent strict SMF reference decoder; alternative legal encodings from a reference encoder loaded under clip/debug/header-size configurations; overlapping save/load schedules of two threads; overwriting by filename; short-read streams; frozen and mixed-origin messages',
 'C09': 'runtime monitoring: boundary monitor on MetaMessage()/bytes/from_bytes and the track reader against an independent meta reference codec, exhaustive finite domains, unusual integer types, subclasses, samples repeated after perturbing calls; every type through a saved file under several charsets (plain, frozen, used before); two-thread first-use schedules',
 'C10': 'runtime monitoring: recorded client-boundary histories + wire log under a deterministic line-/instruction-granularity thread scheduler (sys.monitoring), 18 programs, bounded-preemption enumeration + random/PCT schedules + free-running stress, offline history checker (exactly-once, per-sender FIFO, integrity, lock discipline); mixed consumer-call sequences; blocked get() with seeded pauses',
 'C11': 'runtime monitoring: device-double event log + sequential lifecycle model over all operation sequences and device self-close positions, sleep-count bounded progress, wild wall clocks with the real sleep(), sockets (reset, broken pipe, PortServer close), devices that close the port from inside a failing write (autoreset), scheduler for overlapping close/send/iter_pending with lock-wait attribution',
 'C12': 'runtime monitoring: boundary monitor on merge_tracks/merged_track with an independent absolute-time merge model and input snapshots, re-merge histories, thousands of tracks, merges after failed spec registrations',
 'C13': 'runtime monitoring: monitor on iter/length/play with a virtual clock and recorded sleeps, exact rational tempo-map oracle, consumer-delay patterns, maximal deltas, texts in several scripts and charsets, two files measured by two threads',
 'C14': 'runtime monitoring: boundary monitor on str/from_str/dict/from_dict/repr/parse_string(_stream): round-trip equality, invalid-text grammar classes, line-numbered stream model, hashed frozen twins, str-subclass types, rejected edits before conversion; two-thread first-conversion schedules',
 'C15': 'runtime monitoring: boundary monitor on copy/freeze/thaw/hash: fresh-construction equivalence, aliasing snapshots, hash/dict-key checks on independently built twins, hash-colliding values, re-registered custom specs, two-thread overlap schedules',
 'C16': 'runtime monitoring: differential monitor - every observation on an edited MidiFile compared with the same observation on a freshly built twin, contents snapshot before/after every observation, strict reference decoding of every save, consumer edits, refused edits, save from another thread, over random edit/observe histories; the same contents as frozen / already-encoded messages',
 'C17': 'runtime monitoring + fault injection: default-charset probe after every load/save, payload bytes via reference SMF decoder, faults at every byte/read/write/message and at every executed line (sys.monitoring failpoints)',
 'C18': 'runtime monitoring: real stream sockets (socketpair, TCP loopback, forked peer killed with SIGKILL), every cut offset x segmentation, delivery log against the known stream, sleep-count bounds, client turnover on a server',
 'C19': 'runtime monitoring: boundary monitor on write_syx_file/read_syx_file with real temporary files against a filter-and-preserve model, whitespace layouts, invalid texts, call sequences, messages born in other ways, dumps beyond 64 KiB',
 'C20': 'runtime monitoring: call/import log of recording fake backend modules against an independent precedence model over the complete configuration grid, set_backend and environment sequences, shared Backend objects across threads with a stack-sample verdict for blocked first use',
}
props = [json.loads(line) for line in open(os.path.join(HERE, 'properties.jsonl'))]
checks, na = [], []
for p in props:
    pid = p['id']
    path = os.path.join(HERE, 'vmon', 'props', pid.lower() + '.py')
    if not os.path.exists(path):
        na.append({'property_id': pid, 'reason': 'check not built yet (work in progress); see DESIGN.md section 3'})
        continue
    mod = importlib.import_module('vmon.props.' + pid.lower())
    mf = getattr(mod, 'MANIFEST', {})
    checks.append({
        'property_id': pid,
        'quick_cmd': f'./check {pid} --tier quick',
        'thorough_cmd': f'./check {pid} --tier thorough',
        'evidence_file': f'/verif/evidence/{pid}.json',
        'replay_cmd_template': f'./check {pid} --replay {{path}}',
        'engine': 'vmon',
        'level_claimed': {
            'category': mod.LEVEL,
            'text': mf.get('text', mod.__doc__.strip().split('\n\n', 1)[-1].replace('\n', ' ')),
            'design_ref': f'DESIGN.md section 3, {pid}',
        },
        'level_note': mf.get('note', '; '.join(mod.ASSUMPTIONS)),
        'technique': mf.get('technique', TECHNIQUE[pid]),
    })
manifest = {
    'version': 1,
    'setup_cmd': './setup.sh',
    'hooks': {
        'guard': 'MIDO_VERIF',
        'enable': 'no source hooks are needed: every monitor is attached from outside (attribute wrapping, sys.monitoring, replaced module globals); the guard variable is reserved and unused',
        'baseline_off_cmd': 'cd /repo && /venv/bin/python -m pytest -ra -q -p no:cacheprovider --timeout=900 --continue-on-collection-errors',
        'source_commits': [],
        'add_only': True,
    },
    'engines': [{
        'name': 'vmon', 'path': '/verif/vmon',
        'serves_properties': [c['property_id'] for c in checks],
        'kind_free_text': 'runtime monitors over the real mido code imported from /repo: boundary and ride-along monitors, reference oracles, deterministic thread scheduler and failpoints on sys.monitoring, child-interpreter first-use/overlap schedules, real sockets/processes/files; every shard runs in one of seven interpreter environments (core.ENV_MODES)',
    }],
    'checks': checks,
    'not_applicable': na,
    'notes': 'Entry point ./check <ID> [--tier quick|thorough] [--seed N] [--replay FILE]; honours VERIF_SEED / VERIF_TIER / VERIF_REPO. Exit 0 held, 1 violation (VIOLATION line + replay file), 2 inconclusive. known_findings.json lists known/fixed findings.',
}
with open(os.path.join(HERE, 'MANIFEST.json'), 'w') as f:
    json.dump(manifest, f, indent=1)
    f.write('\n')
print(len(checks), 'checks,', len(na), 'not yet claimed')
