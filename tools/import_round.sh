#!/bin/sh
# tools/import_round.sh <round-tag> <pid>...   copies /tmp/wt/<pid>/out/m*/ to seeded/<pid>-<tag>mN and confirms them
tag=$1; shift
for p in "$@"; do
  for m in 1 2 3; do
    src=/tmp/wt/$p/out/m$m
    [ -f $src/patch.diff ] || continue
    dst=/verif/seeded/$p-${tag}m$m
    [ -d $dst ] && continue
    mkdir -p $dst; cp $src/patch.diff $src/demo.py $src/meta.json $dst/
    (/verif/tools/seeded.py confirm $dst > $dst/confirm.json 2>&1 &)
  done
done
