#!/venv/bin/python
"""tools/merge_matrix.py <out> <file>...   - merges outputs of `tools/seeded.py all` (later files override earlier ones per
(change, check) row).  A row that ended EXIT2 (inconclusive: a watchdog on an overloaded machine) does not override a
conclusive older row; such rows are listed on stderr so that they can be run again on their own."""
import re
import sys
rows = {}
order = []
for path in sys.argv[2:]:
    for line in open(path):
        m = re.match(r'(\S+) (C\d\d) (CAUGHT|MISSED|EXIT\d+) ', line)
        if not m:
            continue
        key = (m.group(1), m.group(2))
        if m.group(3).startswith('EXIT') and key in rows and not rows[key].split()[2].startswith('EXIT'):
            print('inconclusive, older row kept:', key, file=sys.stderr)
            continue
        if key not in rows:
            order.append(key)
        rows[key] = line.rstrip('\n')


def sortkey(k):
    name = k[0]
    m = re.match(r'(C\d\d)-(?:r(\d+))?m(\d+)', name)
    return (m.group(1), int(m.group(2) or 1), int(m.group(3)), k[1]) if m else (name, 0, 0, k[1])


with open(sys.argv[1], 'w') as f:
    for k in sorted(rows, key=sortkey):
        f.write(rows[k] + '\n')
print(len(rows), 'rows')
