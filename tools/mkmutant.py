#!/venv/bin/python
"""tools/mkmutant.py <name> <property[,also...]> <file> <old> <new> [<file> <old> <new> ...]
Creates tools/mutants/<name>/{patch.diff,meta.json} from textual replacements on /repo's HEAD."""
import json, os, subprocess, sys, tempfile, shutil
name, props = sys.argv[1], sys.argv[2].split(',')
edits = sys.argv[3:]
d = tempfile.mkdtemp(prefix='vmk.', dir='/tmp')
try:
    subprocess.check_call(['rsync', '-a', '--exclude', '.git', '/repo/mido', d + '/a/'])
    subprocess.check_call(['rsync', '-a', '--exclude', '.git', '/repo/mido', d + '/b/'])
    for i in range(0, len(edits), 3):
        f, old, new = edits[i:i + 3]
        p = os.path.join(d, 'b', f)
        s = open(p).read()
        old = old.encode().decode('unicode_escape'); new = new.encode().decode('unicode_escape')
        assert s.count(old) == 1, (f, old, s.count(old))
        open(p, 'w').write(s.replace(old, new))
    r = subprocess.run(['diff', '-ruN', 'a', 'b'], cwd=d, capture_output=True, text=True)
    out = os.path.join(os.path.dirname(os.path.abspath(__file__)), 'mutants', name)
    os.makedirs(out, exist_ok=True)
    open(os.path.join(out, 'patch.diff'), 'w').write(r.stdout)
    json.dump({'property': props[0], 'also_run': props[1:], 'summary': name, 'origin': 'design-time mutant (DESIGN section 3)'},
              open(os.path.join(out, 'meta.json'), 'w'), indent=1)
    print('wrote', out, len(r.stdout.splitlines()), 'lines')
finally:
    shutil.rmtree(d)
