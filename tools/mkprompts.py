#!/venv/bin/python
"""tools/mkprompts.py <round> [focus-file]   - writes /tmp/wt/prompt<round>_Cxx.txt for the 20 properties and
creates the scratch worktrees /tmp/wt/Cxx (at /repo HEAD).  A prompt holds only the text of the property,
the ground rules and one-line summaries of the changes earlier rounds produced (so that they are not repeated)."""
import glob
import json
import os
import subprocess
import sys

rnd = sys.argv[1]
focus = open(sys.argv[2]).read().strip() if len(sys.argv) > 2 else ''
props = [json.loads(l) for l in open('/verif/properties.jsonl')]
os.makedirs('/tmp/wt', exist_ok=True)
for p in props:
    pid = p['id']
    wt = f'/tmp/wt/{pid}'
    if not os.path.isdir(wt):
        subprocess.run(['git', '-C', '/repo', 'worktree', 'add', '--detach', wt, 'HEAD'], check=True, capture_output=True)
    earlier = []
    for d in sorted(glob.glob(f'/verif/seeded/{pid}-*')):
        try:
            m = json.load(open(d + '/meta.json'))
            earlier.append('- ' + ' '.join(str(m.get('summary', '')).split())[:150])
        except Exception:
            pass
    text = f"""You are helping to evaluate a verification harness by writing realistic fault-injection changes ("mutants") for a Python library. You work ONLY inside the scratch git worktree {wt} (a checkout of the pure-Python MIDI library `mido`, source under {wt}/mido, tests under {wt}/tests). Do NOT read, list or modify anything under /verif or /repo, and do not look at other directories under /tmp/wt.

The property the library is supposed to satisfy:

---
{pid}: {p['title']}

Statement: {p['statement']}

Quantified over: {p['quantifier']['text']}

Relevant files: {', '.join(p['anchors']['files'])}
---

Your task: produce 2 DISTINCT source changes to the library (files under {wt}/mido only), each of which BREAKS this property while
 (a) the package still imports and works for ordinary use, and
 (b) the existing test suite still passes with the change applied. Run it as:
     cd {wt} && PYTHONPATH={wt} /venv/bin/python -m pytest -q -p no:cacheprovider --deselect tests/midifiles/test_tracks.py::test_merge_large_midifile
     (first confirm `PYTHONPATH={wt} /venv/bin/python -c "import mido; print(mido.__file__)"` prints a path under {wt}).
Each change should look like a plausible bug a maintainer could introduce, and it must need something SPECIFIC to manifest - a particular interleaving or timing, a fault or exception at a particular point, a multi-step sequence of operations, an unusual or boundary input, or two cooperating sites that each look fine alone. Do not submit changes that ordinary use of the happy path would expose at once, and do not just break the feature wholesale. The two changes should use different mechanisms and different code sites. {focus}

Do NOT use `git stash` (the stash is shared between worktrees and other people are working in sibling worktrees); use `git diff > file`, `git apply`, `git apply -R` and `git checkout -- .` instead.

Earlier rounds already produced the following changes for this property; do NOT repeat these mechanisms or code sites:
{chr(10).join(earlier)}

For each change N in {{1,2}} create the directory {wt}/out/m{{N}}/ containing:
 - patch.diff : output of `git diff` against HEAD for that change alone (must apply with `git apply` on a clean checkout of HEAD);
 - demo.py : a small standalone program, run as `PYTHONPATH=<tree> /venv/bin/python demo.py`, that exits 0 on the unmodified tree and exits non-zero (printing what went wrong) when the patch is applied. It must be deterministic (if it needs an interleaving, force it with events/barriers/monkeypatched hooks rather than hoping for timing) and finish within 60 seconds;
 - meta.json : {{"property": "{pid}", "summary": "...", "needs_to_manifest": "...", "files_changed": [...]}}.
Verify everything yourself: with the patch applied the test suite passes and demo.py fails; on the clean tree demo.py passes. Apply one patch at a time; when you are done leave the worktree's tracked files clean (`git -C {wt} checkout -- .`) so that only out/ remains as untracked output. The demo must stay inside what the property statement promises: if the clean tree's behaviour for your input is not covered by the statement, pick another input. No network is available; nothing can be installed. Finish with a short report: for each change one or two sentences on what it does and what it needs in order to manifest."""
    open(f'/tmp/wt/prompt{rnd}_{pid}.txt', 'w').write(text)
print('ok')
