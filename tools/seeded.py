#!/venv/bin/python
"""Validation tooling for seeded changes (never part of a registered check).

  tools/seeded.py confirm <dir>            # tests pass with patch; demo fails with, passes without
  tools/seeded.py run <dir> [PID ...] [--tier quick]   # run checks against a scratch copy with the patch
  tools/seeded.py all [--tier quick] [--jobs N]   # run every seeded/<id> against its property's check (and its also_run checks)

Scratch copies live under /tmp/vmut.* and are removed afterwards.
"""
import json
import os
import shutil
import subprocess
import sys
import tempfile
import time

HERE = os.path.dirname(os.path.dirname(os.path.abspath(__file__)))
PY = '/venv/bin/python'


def scratch(patch=None):
    d = tempfile.mkdtemp(prefix='vmut.', dir='/tmp')
    subprocess.check_call(['rsync', '-a', '--exclude', '.git', '--exclude', '__pycache__',
                           '--exclude', 'docs', '--exclude', 'logo', '/repo/', d + '/'])
    if patch:
        subprocess.check_call(['git', 'apply', '--unsafe-paths', os.path.abspath(patch)], cwd=d)
    return d


def confirm(sd):
    patch = os.path.join(sd, 'patch.diff')
    demo = os.path.abspath(os.path.join(sd, 'demo.py'))
    out = {}
    d = scratch(patch)
    try:
        env = dict(os.environ, PYTHONPATH=d, PYTHONDONTWRITEBYTECODE='1')
        r = subprocess.run([PY, '-m', 'pytest', '-q', '-p', 'no:cacheprovider', '-x',
                            '--deselect', 'tests/midifiles/test_tracks.py::test_merge_large_midifile'],
                           cwd=d, env=env, capture_output=True, text=True, timeout=600)
        out['tests_pass_with_patch'] = r.returncode == 0
        out['tests_tail'] = r.stdout.strip().splitlines()[-1:] 
        r = subprocess.run([PY, demo], cwd=d, env=env, capture_output=True, text=True, timeout=120)
        out['demo_fails_with_patch'] = r.returncode != 0
        out['demo_patched_tail'] = (r.stdout + r.stderr).strip().splitlines()[-3:]
    finally:
        shutil.rmtree(d, ignore_errors=True)
    d = scratch()
    try:
        env = dict(os.environ, PYTHONPATH=d, PYTHONDONTWRITEBYTECODE='1')
        r = subprocess.run([PY, demo], cwd=d, env=env, capture_output=True, text=True, timeout=120)
        out['demo_passes_clean'] = r.returncode == 0
    finally:
        shutil.rmtree(d, ignore_errors=True)
    out['confirmed'] = bool(out['tests_pass_with_patch'] and out['demo_fails_with_patch']
                            and out['demo_passes_clean'])
    return out


def run(sd, pids, tier):
    patch = os.path.join(sd, 'patch.diff')
    d = scratch(patch)
    res = {}
    try:
        for pid in pids:
            evd = tempfile.mkdtemp(prefix='vmut-ev.', dir='/tmp')
            env = dict(os.environ, VERIF_REPO=d, VERIF_EVIDENCE_DIR=evd)
            t0 = time.time()
            r = subprocess.run([os.path.join(HERE, 'check'), pid, '--tier', tier], env=env,
                               capture_output=True, text=True, timeout=7200)
            lines = [ln for ln in r.stdout.splitlines()
                     if ln.startswith(('VIOLATION', 'INCONCLUSIVE', '  violated'))]
            res[pid] = {'exit': r.returncode, 'wall': round(time.time() - t0, 1),
                        'lines': lines[:4], 'stderr': r.stderr[-300:]}
            shutil.rmtree(evd, ignore_errors=True)
    finally:
        shutil.rmtree(d, ignore_errors=True)
    return res


def main(argv):
    tier = 'quick'
    if '--tier' in argv:
        i = argv.index('--tier')
        tier = argv[i + 1]
        del argv[i:i + 2]
    cmd = argv[0]
    if cmd == 'confirm':
        print(json.dumps(confirm(argv[1]), indent=1))
    elif cmd == 'run':
        sd = argv[1]
        pids = argv[2:] or [json.load(open(os.path.join(sd, 'meta.json')))['property']]
        for pid, r in run(sd, pids, tier).items():
            verdict = {0: 'MISSED', 1: 'CAUGHT'}.get(r['exit'], f"EXIT{r['exit']}")
            print(f'{os.path.basename(sd.rstrip("/"))} {pid} {verdict} {r["wall"]}s', *r['lines'][:2], r['stderr'][-200:] if r['exit'] not in (0, 1) else '', sep='\n   ')
    elif cmd == 'all':
        root = os.path.join(HERE, 'seeded')
        if '--root' in argv:
            i = argv.index('--root')
            root = os.path.join(HERE, argv[i + 1])
            del argv[i:i + 2]
        jobs = 1
        if '--jobs' in argv:
            i = argv.index('--jobs')
            jobs = int(argv[i + 1])
            del argv[i:i + 2]
        only = argv[1:]
        todo = []
        for name in sorted(os.listdir(root)):
            sd = os.path.join(root, name)
            if not os.path.isdir(sd):
                continue
            meta = json.load(open(os.path.join(sd, 'meta.json')))
            if only and meta['property'] not in only and name not in only:
                continue
            todo.append((name, sd, sorted(set(meta.get('also_run', []) + [meta['property']]))))

        def one(item):
            name, sd, pids = item
            out = []
            try:
                results = run(sd, pids, tier)
            except subprocess.CalledProcessError as exc:
                return [f'{name} {pid} EXIT99 0s  patch does not apply to the current tree ({exc.cmd[:2]})' for pid in pids]
            for pid, r in results.items():
                verdict = {0: 'MISSED', 1: 'CAUGHT'}.get(r['exit'], f"EXIT{r['exit']}")
                out.append(f'{name} {pid} {verdict} {r["wall"]}s  {(r["lines"] or [""])[0][:160]}')
            return out
        from concurrent.futures import ThreadPoolExecutor
        with ThreadPoolExecutor(max_workers=jobs) as ex:
            for lines in ex.map(one, todo):
                for ln in lines:
                    print(ln, flush=True)


if __name__ == '__main__':
    main(sys.argv[1:])
