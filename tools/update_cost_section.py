#!/venv/bin/python
"""tools/update_cost_section.py <quick-evidence-dir> <thorough-evidence-dir>  - rewrites DESIGN.md section 8.5 from evidence files."""
import os
import re
import subprocess
import sys

HERE = os.path.dirname(os.path.dirname(os.path.abspath(__file__)))
table = subprocess.run([os.path.join(HERE, 'tools', 'cost_table.py'), sys.argv[1], sys.argv[2]], capture_output=True, text=True, check=True).stdout
p = os.path.join(HERE, 'DESIGN.md')
s = open(p).read()
head = '### 8.5 Cost (16 cores, seed 0)\n'
a = s.index(head) + len(head)
b = s.index('### 8.6 ')
note = ('\n' + table + '\n(quick walls from the final run on a quiet machine, with every shard of C13 C15 C17 C18 C19 C20 run in all eight interpreter\n'
        'environments; thorough walls measured while other work shared the machine - the seeded-change matrix, sub-agent sessions.)\n'
        'Both tiers were run on the unchanged tree: quick with seeds 0, 1, 2 and 3 from fresh processes and by `vp check` (VERIF_SEED=1),\n'
        'thorough with seed 0: every check exits 0, only the three known-finding keys are printed.\n\n')
open(p, 'w').write(s[:a] + note + s[b:])
print('ok')
