"""Things a caller may legitimately do to an object *between* two uses the checks look at, and that
must leave it as it was: edits that are rejected, conversions, hashing of a frozen twin.

    failed_edits(msg)    a battery of invalid assignments / deletions on a message; every one must
                         raise (that is judged by C03 and C09); returns how many were tried and how
                         many were accepted.  Nothing is restored: the caller's oracle then judges the
                         message against what it was before - a rejected edit that left a trace, or an
                         edit that was wrongly accepted, shows there
    handle(msg)          harmless uses: str, repr, dict (edited), bytes (edited), copy, deepcopy,
                         pickle round trip, freeze + hash + dict key + thaw
"""
import copy
import pickle

BAD_INTS = (None, 1.5, '1', -9000, 2 ** 40, [1], object())
BAD_DATA = ([1, 2, 300], [1, None], (1, 'x'), [-1], 5, None, [1.5], 'abc\x80')
BAD_TIMES = ('x', None, 1j, [1], object())


def failed_edits(msg):
    tried = accepted = 0
    if getattr(msg, 'type', None) in ('unknown_meta', 'sequencer_specific') or type(msg).__name__.endswith('UnknownMetaMessage'):
        return 0, 0          # unchecked by design (C15 assumptions) / stored as given (known finding)
    before = dict(vars(msg))
    for name, old in list(before.items()):
        if name == 'type':
            bads = ('note_off' if old != 'note_off' else 'note_on', 'bogus', None, 5)
        elif name == 'time':
            bads = BAD_TIMES
        elif name == 'data':
            bads = BAD_DATA
        elif isinstance(old, str):
            bads = (5, None, b'x', ['x'], 1.5)
        else:
            bads = BAD_INTS
        for bad in bads:
            tried += 1
            try:
                setattr(msg, name, bad)
            except Exception:
                pass
            else:
                accepted += 1
        tried += 1
        try:
            delattr(msg, name)
        except Exception:
            pass
        else:
            accepted += 1
    for name in ('bogus', '_x', 'Note', 'skip_checks'):
        tried += 1
        try:
            setattr(msg, name, 1)
        except Exception:
            pass
        else:
            accepted += 1
    return tried, accepted



def handle(msg):
    """Read-only (as far as the message is concerned) uses; results are edited or dropped."""
    import mido.frozen as fz
    n = 0
    for f in (str, repr):
        try:
            f(msg)
            n += 1
        except Exception:
            pass
    try:
        import mido
        if not getattr(msg, 'is_meta', False):
            mido.format_as_string(msg, include_time=False)
            mido.format_as_string(msg, include_time=True)
            n += 1
    except Exception:
        pass
    try:
        d = msg.dict()
        d['time'] = 'poked'
        d.pop('type', None)
        d.clear()
        n += 1
    except Exception:
        pass
    try:
        b = msg.bytes()
        if isinstance(b, list):
            del b[:]
            b.append(0x99)
        msg.bin()
        msg.hex()
        n += 1
    except Exception:
        pass
    try:
        c = msg.copy()
        c.time = 31337
        copy.copy(msg)
        dc = copy.deepcopy(msg)
        dc.time = 4242
        pk = pickle.loads(pickle.dumps(msg))
        pk.time = 777
        n += 1
    except Exception:
        pass
    try:
        f1 = fz.freeze_message(msg)
        try:
            hash(f1)
            {f1: 1}[fz.freeze_message(msg.copy())]
            {f1}
        except TypeError:
            pass
        t = fz.thaw_message(f1)
        t.time = 5
        n += 1
    except Exception:
        pass
    return n


def freeze_tracks(mid):
    """The same file holding immutable messages (mido.frozen): what an application that deduplicates or hashes its
    messages keeps in its tracks.  Everything that reads the tracks - save, merge, iteration, length - gives what
    it gives for the plain messages."""
    import mido.frozen as fz
    for tr in mid.tracks:
        tr[:] = [fz.freeze_message(m) for m in tr]
    return mid
