"""The library is busy with something else: environment mode 'library-busy' (core.ENV_MODES).

A process rarely does one thing at a time.  While the workload of a check runs, this module keeps other, unrelated
uses of mido *in progress* in the same process - suspended half way, the only state in which a call that switches
something module-wide "for the duration" (validation, a charset, a default) is visible to everybody else:

    a MidiFile being iterated (generator suspended after the first message)
    a MidiFile being played   (play() suspended after the first message)
    a port being iterated, a parser being iterated
    a block `with meta_charset(<the default charset>)` that is never left
    a second thread parked in the body of `for msg in midifile` and another inside `for msg in port`
    a tokenizer, parsers and a queue that still hold what nobody fetched; a hashed frozen message
    a thread that feeds and drains a tokenizer, a parser and a queue of its own every two milliseconds

None of these objects is ever touched by a check, and each property quantifies over all call histories of the
process: nothing a check observes may differ.
"""
import threading

_KEEP = []


def enter_forever():
    import mido
    from mido.midifiles import meta
    from mido.ports import BaseIOPort

    def song():
        mid = mido.MidiFile(type=1, ticks_per_beat=96)
        mid.tracks.append(mido.MidiTrack([
            mido.MetaMessage('set_tempo', tempo=400000, time=0), mido.MetaMessage('track_name', name='ambient', time=0),
            mido.Message('note_on', note=60, time=0), mido.Message('sysex', data=(1, 2), time=0),
            mido.Message('note_off', note=60, time=0), mido.MetaMessage('end_of_track', time=0)]))
        mid.tracks.append(mido.MidiTrack([mido.Message('program_change', program=3, time=0),
                                          mido.MetaMessage('end_of_track', time=0)]))
        return mid

    class Loop(BaseIOPort):
        def _send(self, msg):
            self._messages.append(msg)

    m1, m2, m3 = song(), song(), song()
    it1 = iter(m1)
    next(it1)
    it2 = m2.play(meta_messages=True)
    next(it2)
    port = Loop('ambient')
    port.send(mido.Message('note_on', note=1))
    port.send(mido.Message('note_on', note=2))
    it3 = iter(port)
    next(it3)
    parser = mido.Parser()
    parser.feed([0x90, 1, 2, 0x90, 3, 4, 0x90])
    it4 = iter(parser)
    next(it4)
    cm = meta.meta_charset(meta._charset)
    cm.__enter__()
    _KEEP.extend([m1, m2, m3, it1, it2, port, it3, parser, it4, cm])
    # things left lying around half used: a tokenizer and parsers that still hold what nobody fetched, a queue with messages
    # in it, a parser in the middle of a message, a frozen message that has been hashed
    from mido.tokenizer import Tokenizer
    from mido.backends._parser_queue import ParserQueue
    from mido.frozen import freeze_message
    tok = Tokenizer([0xF0, 0x7D, 0x01, 0xF7, 0x9F, 0x11, 0x22, 0xF8, 0xB0])
    p2 = mido.Parser([0xF0, 0x7D, 0x02, 0xF7, 0x8E, 0x33, 0x44])
    p3 = mido.Parser()
    p3.feed([0x9D, 0x55])
    q = ParserQueue()
    q.put_bytes([0xF0, 0x7D, 0x03, 0xF7, 0xCA, 0x05])
    fz = freeze_message(mido.Message('sysex', data=(0x7D, 4)))
    hash(fz)
    _KEEP.extend([tok, p2, p3, q, fz])

    parked = threading.Event()
    never = threading.Event()

    def in_file_loop():
        for _ in m3:
            parked.set()
            never.wait()

    port2 = Loop('ambient2')
    port2.send(mido.Message('note_on', note=9))
    parked2 = threading.Event()

    def in_port_loop():
        for _ in port2:
            parked2.set()
            never.wait()

    for f, ev in ((in_file_loop, parked), (in_port_loop, parked2)):
        th = threading.Thread(target=f, daemon=True, name='vmon-ambient')
        th.start()
        ev.wait(10)
        _KEEP.append(th)
    _KEEP.append(port2)

    # and one thread that keeps using the library for itself: its own tokenizer, parser and queue, fed and drained every
    # couple of milliseconds (an input port's callback thread does nothing else) - nobody else ever sees these objects
    pause = threading.Event()

    def churn():
        tok = Tokenizer()
        par = mido.Parser()
        cq = ParserQueue()
        while True:
            try:
                tok.feed([0xF0, 0x7D, 0x09, 0xF7, 0x9C, 0x01])
                list(tok)
                par.feed(b'\x8b\x02\x03\xf0\x7d\x0a')
                par.get_message()
                cq.put_bytes([0xF0, 0x7D, 0x0B, 0xF7])
                cq.poll()
                mido.Message('sysex', data=(0x7D, 0x0C)).copy(time=1).bytes()
            except BaseException:          # (fault injection of a check may hit this thread's lines too)
                pass
            pause.wait(0.002)
    th = threading.Thread(target=churn, daemon=True, name='vmon-ambient-churn')
    th.start()
    _KEEP.append(th)
    return len(_KEEP)
