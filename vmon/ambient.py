"""The library is busy with something else: environment mode 'library-busy' (core.ENV_MODES).

A process rarely does one thing at a time.  While the workload of a check runs, this module keeps other, unrelated
uses of mido *in progress* in the same process - suspended half way, the only state in which a call that switches
something module-wide "for the duration" (validation, a charset, a default) is visible to everybody else:

    a MidiFile being iterated (generator suspended after the first message)
    a MidiFile being played   (play() suspended after the first message)
    a port being iterated, a parser being iterated
    a block `with meta_charset(<the default charset>)` that is never left
    a second thread parked in the body of `for msg in midifile` and another inside `for msg in port`

None of these objects is ever touched by a check, and each property quantifies over all call histories of the
process: nothing a check observes may differ.
"""
import threading

_KEEP = []


def enter_forever():
    import mido
    from mido.midifiles import meta
    from mido.ports import BaseIOPort

    def song():
        mid = mido.MidiFile(type=1, ticks_per_beat=96)
        mid.tracks.append(mido.MidiTrack([
            mido.MetaMessage('set_tempo', tempo=400000, time=0), mido.MetaMessage('track_name', name='ambient', time=0),
            mido.Message('note_on', note=60, time=0), mido.Message('sysex', data=(1, 2), time=0),
            mido.Message('note_off', note=60, time=0), mido.MetaMessage('end_of_track', time=0)]))
        mid.tracks.append(mido.MidiTrack([mido.Message('program_change', program=3, time=0),
                                          mido.MetaMessage('end_of_track', time=0)]))
        return mid

    class Loop(BaseIOPort):
        def _send(self, msg):
            self._messages.append(msg)

    m1, m2, m3 = song(), song(), song()
    it1 = iter(m1)
    next(it1)
    it2 = m2.play(meta_messages=True)
    next(it2)
    port = Loop('ambient')
    port.send(mido.Message('note_on', note=1))
    port.send(mido.Message('note_on', note=2))
    it3 = iter(port)
    next(it3)
    parser = mido.Parser()
    parser.feed([0x90, 1, 2, 0x90, 3, 4, 0x90])
    it4 = iter(parser)
    next(it4)
    cm = meta.meta_charset(meta._charset)
    cm.__enter__()
    _KEEP.extend([m1, m2, m3, it1, it2, port, it3, parser, it4, cm])

    parked = threading.Event()
    never = threading.Event()

    def in_file_loop():
        for _ in m3:
            parked.set()
            never.wait()

    port2 = Loop('ambient2')
    port2.send(mido.Message('note_on', note=9))
    parked2 = threading.Event()

    def in_port_loop():
        for _ in port2:
            parked2.set()
            never.wait()

    for f, ev in ((in_file_loop, parked), (in_port_loop, parked2)):
        th = threading.Thread(target=f, daemon=True, name='vmon-ambient')
        th.start()
        ev.wait(10)
        _KEEP.append(th)
    _KEEP.append(port2)
    return len(_KEEP)
