"""Clocks under the harness's control, installed before mido is imported.

gen.jumping_clocks used to replace the functions of the time module while it was active - which a library module
that did `from time import monotonic` at import time never noticed.  install() (called first thing in every shard,
before anything imports mido) puts pass-through wrappers into the time module once and for all; while
state['active'] is set, every reading of any of them jumps an hour ahead of the previous one.  Inactive, they
return what the real clock returns.
"""
import time as _time

_real = {}
state = {'active': False, 'offset': 0.0, 'base': 0.0, 'tick': 0.0}
FLOAT = ('time', 'monotonic', 'perf_counter', 'process_time')
NS = ('time_ns', 'monotonic_ns', 'perf_counter_ns')


def _make(real, ns):
    def clock():
        if state['active']:
            state['offset'] += 3600.0
            return real() + (int((state['offset'] + state['base']) * 1e9) if ns else state['offset'] + state['base'])
        if state['tick']:
            # a coarse timer (Windows' 15.6 ms GetTickCount64 behind time.monotonic, a virtualised TSC ...): readings are
            # multiples of the tick, so two calls a few microseconds apart read the same value
            t = real() + (int(state['base'] * 1e9) if ns else state['base'])
            q = int(state['tick'] * 1e9) if ns else state['tick']
            return (t // q) * q
        if state['base']:
            return real() + (int(state['base'] * 1e9) if ns else state['base'])
        return real()
    clock.__name__ = real.__name__
    clock.__doc__ = real.__doc__
    return clock


def install():
    if _real:
        return
    for n in FLOAT + NS:
        real = getattr(_time, n)
        _real[n] = real
        setattr(_time, n, _make(real, n in NS))


def advance(seconds):
    """The process was not scheduled for a while (or the machine slept): from now on every clock of the time module reads
    `seconds` later than it would have.  Monotonic clocks stay monotonic; nothing waits."""
    state['base'] += seconds


class coarse:
    """with clock.coarse(0.0156): every clock of the time module has that resolution."""
    def __init__(self, tick=0.015625):
        self.tick = tick

    def __enter__(self):
        self.prev = state['tick']
        state['tick'] = self.tick
        return self

    def __exit__(self, *exc):
        state['tick'] = self.prev
        return False


def installed():
    return bool(_real)


def real(name='monotonic'):
    return _real.get(name) or getattr(_time, name)
