"""Cold-start schedules: the first calls into a freshly imported mido, made by two threads.

A table that is built on first use, a memo filled in place, a module attribute assigned half way
through a call: state of that kind is correct for every single-threaded workload and for every
workload that starts after the first call has returned.  It is observable only while the *first*
call is still running - so this driver makes every schedule start from a new import of mido.

Runs as a child process (python -m vmon.coldstart, job as JSON on stdin, report as JSON on
stdout) because it throws mido's modules away between schedules; nothing else may hold references
to them.  For every schedule with at most `k` preemptions (the deterministic baton scheduler of
vmon.mon.sched, yield point = every line of the named modules):

    purge mido from sys.modules; import it afresh; thread i runs jobs[i] (a list of operations)

("fresh": false in the job keeps one import for all schedules and warms every operation up first:
the same driver then explores overlapping calls in the steady state - a scratch buffer shared
between calls, a result object handed out twice.)

and every operation's result is compared with the expected value supplied by the caller (computed
there by the reference codec, never by mido).

Operations (JSON objects):
    {"fn": "from_bytes", "arg": [..ints..], "want": {...}}       Message.from_bytes(list)
    {"fn": "from_bytes_b", "arg": [...], "want": {...}}          Message.from_bytes(bytes)
    {"fn": "from_hex", "arg": "E0 7F 7F", "want": {...}}
    {"fn": "bytes", "type": t, "attrs": {...}, "want": [..]}     Message(t, **attrs).bytes()
    {"fn": "from_str", "arg": "note_on ...", "want": {...}}
    {"fn": "ctor" | "from_dict" | "copy", "type": t, "attrs": {...}, "want": {...}}   (then every attribute is
                                                       re-assigned and the message encoded)
    {"fn": "str", "type": t, "attrs": {...}, "want": "..."}
    {"fn": "parse_all", "arg": [...], "want": [{...}, ...]}
    {"fn": "save", "fmt": 1, "division": 96, "tracks": [[event, ...], ...], "want": "hex of the file"}
    {"fn": "load", "data": "hex", "want": [type, ticks_per_beat, [[message, ...], ...]]}
    {"fn": "timing", "data": "hex", "want": "__sequential__"}    iteration times + length (warm mode: compared with
                                                                  the child's own sequential run of the same operation)
    {"fn": "meta_bytes", "type": t, "attrs": {...}, "want": [..]}
    {"fn": "meta_from_bytes", "arg": [...], "want": {...}}
A result that is an exception is reported as {"raised": "ClassName: text"}.
"""
import json
import sys

from .mon import sched, lines


def norm(v):
    if isinstance(v, (list, tuple)):
        return [norm(x) for x in v]
    if hasattr(v, '__dict__') and hasattr(v, 'type'):
        d = {k: norm(x) for k, x in vars(v).items()}
        d['class'] = type(v).__name__
        return d
    if isinstance(v, (bytes, bytearray)):
        return list(v)
    return v


def purge():
    for k in [k for k in sys.modules if k == 'mido' or k.startswith('mido.')]:
        del sys.modules[k]


def msg_of_event(mido, ev):
    """A message of the freshly imported mido from a reference event (vmon.ref.smf form)."""
    from .ref import meta as rmeta
    from .ref import midi1
    kind, d = ev[0], ev[1]
    if kind in ('ch', 'sys'):
        t, a = midi1.decode([ev[2]] + list(ev[3]))
        return mido.Message(t, time=d, **a)
    if kind == 'sysex':
        return mido.Message('sysex', data=tuple(ev[2]), time=d)
    t, a = rmeta.decode_payload(ev[2], ev[3], 'latin1')
    if t == 'unknown_meta':
        return mido.UnknownMetaMessage(ev[2], tuple(ev[3]), time=d)
    return mido.MetaMessage(t, time=d, **a)


def do(mido, op):
    fn = op['fn']
    try:
        if fn == 'from_bytes':
            return norm(mido.Message.from_bytes(list(op['arg'])))
        if fn == 'from_bytes_b':
            return norm(mido.Message.from_bytes(bytes(op['arg'])))
        if fn == 'from_hex':
            return norm(mido.Message.from_hex(op['arg']))
        if fn == 'bytes':
            a = {k: tuple(v) if isinstance(v, list) else v for k, v in op['attrs'].items()}
            return norm(mido.Message(op['type'], **a).bytes())
        if fn == 'from_str':
            return norm(mido.Message.from_str(op['arg']))
        if fn == 'save':
            import io
            mid = mido.MidiFile(type=op['fmt'], ticks_per_beat=op['division'])
            for evs in op['tracks']:
                mid.tracks.append(mido.MidiTrack(msg_of_event(mido, e) for e in evs))
            buf = io.BytesIO()
            mid.save(file=buf)
            return buf.getvalue().hex()
        if fn == 'timing':
            # iteration times and length of a file (seconds): compared with this child's own sequential run
            import io
            mid = mido.MidiFile(file=io.BytesIO(bytes.fromhex(op['data'])))
            return [[m.type, repr(m.time)] for m in mid] + [['length', repr(mid.length)]]
        if fn == 'load':
            import io
            mid = mido.MidiFile(file=io.BytesIO(bytes.fromhex(op['data'])))
            return [mid.type, mid.ticks_per_beat, [norm(list(t)) for t in mid.tracks]]
        if fn in ('ctor', 'from_dict', 'copy'):
            a = {k: tuple(v) if isinstance(v, list) else v for k, v in op['attrs'].items()}
            if fn == 'ctor':
                m = mido.Message(op['type'], **a)
            elif fn == 'from_dict':
                m = mido.Message.from_dict({'type': op['type'], **a})
            else:
                m = mido.Message(op['type']).copy(**a)
            # a usable message: every attribute readable and assignable, encodable
            for k, v in list(vars(m).items()):
                if k != 'type':
                    setattr(m, k, v)
            m.bytes()
            return norm(m)
        if fn == 'str':
            a = {k: tuple(v) if isinstance(v, list) else v for k, v in op['attrs'].items()}
            return str(mido.Message(op['type'], **a))
        if fn == 'parse_all':
            return norm(mido.parse_all(list(op['arg'])))
        if fn == 'meta_bytes':
            a = {k: tuple(v) if isinstance(v, list) else v for k, v in op['attrs'].items()}
            return norm(mido.MetaMessage(op['type'], **a).bytes())
        if fn == 'meta_from_bytes':
            return norm(mido.MetaMessage.from_bytes(list(op['arg'])))
        raise KeyError(fn)
    except Exception as exc:
        return {'raised': f'{type(exc).__name__}: {exc}'}


def run_job(job, timeout=240):
    """Parent side: run one job in a child interpreter; returns the report dict, or
    {'inconclusive': why}."""
    import os
    import subprocess
    try:
        r = subprocess.run([sys.executable, '-B', '-m', 'vmon.coldstart'], input=json.dumps(job), capture_output=True,
                           text=True, timeout=timeout, env=dict(os.environ))
    except subprocess.TimeoutExpired:
        return {'inconclusive': 'cold-start child timed out'}
    if r.returncode != 0:
        return {'inconclusive': f'cold-start child exit {r.returncode}: {r.stderr[-400:]}'}
    try:
        return json.loads(r.stdout)
    except ValueError:
        return {'inconclusive': f'cold-start child output unreadable: {r.stdout[-200:]!r}'}


def judge(ctx, clause, keyprefix, job, rep, kind):
    """Fold a report into the check context; returns the number of schedules."""
    if 'inconclusive' in rep:
        ctx.undecided(rep['inconclusive'])
        return 0
    if rep['aborted']:
        ctx.undecided(f"cold-start schedule aborted: {rep['aborted'][0]}")
    for mm in rep['mismatches']:
        op = mm['op']
        ctx.check(clause, False, f"{keyprefix}:{op['fn']}:{op.get('type') or ''}",
                  {'kind': kind, 'job': job, 'points': mm['points']},
                  {'thread': mm['thread'], 'op': op, 'got': mm['got'], 'want': mm['want'], 'switched_at': mm['switched_at']})
    if not rep['mismatches']:
        ctx.count(clause, rep['ops'])
    return rep['schedules']


def phase(ctx, jobs, clause, kind='cold', offset=3):
    """Run the jobs (spread over shards starting at `offset`), fold the reports into ctx, record
    what the scheduler explored.  Returns the number of schedules run by this shard."""
    n = 0
    for ji, job in enumerate(jobs):
        if ji % ctx.nshards != (ctx.shard - offset) % ctx.nshards:
            continue
        rep = run_job(job)
        k = judge(ctx, clause, 'cold', job, rep, kind)
        n += k
        if k:
            ctx.nontrivial(None, k)
            ctx.extra('cold_start_schedules', k)
            ctx.extra('cold_start_steps', rep['steps'])
            ctx.extra('cold_start_distinct_traces', rep['distinct_traces'])
            if ji == 0:
                ctx.put_sample({'kind': 'cold-start', 'schedules': k, 'distinct_traces': rep['distinct_traces'],
                                'switch_sites': rep['switch_sites'][:12]})
    return n


def replay(ctx, case, clause):
    job = dict(case['job'])
    rep = run_job(job)
    judge(ctx, clause, 'cold', job, rep, case['kind'])


def file_activity():
    """Operations for 'the other thread': a file is saved, measured (iteration + length, i.e. a merge) and loaded.  Whatever
    these calls switch on or off for their own duration is visible to the thread next door while they run."""
    from .ref import smf
    eot = ['meta', 0, 0x2F, []]
    ta = [[['ch', 0, 0x90, [60, 100]], ['sysex', 5, [1, 2, 3]], ['meta', 0, 0x51, [7, 161, 32]], ['meta', 3, 0x01, [104, 105]],
           ['ch', 96, 0x80, [60, 0]], eot], [['meta', 0, 0x03, [65, 66]], ['ch', 1, 0xC5, [9]], eot]]
    data, _ = smf.encode_file(1, 96, [[tuple(e) for e in t] for t in ta])
    return [{'fn': 'save', 'fmt': 1, 'division': 96, 'tracks': ta, 'want': data.hex()},
            {'fn': 'timing', 'data': data.hex(), 'want': '__sequential__'},
            {'fn': 'load', 'data': data.hex(), 'want': '__sequential__'}]


FILE_MODULES = ['mido.midifiles.midifiles', 'mido.midifiles.meta', 'mido.midifiles.tracks', 'mido.messages.checks', 'mido.messages.messages']


def parser_overlap_jobs():
    """Two threads, each with a parser of its own, parse at the same time streams that use the same status bytes with
    other data bytes (steady state, one pre-emption anywhere in tokenizer / parser / decoder): each gets its own messages."""
    from .ref import midi1

    def stream(specs):
        return {'fn': 'parse_all', 'arg': [b for t, a in specs for b in midi1.encode(t, a)], 'want': [msg_want(t, a) for t, a in specs]}
    a = [('note_on', {'channel': 3, 'note': 60, 'velocity': 100}), ('control_change', {'channel': 1, 'control': 7, 'value': 8}),
         ('pitchwheel', {'channel': 5, 'pitch': 100}), ('sysex', {'data': [1, 2]}), ('program_change', {'channel': 2, 'program': 9}),
         ('songpos', {'pos': 5}), ('quarter_frame', {'frame_type': 1, 'frame_value': 2})]
    b = [('note_on', {'channel': 3, 'note': 61, 'velocity': 1}), ('control_change', {'channel': 1, 'control': 9, 'value': 10}),
         ('pitchwheel', {'channel': 5, 'pitch': -7}), ('sysex', {'data': [5]}), ('program_change', {'channel': 2, 'program': 10}),
         ('songpos', {'pos': 300}), ('quarter_frame', {'frame_type': 3, 'frame_value': 4})]
    mods = ['mido.tokenizer', 'mido.parser', 'mido.messages.decode', 'mido.messages.checks', 'mido.messages.messages', 'mido.messages.specs']
    return [{'modules': mods, 'fresh': False, 'jobs': [[stream(a[:4])], [stream(b[:4])]], 'k': 1},
            {'modules': mods, 'fresh': False, 'jobs': [[stream(a[4:]), stream(b[:2])], [stream(b[4:]), stream(a[:2])]], 'k': 1}]


def msg_want(t, a, cls='Message', time=0):
    want = {'type': t, 'time': time, 'class': cls}
    want.update({k: list(v) if isinstance(v, tuple) else v for k, v in a.items()})
    return want


def main():
    job = json.load(sys.stdin)
    modules = job['modules']
    jobs = job['jobs']
    k = job.get('k', 1)
    limit = job.get('limit')
    suffixes = tuple(m.replace('.', '/') + '.py' for m in modules)
    report = {'schedules': 0, 'steps': 0, 'traces': set(), 'mismatches': [], 'aborted': [], 'switch_sites': set(),
              'ops': 0}

    fresh = job.get('fresh', True)
    warm = {}

    def run_once(points):
        import importlib
        if fresh or not warm:
            sched.uninstall()
            purge()
            mido = importlib.import_module('mido')
            mods = [importlib.import_module(m) for m in modules]
            warm['mido'], warm['codes'] = mido, lines.code_objects(mods)
            if not fresh:
                # warm mode: one import, every operation done once before the schedules start; an operation whose
                # expected value is "__sequential__" is compared with what this sequential run gave
                for j in jobs:
                    for op in j:
                        r0 = do(mido, op)
                        if op.get('want') == '__sequential__':
                            op['want'] = r0
        mido, codes = warm['mido'], warm['codes']
        strat = sched.Preempt(points)
        s = sched.Scheduler(codes, strat, max_steps=20000, candidate_files=suffixes)
        results = [[None] * len(j) for j in jobs]

        def body(i):
            def run():
                for oi, op in enumerate(jobs[i]):
                    results[i][oi] = do(mido, op)
            return run
        s.run([body(i) for i in range(len(jobs))], wall_timeout=30.0)
        report['schedules'] += 1
        report['steps'] += s.step
        report['traces'].add(s.trace_key())
        report['switch_sites'] |= {(site[0], site[1]) for site, a, b in s.switch_sites}
        if s.aborted or s.errors:
            report['aborted'].append({'points': list(points), 'why': s.aborted, 'errors': s.errors[:3]})
            return None
        for i, j in enumerate(jobs):
            for oi, op in enumerate(j):
                report['ops'] += 1
                if results[i][oi] != op['want'] and len(report['mismatches']) < 20:
                    report['mismatches'].append({'points': [list(p) for p in points], 'thread': i, 'op_index': oi,
                                                 'op': {x: op[x] for x in op if x != 'want'},
                                                 'got': results[i][oi], 'want': op['want'],
                                                 'switched_at': sorted(f'{a}:{b}' for (a, b), *_ in s.switch_sites)})
        return strat

    n = sched.enumerate_preemptions(run_once, k, limit=limit)
    sched.uninstall()
    report['schedules'] = n
    report['distinct_traces'] = len(report.pop('traces'))
    report['switch_sites'] = sorted(f'{a}:{b}' for a, b in report['switch_sites'])
    json.dump(report, sys.stdout)


if __name__ == '__main__':
    main()
