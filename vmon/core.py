"""Harness core: tiers, seeds, sharding, verdicts, evidence, replay files,
known-finding matching.  See DESIGN.md section 2.

A property module (vmon/props/cNN.py) provides

    ID, LEVEL, RULE, ASSUMPTIONS, DECIDING (clauses that must be evaluated),
    nshards(tier), run(ctx), replay(ctx, case), TIMEOUT = {tier: seconds}

Every shard is a separate process.  A shard never decides the exit code; it
reports counters, samples and violations, the parent merges and decides.
"""
import collections
import hashlib
import importlib
import json
import os
import random
import subprocess
import sys
import time
import traceback

HERE = os.path.dirname(os.path.dirname(os.path.abspath(__file__)))
REPO = os.path.realpath(os.environ.get('VERIF_REPO', '/repo'))
WORK = os.path.join(HERE, '.work')
EVDIR = os.environ.get('VERIF_EVIDENCE_DIR') or os.path.join(HERE, 'evidence')

# Every shard runs its slice of the workload in one of these interpreter environments (round robin
# over the shards): a property has to hold whatever the flags, locale or warning filters of the
# process are.  (name, extra interpreter arguments, environment overrides)
ENV_MODES = [
    ('default', [], {}),
    ('optimize', ['-O'], {}),                                   # assert statements are stripped
    ('warnings-as-errors', [], {'VERIF_WERROR': '1'}),          # any warning raised by library code is an exception
    ('c-locale', [], {'LC_ALL': 'C', 'LANG': 'C', 'PYTHONUTF8': '0', 'PYTHONCOERCECLOCALE': '0'}),
    ('hash-random', [], {'PYTHONHASHSEED': 'random'}),
    ('optimize+warnings-as-errors', ['-OO'], {'VERIF_WERROR': '1'}),
    ('cwd-elsewhere', [], {'VERIF_CWD': 'tmp'}),
    ('library-busy', [], {'VERIF_AMBIENT': '1'}),               # other uses of mido suspended half way (vmon.ambient)
]


def env_mode_of(shard, env_pass=0):
    """Round robin over the shards; a property module with ENV_FULL = True runs every shard once per
    mode (pass p shifts the assignment by p), the others run each shard once."""
    return ENV_MODES[(shard + env_pass) % len(ENV_MODES)]


def apply_env_mode_in_child():
    """Called first thing in a shard (or a replay child): what cannot be set from outside."""
    from . import clock
    clock.install()          # before anything imports mido
    if os.environ.get('VERIF_WERROR') == '1':
        import warnings
        warnings.simplefilter('error')
        # the harness's own and the standard library's housekeeping stays quiet
        warnings.filterwarnings('ignore', category=ResourceWarning)
    if os.environ.get('VERIF_CWD') == 'tmp':
        import tempfile
        d = tempfile.mkdtemp(prefix='vmon-cwd-')
        os.chdir(d)
        os.environ.pop('HOME', None)
        import atexit
        import shutil
        atexit.register(shutil.rmtree, d, True)
    if os.environ.get('VERIF_AMBIENT') == '1':
        os.environ.pop('VERIF_AMBIENT')          # this process only: not its cold-start children
        from . import ambient
        ambient.enter_forever()
MAX_VIOLATIONS_PER_KEY = 5
MAX_SAMPLES = 12
NCPU = 16


class HarnessAbort(BaseException):
    """Raised by watchdogs inside monitored code.  BaseException so that
    mido's own `except Exception/OSError/ValueError` cannot swallow it."""


def jsonable(x, depth=0):
    """Best-effort conversion of a case description to JSON."""
    if depth > 8:
        return repr(x)
    if x is None or isinstance(x, (bool, str)):
        return x
    if isinstance(x, int):
        return x if abs(x) < 2 ** 63 else {'__int__': str(x)}
    if isinstance(x, float):
        if x != x or x in (float('inf'), float('-inf')):
            return {'__float__': repr(x)}
        return x
    if isinstance(x, (bytes, bytearray)):
        return {'__bytes__': bytes(x).hex()}
    if isinstance(x, dict):
        return {str(k): jsonable(v, depth + 1) for k, v in x.items()}
    if isinstance(x, (list, tuple, set, frozenset)):
        return [jsonable(v, depth + 1) for v in x]
    return {'__repr__': repr(x)}


def unjson(x):
    if isinstance(x, dict):
        if '__int__' in x and len(x) == 1:
            return int(x['__int__'])
        if '__float__' in x and len(x) == 1:
            return float(x['__float__'])
        if '__bytes__' in x and len(x) == 1:
            return bytes.fromhex(x['__bytes__'])
        return {k: unjson(v) for k, v in x.items()}
    if isinstance(x, list):
        return [unjson(v) for v in x]
    return x


def h64(obj):
    """Deterministic 64-bit hash of a (json-able) object."""
    s = repr(obj).encode('utf-8', 'backslashreplace')
    return int.from_bytes(hashlib.blake2b(s, digest_size=8).digest(), 'big')


class Ctx:
    def __init__(self, prop, tier, seed, shard=0, nshards=1):
        self.prop = prop
        self.tier = tier
        self.seed = seed
        self.shard = shard
        self.nshards = nshards
        self.counters = collections.Counter()
        self.distinct = set()
        self.distinct_bc = 0          # distinct by construction (enumerations)
        self.samples = []
        self._sample_seen = 0
        self.violations = []
        self.vcount = collections.Counter()
        self.extras = {}
        self.exhaustive = None
        self.rng = random.Random(f'{prop}:{seed}:{shard}')
        self.t0 = time.time()
        self.inconclusive = []

    # ---- counting -----------------------------------------------------
    def count(self, clause, n=1):
        self.counters[clause] += n

    def nontrivial(self, key=None, n=1):
        """Record a distinct non-trivial case.  key=None: distinct by
        construction (the caller enumerates without repetition)."""
        if key is None:
            self.distinct_bc += n
        else:
            self.distinct.add(key if isinstance(key, int) else h64(key))

    def sample(self, obj, p=None):
        """Keep a few of the actual cases (first ones, then a reservoir)."""
        self._sample_seen += 1
        if len(self.samples) < MAX_SAMPLES:
            self.samples.append(jsonable(obj() if callable(obj) else obj))
        else:
            j = self.rng.randrange(self._sample_seen)
            if j < MAX_SAMPLES // 2:
                self.samples[MAX_SAMPLES // 2 + j] = jsonable(
                    obj() if callable(obj) else obj)

    def want_sample(self):
        """Cheap test so callers can avoid building sample objects."""
        self._sample_seen += 1
        if len(self.samples) < MAX_SAMPLES:
            return True
        return self.rng.random() < MAX_SAMPLES / (2.0 * self._sample_seen)

    def put_sample(self, obj):
        if len(self.samples) < MAX_SAMPLES:
            self.samples.append(jsonable(obj))
        else:
            self.samples[MAX_SAMPLES // 2 + self.rng.randrange(
                MAX_SAMPLES // 2)] = jsonable(obj)

    def extra(self, name, value):
        """Extra coverage keys.  ints are summed, sets are united, dicts of
        ints are summed key-wise when shards are merged."""
        cur = self.extras.get(name)
        if isinstance(value, (set, frozenset)):
            self.extras[name] = (cur or set()) | set(value)
        elif isinstance(value, dict):
            cur = cur or {}
            for k, v in value.items():
                cur[k] = cur.get(k, 0) + v
            self.extras[name] = cur
        elif isinstance(value, bool) or isinstance(value, str):
            self.extras[name] = value
        else:
            self.extras[name] = (cur or 0) + value

    # ---- verdicts -----------------------------------------------------
    def fail(self, clause, key, case, detail):
        """Record a violation.  `key` names the mechanism (for known-finding
        matching), `case` is the replayable description (or a callable
        producing it), `detail` says what was observed vs expected."""
        k = (clause, key)
        self.vcount[k] += 1
        if self.vcount[k] <= MAX_VIOLATIONS_PER_KEY:
            if callable(case):
                case = case()
            self.violations.append({
                'clause': clause, 'key': key, 'case': jsonable(case),
                'detail': jsonable(detail), 'env_mode': os.environ.get('VERIF_ENVMODE', 'default')})
            self._write_partial(first_of_its_kind=self.vcount[k] == 1)

    def _write_partial(self, first_of_its_kind=False):
        """A shard that has seen a violation leaves what it has so far next to its (future) result
        file: if the code under test then hangs or crashes the interpreter, the parent still reports
        the violation instead of an inconclusive time-out."""
        path = getattr(self, 'partial_path', None)
        n = len(self.violations)
        if path is None or (n & (n - 1) and not first_of_its_kind):   # at the 1st, 2nd, 4th ... and at every new kind
            return
        try:
            res = self.result()
            res['partial'] = True
            tmp = path + '.tmp'
            with open(tmp, 'w') as f:
                json.dump(res, f)
            os.replace(tmp, path)
        except Exception:
            pass

    def check(self, clause, ok, key, case, detail=None):
        self.counters[clause] += 1
        if not ok:
            self.fail(clause, key, case, detail() if callable(detail) else detail)
        return ok

    def undecided(self, reason):
        self.inconclusive.append(reason)

    def result(self):
        ex = {}
        for k, v in self.extras.items():
            ex[k] = {'__set__': sorted(jsonable(list(v)), key=repr)} \
                if isinstance(v, set) else v
        return {
            'shard': self.shard, 'counters': dict(self.counters),
            'distinct': sorted(self.distinct), 'distinct_bc': self.distinct_bc,
            'samples': self.samples, 'violations': self.violations,
            'vcount': [[c, k, n] for (c, k), n in self.vcount.items()],
            'extras': ex, 'exhaustive': self.exhaustive,
            'inconclusive': self.inconclusive,
            'wall_s': time.time() - self.t0,
        }


def assert_repo():
    import mido
    f = os.path.realpath(mido.__file__)
    if not f.startswith(REPO + os.sep):
        raise SystemExit(f'HARNESS ERROR: mido imported from {f}, '
                         f'expected under {REPO}')


def load_prop(pid):
    return importlib.import_module('vmon.props.' + pid.lower())


# ------------------------------------------------------------- coverage
def anchor_codes(mod):
    from .mon import lines
    names = getattr(mod, 'ANCHORS', None)
    if not names:
        return None
    mods = [importlib.import_module(n) for n in names]
    return lines.code_objects(mods)


def start_cover(mod):
    """Line coverage of the property's anchor files (DESIGN 2.5): LINE events
    that disable themselves after the first hit, so the cost is negligible."""
    codes = anchor_codes(mod)
    if not codes:
        return None
    from .mon import lines
    hits = set()

    def cb(code, line):
        hits.add((code.co_filename, line))
        return sys.monitoring.DISABLE

    hook = lines.LineHook(lines.TOOL_COVER, 'vmon-cover', codes)
    hook.start(cb)
    return hook, hits


def stop_cover(cover, ctx):
    if cover is None:
        return
    hook, hits = cover
    hook.stop()
    ctx.extra('_cov_hits', {f'{os.path.relpath(f, REPO)}:{ln}' for f, ln in hits})


def cover_report(mod, hits):
    """Per anchor file: executable lines, lines executed by this run, and the
    functions none of whose lines were executed."""
    codes = anchor_codes(mod)
    hits = set(hits)
    per_file = {}
    not_driven = []
    for code in sorted(codes, key=lambda c: (c.co_filename, c.co_firstlineno)):
        if not os.path.realpath(code.co_filename).startswith(REPO + os.sep):
            continue
        f = os.path.relpath(code.co_filename, REPO)
        lns = {ln for (_, _, ln) in code.co_lines() if ln is not None and ln != code.co_firstlineno}
        if not lns:
            continue
        got = {ln for ln in lns if f'{f}:{ln}' in hits}
        d = per_file.setdefault(f, [0, 0])
        d[0] += len(got)
        d[1] += len(lns)
        if not got:
            not_driven.append(f'{f}:{code.co_qualname}')
    return ({f: {'executed': a, 'executable': b} for f, (a, b) in per_file.items()}, not_driven)


# ---------------------------------------------------------------- shard
STUCK_SECONDS = {'quick': 60.0, 'thorough': 240.0}


def start_stuck_watch(ctx, out, tier):
    """A call into the library that never comes back leaves no event for any monitor to judge - the shard would sit
    there until the parent's wall-clock watchdog kills it, and the run would be 'inconclusive'.  This thread samples
    the main thread's stack every 5 s.  When the whole stack has been identical for STUCK_SECONDS and its innermost
    Python frame is a line of mido itself (a blocking primitive - a socket read, a lock, a sleep - has no Python
    frame of its own), the workload is waiting inside the library on one line: reported as a violation of the
    promise every property makes implicitly, that a call returns; the stack is the witness.  A wait in the harness's
    own code (schedulers, joins, device doubles) has a harness frame innermost and is left to the other watchdogs."""
    import threading
    from . import clock
    mono = clock.real('monotonic')
    main_ident = threading.main_thread().ident
    need = STUCK_SECONDS[tier]
    tick = threading.Event()

    def watch():
        last, since = None, mono()
        while True:
            tick.wait(5.0)
            fr = sys._current_frames().get(main_ident)
            if fr is None:
                return
            st = traceback.extract_stack(fr)
            sig = tuple((f.filename, f.lineno, f.name) for f in st)
            if sig != last:
                last, since = sig, mono()
                continue
            if mono() - since < need or not st:
                continue
            # the innermost frame that is not the standard library's (socket.readinto, threading.wait, queue.get ... are
            # what a blocking call looks like from Python): who is waiting?
            stdlib = os.path.realpath(os.path.dirname(os.__file__)) + os.sep
            inner = None
            for f in reversed(st):
                if not os.path.realpath(f.filename).startswith(stdlib) and not f.filename.startswith('<'):
                    inner = f
                    break
            if inner is None or not os.path.realpath(inner.filename).startswith(REPO + os.sep):
                continue
            ctx.fail('no call into the library blocks for ever',
                     f'stuck:{os.path.basename(inner.filename)}:{inner.name}',
                     {'kind': 'stuck', 'note': 'not replayable by itself: re-run the check'},
                     {'seconds_on_this_line': round(mono() - since), 'line': f'{os.path.basename(inner.filename)}:{inner.lineno} {inner.line}',
                      'stack_tail': [f'{os.path.basename(f.filename)}:{f.lineno} {f.name}' for f in st[-8:]]})
            res = ctx.result()
            res['inconclusive'].append('the workload of this shard never got past a call into the library')
            tmp = out + '.tmp'
            with open(tmp, 'w') as f:
                json.dump(res, f)
            os.replace(tmp, out)
            os._exit(0)
    th = threading.Thread(target=watch, daemon=True, name='vmon-stuck-watch')
    th.start()


def shard_main(argv):
    pid, tier, seed, shard, nsh, out = argv
    seed, shard, nsh = int(seed), int(shard), int(nsh)
    import faulthandler
    faulthandler.enable()
    apply_env_mode_in_child()
    assert_repo()
    mod = load_prop(pid)
    ctx = Ctx(pid, tier, seed, shard, nsh)
    ctx.extra('environment_modes', {os.environ.get('VERIF_ENVMODE', 'default'): 1})
    ctx.partial_path = out + '.partial'
    limit = mod.TIMEOUT[tier]
    faulthandler.dump_traceback_later(max(limit - 5, 5), exit=False)
    cover = start_cover(mod)
    start_stuck_watch(ctx, out, tier)
    try:
        mod.run(ctx)
        stop_cover(cover, ctx)
        res = ctx.result()
    except HarnessAbort as exc:
        res = ctx.result()
        res['inconclusive'].append(f'harness abort: {exc!r}')
    except BaseException as exc:
        # An exception that escaped from the workload.  If it was raised INSIDE the library (innermost frame
        # under the repository) the library did something the workload's author had not thought possible -
        # that is reported as a violation with the traceback as witness; anything else is the harness's own
        # failure and makes the run inconclusive.
        tb = exc.__traceback__
        frames = traceback.extract_tb(tb)
        inner = frames[-1] if frames else None
        if inner is not None and os.path.realpath(inner.filename).startswith(REPO + os.sep) and isinstance(exc, Exception):
            ctx.fail('no exception escapes from the library into the workload',
                     f'escaped:{type(exc).__name__}:{os.path.basename(inner.filename)}:{inner.name}',
                     {'kind': 'escaped', 'note': 'not replayable by itself: re-run the check'},
                     {'exception': f'{type(exc).__name__}: {exc}'[:300],
                      'traceback_tail': [f'{os.path.basename(f.filename)}:{f.lineno} {f.name}' for f in frames[-6:]]})
            res = ctx.result()
            res['inconclusive'].append('the workload of this shard stopped at the escaped exception')
        else:
            res = ctx.result()
            res['harness_error'] = traceback.format_exc()
    faulthandler.cancel_dump_traceback_later()
    tmp = out + '.tmp'
    with open(tmp, 'w') as f:
        json.dump(res, f)
    os.replace(tmp, out)
    sys.stdout.flush()
    os._exit(0)


# --------------------------------------------------------------- parent
def run_shards(pid, tier, seed, mod):
    n = mod.nshards(tier)
    # (the thorough tier is many times larger: there the round robin over the shards covers the modes)
    ef = getattr(mod, 'ENV_FULL', False)
    passes = len(ENV_MODES) if ef and (tier == 'quick' or ef == 'both') else 1
    total = n * passes
    wdir = os.path.join(WORK, f'{pid}-{os.getpid()}')
    os.makedirs(wdir, exist_ok=True)
    limit = mod.TIMEOUT[tier]
    env = dict(os.environ)
    results, problems = {}, []
    known_keys = {k['key'] for k in load_known() if k['property'] == pid and k['status'] == 'known'}
    t_start = time.time()
    stop = {'at': None}      # once a violation has been reported: when to stop waiting for the rest

    def has_new(res):
        return any(v['key'] not in known_keys for v in res.get('violations', ()))

    def note_violation():
        # the verdict is settled; the other shards only add examples.  Give them as long again as
        # the run has taken so far (at least 20 s), then stop them - code that is broken enough to
        # violate the property may also make a workload crawl or hang.
        if stop['at'] is None:
            stop['at'] = time.time() + max(20.0, time.time() - t_start)

    def partial_of(out):
        try:
            with open(out + '.partial') as f:
                return json.load(f)
        except (OSError, ValueError):
            return None

    def launch(i):
        out = os.path.join(wdir, f'shard-{i}.json')
        for pth in (out, out + '.partial'):
            if os.path.exists(pth):
                os.remove(pth)
        log = open(os.path.join(wdir, f'shard-{i}.log'), 'w')
        mode, pyargs, envover = env_mode_of(i % n, i // n)
        p = subprocess.Popen(
            [sys.executable, '-B'] + pyargs + ['-m', 'vmon.core', '--shard-run',
             pid, tier, str(seed), str(i % n), str(n), out],
            stdout=log, stderr=subprocess.STDOUT, env=dict(env, VERIF_ENVMODE=mode, **envover), cwd=HERE)
        return p, out, time.time(), log

    def drive(todo, maxpar, final):
        failed = []
        pending, running = list(todo), {}
        while pending or running:
            while pending and len(running) < maxpar:
                i = pending.pop(0)
                running[i] = launch(i)
            time.sleep(0.02)
            if stop['at'] is None and any(os.path.exists(out + '.partial') for p, out, t0, log in running.values()):
                for p, out, t0, log in running.values():
                    part = partial_of(out)
                    if part and has_new(part):
                        note_violation()
            stopping = stop['at'] is not None and time.time() > stop['at']
            if stopping:
                pending.clear()
            for i, (p, out, t0, log) in list(running.items()):
                rc = p.poll()
                timed_out = rc is None and (time.time() - t0 > limit or stopping)
                if rc is None and not timed_out:
                    continue
                if timed_out:
                    p.kill()
                    p.wait()
                log.close()
                del running[i]
                if os.path.exists(out) and not timed_out:
                    with open(out) as f:
                        results[i] = json.load(f)
                    results[i]['secondary'] = i >= n          # a further environment pass over the same slice
                    if has_new(results[i]):
                        note_violation()
                elif partial_of(out) is not None:
                    # it reported violations and then hung, was stopped or died: keep what it reported
                    results[i] = partial_of(out)
                    why = ('stopped after another shard settled the verdict' if stopping else
                           'watchdog timeout' if timed_out else f'died rc={rc}')
                    problems.append(f'shard {i}: {why} after reporting {len(results[i]["violations"])} violation(s)')
                    if has_new(results[i]):
                        note_violation()
                elif stopping:
                    problems.append(f'shard {i}: stopped after another shard settled the verdict')
                elif final:
                    why = 'watchdog timeout' if timed_out else f'died rc={rc}'
                    problems.append(
                        f'shard {i}: {why} (log {wdir}/shard-{i}.log)')
                else:
                    failed.append(i)
        return failed

    failed = drive(range(total), getattr(mod, 'MAXPAR', NCPU), final=False)
    if failed and stop['at'] is None:
        # Retry once, one at a time (DESIGN 2.6) - a few of them: when many shards failed the cause is not the load on
        # the machine, and retrying them all one after the other would take hours (each may run into its time limit again)
        for i in failed[3:]:
            problems.append(f'shard {i}: watchdog timeout or crash, not retried ({len(failed)} shards failed)')
        drive(failed[:3], 1, final=True)
    if not problems and len(results) == total:
        import shutil
        shutil.rmtree(wdir, ignore_errors=True)
    return total, results, problems


def merge(results):
    counters = collections.Counter()
    distinct = set()
    distinct_bc = 0
    samples, violations = [], []
    vcount = collections.Counter()
    extras = {}
    inconcl, herr = [], []
    exhaustive = None
    for i in sorted(results):
        r = results[i]
        counters.update(r['counters'])
        if not r.get('secondary'):
            # distinct cases and samples are counted once, not once per environment
            distinct.update(r['distinct'])
            distinct_bc += r['distinct_bc']
            samples.extend(r['samples'][:3])
        violations.extend(r['violations'])
        for c, k, n in r['vcount']:
            vcount[(c, k)] += n
        for k, v in r['extras'].items():
            if isinstance(v, dict) and '__set__' in v:
                cur = extras.setdefault(k, [])
                for item in v['__set__']:
                    if item not in cur:
                        cur.append(item)
            elif isinstance(v, dict):
                cur = extras.setdefault(k, {})
                for kk, vv in v.items():
                    cur[kk] = cur.get(kk, 0) + vv
            elif isinstance(v, (bool, str)):
                extras[k] = v
            else:
                extras[k] = extras.get(k, 0) + v
        if r.get('exhaustive') is not None:
            exhaustive = r['exhaustive'] if exhaustive is None \
                else (exhaustive and r['exhaustive'])
        inconcl.extend(r['inconclusive'])
        if r.get('harness_error'):
            herr.append(f"shard {i}: {r['harness_error']}")
    # More samples from later shards if the first ones were sparse.
    if len(samples) < MAX_SAMPLES:
        for i in sorted(results):
            for s in results[i]['samples'][3:]:
                if len(samples) < MAX_SAMPLES:
                    samples.append(s)
    return dict(counters=counters, distinct=distinct, distinct_bc=distinct_bc,
                samples=samples[:MAX_SAMPLES * 2], violations=violations,
                vcount=vcount, extras=extras, inconclusive=inconcl,
                harness_errors=herr, exhaustive=exhaustive)


def load_known():
    path = os.path.join(HERE, 'known_findings.json')
    if not os.path.exists(path):
        return []
    with open(path) as f:
        return json.load(f)['findings']


def write_replay(pid, tier, seed, v):
    d = os.path.join(HERE, 'replay')
    os.makedirs(d, exist_ok=True)
    body = {'property': pid, 'tier': tier, 'seed': seed, 'clause': v['clause'],
            'key': v['key'], 'case': v['case'], 'detail': v['detail'], 'env_mode': v.get('env_mode', 'default')}
    name = f"{pid}-{h64([v['clause'], v['key'], v['case']]):016x}.json"
    path = os.path.join(d, name)
    with open(path, 'w') as f:
        json.dump(body, f, indent=1)
    return path


def main(argv):
    if argv and argv[0] == '--shard-run':
        shard_main(argv[1:])
        return
    import argparse
    ap = argparse.ArgumentParser(prog='check')
    ap.add_argument('prop')
    ap.add_argument('--tier', choices=['quick', 'thorough'], default=None)
    ap.add_argument('--seed', type=int, default=None)
    ap.add_argument('--replay', default=None)
    a = ap.parse_args(argv)
    pid = a.prop.upper()
    tier = a.tier or os.environ.get('VERIF_TIER') or 'quick'
    if tier not in ('quick', 'thorough'):
        tier = 'quick'
    seed = a.seed if a.seed is not None else int(os.environ.get('VERIF_SEED', '0') or 0)
    assert_repo()
    mod = load_prop(pid)
    t0 = time.time()

    if a.replay:
        with open(a.replay) as f:
            body = json.load(f)
        want_mode = body.get('env_mode', 'default')
        if want_mode != os.environ.get('VERIF_ENVMODE', 'default'):
            # the case was found in another interpreter environment: replay it there
            for mode, pyargs, envover in ENV_MODES:
                if mode == want_mode:
                    r = subprocess.run([sys.executable, '-B'] + pyargs + ['-m', 'vmon.core'] + list(argv),
                                       env=dict(os.environ, VERIF_ENVMODE=mode, **envover), cwd=HERE)
                    return r.returncode
        apply_env_mode_in_child()
        ctx = Ctx(pid, body.get('tier', tier), body.get('seed', seed))
        if isinstance(body.get('case'), dict) and body['case'].get('kind') in ('escaped', 'stuck'):
            print(f"this case records an exception that escaped from the library, or a call into it that never returned ({body.get('key')}); it has no input of its "
                  f"own - re-run ./check {pid} --tier {body.get('tier', tier)} --seed {body.get('seed', seed)}")
            return 2
        try:
            mod.replay(ctx, unjson(body['case']))
        except HarnessAbort as exc:
            print(f'INCONCLUSIVE property={pid} reason=harness abort {exc!r}')
            return 2
        if ctx.violations:
            for v in ctx.violations:
                print(f"reproduced: clause={v['clause']} key={v['key']} "
                      f"detail={json.dumps(v['detail'])[:600]}")
            print(f'VIOLATION property={pid} replay={a.replay}')
            return 1
        print(f'replay of {a.replay}: no violation '
              f'({sum(ctx.counters.values())} clause evaluations)')
        return 0

    n, results, problems = run_shards(pid, tier, seed, mod)
    m = merge(results)
    known = [k for k in load_known() if k['property'] == pid]
    known_keys = {k['key']: k for k in known if k['status'] == 'known'}

    new, hit_known = [], {}
    for v in m['violations']:
        if v['key'] in known_keys:
            hit_known.setdefault(v['key'], v)
        else:
            new.append(v)

    inconclusive = list(problems) + m['inconclusive'] + m['harness_errors']
    for clause in getattr(mod, 'DECIDING', []):
        if m['counters'].get(clause, 0) == 0:
            inconclusive.append(f'deciding clause {clause!r} was evaluated 0 times')
    if len(results) < n:
        inconclusive.append(f'only {len(results)} of {n} shards reported')

    evaluations = int(m['counters'].get('cases', 0)) or int(sum(m['counters'].values()))
    distinct = len(m['distinct']) + m['distinct_bc']
    coverage = {
        'evaluations': evaluations,
        'distinct_nontrivial': distinct,
        'rule': mod.RULE,
        'samples': m['samples'] or ['(no samples recorded)'],
        'clause_evaluations': dict(sorted(m['counters'].items())),
        'shards': n,
    }
    if m['exhaustive'] is not None:
        coverage['exhaustive'] = bool(m['exhaustive'])
    for k, v in m['extras'].items():
        if k == '_cov_hits':
            per_file, not_driven = cover_report(mod, v)
            coverage['anchor_line_coverage'] = per_file
            coverage['anchor_functions_not_driven'] = not_driven
        else:
            coverage[k] = v
    coverage['known_findings_seen'] = sorted(hit_known)
    coverage['shard_wall_seconds'] = [round(results[i].get('wall_s', 0), 1) for i in sorted(results)]
    coverage['violation_counts'] = {f'{c}|{k}': n_ for (c, k), n_ in m['vcount'].items()}
    if inconclusive:
        coverage['inconclusive_reasons'] = inconclusive[:20]
    verdict = 'violation' if new else ('inconclusive' if inconclusive else 'held')
    coverage['verdict'] = verdict
    ev = {
        'property_id': pid, 'tier': tier, 'seed': seed, 'level': mod.LEVEL,
        'coverage': coverage,
        'assumptions': list(mod.ASSUMPTIONS),
        'wall_s': round(time.time() - t0, 3),
        'violations': len(new),
    }
    os.makedirs(EVDIR, exist_ok=True)
    with open(os.path.join(EVDIR, f'{pid}.json'), 'w') as f:
        json.dump(ev, f, indent=1, sort_keys=False)
        f.write('\n')

    print(f'{pid} tier={tier} seed={seed} shards={n} evaluations={evaluations} '
          f'distinct_nontrivial={distinct} wall={ev["wall_s"]}s')
    for c, k_ in sorted(m['counters'].items()):
        print(f'  clause {c}: {k_}')
    for key, v in sorted(hit_known.items()):
        print(f"KNOWN-FINDING: property={pid} {known_keys[key]['what']} "
              f"[key={key}; {sum(n_ for (c, k), n_ in m['vcount'].items() if k == key)} occurrences]")
    if new:
        seen = set()
        for v in new:
            path = write_replay(pid, tier, seed, v)
            tag = (v['clause'], v['key'])
            if tag in seen:
                continue
            seen.add(tag)
            print(f"  violated clause={v['clause']} key={v['key']} "
                  f"case={json.dumps(v['case'])[:400]} detail={json.dumps(v['detail'])[:400]}")
            print(f'VIOLATION property={pid} replay={path}')
        return 1
    if inconclusive:
        for r in inconclusive[:10]:
            print(f'  inconclusive: {r[:2000]}')
        print(f'INCONCLUSIVE property={pid} reason={inconclusive[0][:200]!r}')
        return 2
    print(f'HELD property={pid}')
    return 0


if __name__ == '__main__':
    sys.exit(main(sys.argv[1:]))
