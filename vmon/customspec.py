"""The documented extension point for meta messages (docs/meta_message_types.rst,
"Implementing New or Custom Meta Messages"): add_meta_spec().  Registering a
spec changes process-wide tables, so the scenarios here must run LAST in a
shard (they use type byte 0xEE / type names no generator produces)."""
import io
import struct

import mido
from mido import MetaMessage, MidiFile, MidiTrack, UnknownMetaMessage
from mido.midifiles.meta import MetaSpec, add_meta_spec

from .ref import meta as rmeta

TYPE_BYTE = 0xEE


def _file_with(event_bytes, delta=3):
    body = bytes(rmeta.vlq(delta)) + bytes(event_bytes) + b'\x00\xff\x2f\x00'
    return (b'MThd' + struct.pack('>LHHH', 6, 1, 1, 96) + b'MTrk' + struct.pack('>L', len(body)) + body)


def scenario(ctx, clause_roundtrip, clause_repr, clause_codec):
    """1. a file with the still unknown type byte is read (-> UnknownMetaMessage);
    2. a custom spec for it is registered;  3. messages of the new type must encode, decode,
    round-trip through a file and through repr;  4. the spec is registered again with one more
    attribute: the new attribute must be encoded and shown by repr."""
    case = {'kind': 'custom-meta-spec'}
    try:
        raw = [0xFF, TYPE_BYTE, 3, 10, 20, 30]
        before = MidiFile(file=io.BytesIO(_file_with(raw))).tracks[0][0]
        ctx.check(clause_roundtrip, type(before) is UnknownMetaMessage and before.type_byte == TYPE_BYTE
                  and before.data == (10, 20, 30) and before.time == 3, 'custom-spec:unknown-before', case, repr(before))
        repr(before)

        class MetaSpec_vmon_color(MetaSpec):
            type_byte = TYPE_BYTE
            attributes = ['r', 'g', 'b']
            defaults = [0, 0, 0]

            def decode(self, message, data):
                (message.r, message.g, message.b) = data[:3]

            def encode(self, message):
                return [message.r, message.g, message.b]

        add_meta_spec(MetaSpec_vmon_color)
        m = MetaMessage('vmon_color', r=120, g=60, b=255, time=7)
        ctx.check(clause_codec, m.bytes() == [0xFF, TYPE_BYTE, 3, 120, 60, 255], 'custom-spec:bytes', case, m.bytes())
        d = MetaMessage.from_bytes(m.bytes())
        ctx.check(clause_codec, d == m.copy(time=0) and type(d) is MetaMessage, 'custom-spec:from_bytes', case, repr(d))
        mid = MidiFile()
        mid.tracks.append(MidiTrack([m, MetaMessage('vmon_color', time=1)]))
        buf = io.BytesIO()
        mid.save(file=buf)
        back = MidiFile(file=io.BytesIO(buf.getvalue()))
        ctx.check(clause_roundtrip, list(back.tracks[0])[:2] == list(mid.tracks[0])
                  and all(type(x) is MetaMessage for x in back.tracks[0]), 'custom-spec:file-roundtrip', case,
                  [repr(x) for x in back.tracks[0]][:3])
        again = MidiFile(file=io.BytesIO(_file_with(raw))).tracks[0][0]
        ctx.check(clause_roundtrip, type(again) is MetaMessage and again.type == 'vmon_color'
                  and (again.r, again.g, again.b, again.time) == (10, 20, 30, 3), 'custom-spec:known-after', case, repr(again))
        ns = {'MetaMessage': MetaMessage, 'UnknownMetaMessage': UnknownMetaMessage}
        ctx.check(clause_repr, eval(repr(m), dict(ns)) == m, 'custom-spec:repr', case, repr(m))  # noqa: S307

        class MetaSpec_vmon_color2(MetaSpec):
            type = 'vmon_color'
            type_byte = TYPE_BYTE
            attributes = ['r', 'g', 'b', 'w']
            defaults = [0, 0, 0, 0]

            def decode(self, message, data):
                (message.r, message.g, message.b) = data[:3]
                message.w = data[3] if len(data) > 3 else 0

            def encode(self, message):
                return [message.r, message.g, message.b, message.w]

        add_meta_spec(MetaSpec_vmon_color2)
        m2 = MetaMessage('vmon_color', r=1, g=2, b=3, w=99, time=2)
        ctx.check(clause_codec, m2.bytes() == [0xFF, TYPE_BYTE, 4, 1, 2, 3, 99]
                  and MetaMessage.from_bytes(m2.bytes()) == m2.copy(time=0), 'custom-spec:re-registered-codec', case,
                  m2.bytes())
        back2 = eval(repr(m2), dict(ns))  # noqa: S307
        ctx.check(clause_repr, back2 == m2 and 'w=99' in repr(m2), 'custom-spec:re-registered-repr', case, repr(m2))
        # a built-in type still works and an override of a built-in name is picked up by repr
        t = MetaMessage('marker', text='x')
        ctx.check(clause_repr, eval(repr(t), dict(ns)) == t, 'custom-spec:builtin-repr', case, repr(t))  # noqa: S307
    except Exception as exc:
        ctx.fail(clause_roundtrip, f'custom-spec:{type(exc).__name__}', case, f'{type(exc).__name__}: {exc}')
