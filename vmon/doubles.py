"""Device doubles (DESIGN section 2): a byte-wise wire device, a recording
port for lifecycle histories, a self-closing device."""
from collections import deque

from mido import Message
from mido.ports import BaseInput, BaseIOPort, BaseOutput


def msg_tag(msg):
    """(sender, seq) carried redundantly in the message fields."""
    v = vars(msg)
    t = v['type']
    if t == 'sysex':
        d = v['data']
        return (d[0], d[1]) if len(d) >= 2 else ('?', tuple(d))
    if t == 'note_on':
        return (v['channel'], v['note'])
    if t == 'program_change':
        return (v['channel'], v['program'])
    if t == 'control_change':
        if v['control'] in (120, 121, 123):          # panic / reset bursts: ordered by channel
            return ('cc%d' % v['control'], v['channel'])
        return (v['channel'], v['control'])
    return ('?', t)


class Wire:
    """A byte pipe with a log of who wrote which byte."""

    def __init__(self):
        self.buf = deque()
        self.log = []


class WireOut(BaseOutput):
    def _open(self, wire=None, fail_on=(), **kwargs):
        self.wire = wire
        self.fail_on = set(fail_on)       # 1-based numbers of the _send calls the device refuses (OSError, nothing written)

    def _send(self, msg):
        tag = msg_tag(msg)
        self.sent_objects = getattr(self, 'sent_objects', 0) + 1
        if self.sent_objects in self.fail_on:
            raise OSError('device refuses the write')
        for b in msg.bytes():
            self.wire.log.append((tag, b))
            self.wire.buf.append(b)


class WireIn(BaseInput):
    def _open(self, wire=None, **kwargs):
        self.wire = wire

    def _receive(self, block=True):
        while self.wire.buf:
            b = self.wire.buf.popleft()
            self._parser.feed_byte(b)


class WirePort(BaseIOPort):
    """Loopback: what is sent arrives, byte by byte, at the same port."""

    def _open(self, wire=None, **kwargs):
        self.wire = wire

    def _send(self, msg):
        tag = msg_tag(msg)
        for b in msg.bytes():
            self.wire.log.append((tag, b))
            self.wire.buf.append(b)

    def _receive(self, block=True):
        while self.wire.buf:
            b = self.wire.buf.popleft()
            self._parser.feed_byte(b)


class SharedStatePort(BaseIOPort):
    """A device port whose _send() and _receive() work on one shared buffer in several steps each, the way
    the documentation of custom ports allows ("the two functions are protected by the same lock")."""

    def _open(self, wire=None, **kwargs):
        self.wire = wire

    def _send(self, msg):
        tag = msg_tag(msg)
        pending = list(self.wire.buf)          # read - modify - write
        for b in msg.bytes():
            self.wire.log.append((tag, b))
            pending.append(b)
        self.wire.buf.clear()
        self.wire.buf.extend(pending)

    def _receive(self, block=True):
        data = list(self.wire.buf)             # take everything, then empty the buffer
        for b in data:
            self._parser.feed_byte(b)
        self.wire.buf.clear()


class RecordingPort(BaseIOPort):
    """Lifecycle double: logs _open/_close/_send/_receive(block) and delivers a
    scripted supply of incoming messages.

    dev        messages the device holds but the port has not taken in yet
    batch      how many of them one _receive() call takes in
    close_at   the device closes itself (like a socket reading EOF) inside the
               first _receive() call made when at least close_at messages have
               been taken in (after taking in that call's batch); None = never
    send_fail  number of _send calls after which _send raises OSError
               (send_fail_closes: the device closes the port first, as SocketPort does on a broken pipe)
    recv_fail  (k, n): the k-th to (k+n-1)-th _receive calls raise OSError
    """

    def _open(self, log=None, dev=(), batch=1, close_at=None, send_fail=None, label='rec', recv_fail=None,
              send_fail_closes=False, **kwargs):
        self.log = log if log is not None else []
        self.dev = list(dev)
        self.batch = batch
        self.close_at = close_at
        self.send_fail = send_fail
        self.send_fail_closes = send_fail_closes   # like SocketPort on a broken pipe: close(), then raise
        self.recv_fail = recv_fail      # (first failing _receive call, how many calls fail) or None
        self.nrecv = 0
        self.label = label
        self.taken = 0
        self.nsend = 0
        self.log.append((label, '_open'))

    def _close(self):
        self.log.append((self.label, '_close'))

    def _send(self, msg):
        self.nsend += 1
        self.log.append((self.label, '_send', msg, self.closed))
        if self.send_fail is not None and self.nsend > self.send_fail:
            if self.send_fail_closes:
                self.close()
            raise OSError('device refuses')

    def _receive(self, block=True):
        self.log.append((self.label, '_receive', block))
        self.nrecv += 1
        if self.recv_fail is not None and self.recv_fail[0] <= self.nrecv < self.recv_fail[0] + self.recv_fail[1]:
            raise OSError('device read failed')
        for _ in range(self.batch):
            if self.dev:
                m = self.dev.pop(0)
                self._parser.feed(m.bytes())
                self.taken += 1
        if self.close_at is not None and self.taken >= self.close_at and not self.closed:
            self.close()


class DirectPort(RecordingPort):
    """A port type that, like mido.backends.rtmidi.Output, overrides send()
    itself (to bypass the base class lock) and leaves _send() as the inherited
    no-op.  Everything the base class sends on its own account - reset(),
    panic(), the autoreset burst of close() - has to go through send()."""
    _locking = False
    _send = BaseIOPort._send

    def send(self, msg):
        if not isinstance(msg, Message):
            raise TypeError('argument to send() must be a Message')
        if self.closed:
            raise ValueError('send() called on closed port')
        RecordingPort._send(self, msg.copy())

