"""Device doubles (DESIGN section 2): a byte-wise wire device, a recording
port for lifecycle histories, a self-closing device."""
from collections import deque

from mido.ports import BaseInput, BaseIOPort, BaseOutput


def msg_tag(msg):
    """(sender, seq) carried redundantly in the message fields."""
    v = vars(msg)
    t = v['type']
    if t == 'sysex':
        d = v['data']
        return (d[0], d[1]) if len(d) >= 2 else ('?', tuple(d))
    if t == 'note_on':
        return (v['channel'], v['note'])
    if t == 'program_change':
        return (v['channel'], v['program'])
    if t == 'control_change':
        return (v['channel'], v['control'])
    return ('?', t)


class Wire:
    """A byte pipe with a log of who wrote which byte."""

    def __init__(self):
        self.buf = deque()
        self.log = []


class WireOut(BaseOutput):
    def _open(self, wire=None, **kwargs):
        self.wire = wire

    def _send(self, msg):
        tag = msg_tag(msg)
        self.sent_objects = getattr(self, 'sent_objects', 0) + 1
        for b in msg.bytes():
            self.wire.log.append((tag, b))
            self.wire.buf.append(b)


class WireIn(BaseInput):
    def _open(self, wire=None, **kwargs):
        self.wire = wire

    def _receive(self, block=True):
        while self.wire.buf:
            b = self.wire.buf.popleft()
            self._parser.feed_byte(b)


class WirePort(BaseIOPort):
    """Loopback: what is sent arrives, byte by byte, at the same port."""

    def _open(self, wire=None, **kwargs):
        self.wire = wire

    def _send(self, msg):
        tag = msg_tag(msg)
        for b in msg.bytes():
            self.wire.log.append((tag, b))
            self.wire.buf.append(b)

    def _receive(self, block=True):
        while self.wire.buf:
            b = self.wire.buf.popleft()
            self._parser.feed_byte(b)
