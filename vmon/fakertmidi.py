"""A stand-in for the python-rtmidi extension module (not installed here, and there is no MIDI hardware):
just enough of its API for mido.backends.rtmidi to open ports on it.  The harness plays the driver:

    rt = fakertmidi.install()          # sys.modules['rtmidi']; imports mido.backends.rtmidi on top of it
    port = mido.backends.rtmidi.Input('fake in')
    port._rt.deliver([0x90, 1, 2])     # what RtMidi's thread does when the device sends something

Nothing of mido is replaced: the callback wrapper, the queue and the port are the library's own.
"""
import sys
import types

PORTS = ['fake in', 'fake out']


class _Rt:
    def __init__(self, rtapi=0, name=None, **kw):
        self.rtapi = rtapi
        self.callback = None
        self.opened = None
        self.sent = []
        self.deleted = False
        self.ignore = None

    def get_current_api(self):
        return 2 if self.rtapi == 0 else self.rtapi

    def get_ports(self):
        return list(PORTS)

    def open_port(self, port_id):
        self.opened = port_id

    def open_virtual_port(self, name):
        self.opened = name

    def close_port(self):
        self.opened = None

    def delete(self):
        self.deleted = True

    def ignore_types(self, *a):
        self.ignore = a

    def set_callback(self, func, data=None):
        self.callback = func

    def cancel_callback(self):
        self.callback = None

    def send_message(self, data):
        self.sent.append(list(data))

    # the driver's side
    def deliver(self, data, delta=0.0):
        cb = self.callback
        if cb is not None:
            cb((list(data), delta), None)


def install():
    mod = sys.modules.get('rtmidi')
    if mod is None or not getattr(mod, '_vmon_fake', False):
        mod = types.ModuleType('rtmidi')
        mod._vmon_fake = True
        mod.API_UNSPECIFIED, mod.API_MACOSX_CORE, mod.API_LINUX_ALSA, mod.API_UNIX_JACK = 0, 1, 2, 3
        mod.API_WINDOWS_MM, mod.API_RTMIDI_DUMMY = 4, 5
        mod.MidiIn = type('MidiIn', (_Rt,), {})
        mod.MidiOut = type('MidiOut', (_Rt,), {})
        mod.get_compiled_api = lambda: [2, 3]
        sys.modules['rtmidi'] = mod
    import mido.backends.rtmidi as backend
    return backend
