"""Seeded generators shared by the property workloads (DESIGN section 3,
"Common generators").  Everything is driven by a random.Random handed in by
the caller, so a case is reproducible from (seed, shard, index)."""
from .ref import midi1

INT_TIMES = [0, 1, -3, 10 ** 30, 127, 128]
FLOAT_TIMES = [0.5, 0.1, 2.0, -0.0, 1e-300, 1e300, 5e-324, 123456.789]
TIMES = INT_TIMES + FLOAT_TIMES
SYSEX_LENGTHS = [0, 1, 2, 3, 127, 128, 129, 1000, 16383, 16384, 70000]


def boundary_values(name):
    lo, hi = midi1.DOMAIN[name]
    mid = (lo + hi) // 2
    return sorted({lo, lo + 1, mid, hi - 1, hi, 0 if lo <= 0 <= hi else lo})


def boundary_attr_sets(t, rng=None, extra_random=0):
    """All combinations of boundary values of every attribute of type t
    (sysex: a few payloads)."""
    names = midi1.ATTRS[t]
    if t == 'sysex':
        for n in (0, 1, 2, 3, 8):
            yield {'data': tuple((7 * i + n) % 128 for i in range(n))}
        yield {'data': (0, 127, 0, 127)}
        return
    if not names:
        yield {}
        return
    pools = [boundary_values(n) for n in names]

    def rec(i, cur):
        if i == len(names):
            yield dict(cur)
            return
        for v in pools[i]:
            cur[names[i]] = v
            yield from rec(i + 1, cur)
    yield from rec(0, {})
    for _ in range(extra_random):
        yield random_attrs(t, rng)


def random_attrs(t, rng, maxdata=12):
    a = {}
    for n in midi1.ATTRS[t]:
        if n == 'data':
            k = rng.choice((0, 0, 1, 2, 3, 5, 8, maxdata))
            a[n] = tuple(rng.randrange(128) for _ in range(k))
        else:
            lo, hi = midi1.DOMAIN[n]
            r = rng.random()
            a[n] = lo if r < 0.1 else hi if r < 0.2 else rng.randint(lo, hi)
    return a


def random_type(rng, exclude=()):
    while True:
        t = rng.choice(midi1.TYPES)
        if t not in exclude:
            return t


def sysex_payload(n, style, rng):
    if style == 'zeros':
        return (0,) * n
    if style == 'max':
        return (127,) * n
    if style == 'ramp':
        return tuple(i % 128 for i in range(n))
    return tuple(rng.randrange(128) for _ in range(n))


def random_stream(rng, n, p_status=0.5):
    """Random byte stream biased towards status bytes."""
    out = []
    for _ in range(n):
        if rng.random() < p_status:
            r = rng.random()
            if r < 0.25:
                out.append(rng.choice((0xF0, 0xF7, 0xF0, 0xF7, 0xF8, 0xFE, 0xFF,
                                       0xF4, 0xF5, 0xF9, 0xFD, 0xF1, 0xF2, 0xF3,
                                       0xF6, 0xFA, 0xFB, 0xFC)))
            else:
                out.append(rng.randrange(0x80, 0x100))
        else:
            out.append(rng.randrange(0x80))
    return out


def chunkings(rng, n, k):
    """k random ways of cutting range(n) into consecutive chunks: lists of
    cut positions."""
    for _ in range(k):
        m = rng.choice((1, 1, 2, 3, 5, 8))
        cuts = sorted({rng.randrange(n + 1) for _ in range(min(m, n + 1))})
        yield cuts


def split_at(seq, cuts):
    out, prev = [], 0
    for c in list(cuts) + [len(seq)]:
        out.append(seq[prev:c])
        prev = c
    return out
