"""Seeded generators shared by the property workloads (DESIGN section 3,
"Common generators").  Everything is driven by a random.Random handed in by
the caller, so a case is reproducible from (seed, shard, index)."""
from .ref import midi1

INT_TIMES = [0, 1, -3, 10 ** 30, 127, 128]
FLOAT_TIMES = [0.5, 0.1, 2.0, -0.0, 1e-300, 1e300, 5e-324, 123456.789]
TIMES = INT_TIMES + FLOAT_TIMES
SYSEX_LENGTHS = [0, 1, 2, 3, 127, 128, 129, 1000, 16383, 16384, 70000]


def boundary_values(name):
    lo, hi = midi1.DOMAIN[name]
    mid = (lo + hi) // 2
    return sorted({lo, lo + 1, mid, hi - 1, hi, 0 if lo <= 0 <= hi else lo})


def boundary_attr_sets(t, rng=None, extra_random=0):
    """All combinations of boundary values of every attribute of type t
    (sysex: a few payloads)."""
    names = midi1.ATTRS[t]
    if t == 'sysex':
        for n in (0, 1, 2, 3, 8):
            yield {'data': tuple((7 * i + n) % 128 for i in range(n))}
        yield {'data': (0, 127, 0, 127)}
        return
    if not names:
        yield {}
        return
    pools = [boundary_values(n) for n in names]

    def rec(i, cur):
        if i == len(names):
            yield dict(cur)
            return
        for v in pools[i]:
            cur[names[i]] = v
            yield from rec(i + 1, cur)
    yield from rec(0, {})
    for _ in range(extra_random):
        yield random_attrs(t, rng)


def random_attrs(t, rng, maxdata=12):
    a = {}
    for n in midi1.ATTRS[t]:
        if n == 'data':
            k = rng.choice((0, 0, 1, 2, 3, 5, 8, maxdata))
            a[n] = tuple(rng.randrange(128) for _ in range(k))
        else:
            lo, hi = midi1.DOMAIN[n]
            r = rng.random()
            a[n] = lo if r < 0.1 else hi if r < 0.2 else rng.randint(lo, hi)
    return a


def random_type(rng, exclude=()):
    while True:
        t = rng.choice(midi1.TYPES)
        if t not in exclude:
            return t


def sysex_payload(n, style, rng):
    if style == 'zeros':
        return (0,) * n
    if style == 'max':
        return (127,) * n
    if style == 'ramp':
        return tuple(i % 128 for i in range(n))
    return tuple(rng.randrange(128) for _ in range(n))


def random_stream(rng, n, p_status=0.5):
    """Random byte stream biased towards status bytes."""
    out = []
    for _ in range(n):
        if rng.random() < p_status:
            r = rng.random()
            if r < 0.25:
                out.append(rng.choice((0xF0, 0xF7, 0xF0, 0xF7, 0xF8, 0xFE, 0xFF,
                                       0xF4, 0xF5, 0xF9, 0xFD, 0xF1, 0xF2, 0xF3,
                                       0xF6, 0xFA, 0xFB, 0xFC)))
            else:
                out.append(rng.randrange(0x80, 0x100))
        else:
            out.append(rng.randrange(0x80))
    return out


def chunkings(rng, n, k):
    """k random ways of cutting range(n) into consecutive chunks: lists of
    cut positions."""
    for _ in range(k):
        m = rng.choice((1, 1, 2, 3, 5, 8))
        cuts = sorted({rng.randrange(n + 1) for _ in range(min(m, n + 1))})
        yield cuts


def split_at(seq, cuts):
    out, prev = [], 0
    for c in list(cuts) + [len(seq)]:
        out.append(seq[prev:c])
        prev = c
    return out


def perturbations():
    """Operations elsewhere in mido - many of them failing - that a check can
    run BEFORE repeating a sample of its cases, so that state left behind by
    another call (a flag not restored on an error path, a memo, a shared
    parser) becomes visible.  Each entry is (name, thunk); exceptions are
    swallowed."""
    import io
    import os
    import tempfile

    import mido
    import mido.frozen
    import mido.ports

    def bad_load(data, **kw):
        return lambda: mido.MidiFile(file=io.BytesIO(data), **kw)

    good = io.BytesIO()
    mf = mido.MidiFile()
    mf.tracks.append(mido.MidiTrack([mido.Message('note_on', time=3), mido.MetaMessage('text', text='x'),
                                     mido.Message('sysex', data=(1, 2), time=1)]))
    mf.save(file=good)
    gb = good.getvalue()

    def bad_save(msg):
        def f():
            m = mido.MidiFile()
            m.tracks.append(mido.MidiTrack([mido.Message('note_on', time=1), mido.Message('sysex', data=(1, 2, 3)), msg]))
            m.save(file=io.BytesIO())
        return f

    def syx(text):
        def f():
            fd, path = tempfile.mkstemp(suffix='.syx', prefix='vmon-pert-')
            try:
                os.write(fd, text)
                os.close(fd)
                mido.read_syx_file(path)
            finally:
                os.remove(path)
        return f

    def partial_iter():
        it = iter(mido.MidiFile(file=io.BytesIO(gb)))
        next(it)

    def feed_bad():
        p = mido.Parser()
        p.feed([0x90, 1, 2, 300])

    def poke_helper_results():
        # a caller that edits what the public helper functions hand back (decode_variable_int() itself
        # clears the continuation bits of its argument in place)
        from mido.midifiles import meta as mm
        for n in (0, 1, 127, 128, 129, 300, 480, 960, 8192, 16383, 16384, 2 ** 21 - 1, 2 ** 21, 2 ** 28 - 1):
            lst = mm.encode_variable_int(n)
            mm.decode_variable_int(lst)
            lst.append(0x99)
            del lst[:1]
        for m in (mido.Message('sysex', data=(1, 2, 3)), mido.Message('sysex'), mido.Message('note_on'), mido.Message('clock'),
                  mido.Message('pitchwheel', pitch=-1), mido.MetaMessage('set_tempo'), mido.MetaMessage('text', text='x' * 200),
                  mido.MetaMessage('end_of_track'), mido.MetaMessage('time_signature'), mido.MetaMessage('key_signature')):
            for _ in range(2):
                b = m.bytes()
                if isinstance(b, list):
                    b.append(0x77)
                    del b[:2]
            d = m.dict()
            d.clear()
        for f in (mido.ports.reset_messages, mido.ports.panic_messages):
            for msg in f():
                msg.channel = 15
                msg.time = 99
        mm.meta_charset          # noqa: B018 (touch only)
        # every message type once more: the list bytes() returns is the caller's (buf = a.bytes(); buf += b.bytes())
        from .ref import midi1 as _m1
        for t in _m1.TYPES:
            msg = mido.Message(t)
            buf = msg.bytes()
            buf += mido.Message('note_on', note=60, velocity=64).bytes()
            del buf[:1]
            ba = msg.bin()
            ba += b'\x01\x02'
            hx = msg.hex()
            del hx

    out = [
        ('caller edits helper results', poke_helper_results),
        ('load empty file', bad_load(b'')),
        ('load truncated file', bad_load(gb[:len(gb) - 3])),
        ('load truncated file utf-16', bad_load(gb[:30], charset='utf-16')),
        ('load not a midi file', bad_load(b'RIFF' + gb)),
        ('load bad data byte', bad_load(gb.replace(b'\x90\x00\x40', b'\x90\x00\xc8'))),
        ('load good file', bad_load(gb)),
        ('load good file clip debug', bad_load(gb, clip=True)),
        ('save float time', bad_save(mido.Message('note_on', time=0).copy(skip_checks=True, time=0.5))),
        ('save realtime', bad_save(mido.Message('clock'))),
        ('save good', bad_save(mido.Message('note_off'))),
        ('parser garbage', lambda: mido.parse_all([0xF0, 1, 0x90, 0xF7, 0xF4, 5])),
        ('parser invalid item', feed_bad),
        ('from_bytes invalid', lambda: mido.Message.from_bytes([0x90, 200, 1])),
        ('from_bytes short', lambda: mido.Message.from_bytes([0xE0])),
        ('from_hex invalid', lambda: mido.Message.from_hex('ZZ')),
        ('from_str invalid', lambda: mido.Message.from_str('note_on note=999')),
        ('ctor invalid', lambda: mido.Message('note_on', note=-1)),
        ('skip_checks message', lambda: mido.Message('note_on', note=999, skip_checks=True).copy(skip_checks=True, note=1000)),
        ('meta invalid', lambda: mido.MetaMessage('set_tempo', tempo=-1)),
        ('meta from_bytes invalid', lambda: mido.MetaMessage.from_bytes([0xFF, 0x51, 0x03, 1])),
        ('syx invalid text', syx(b'F0 01 F7\nF0 02 F7\nF0 GG F7\n')),
        ('syx valid text', syx(b'F0 01 F7\n')),
        ('abandoned file iteration', partial_iter),
        ('freeze and hash', lambda: hash(mido.frozen.freeze_message(mido.Message('note_on')))),
    ]
    return out


def run_quietly(thunk):
    try:
        thunk()
    except Exception:
        pass


class jumping_clocks:
    """While active, every clock of the time module jumps forward by an hour on each reading
    (and sleep() returns at once): code whose *results* depend on how much wall-clock time passes
    between two calls shows it immediately.  Only for code that must not depend on time at all
    (codecs, parsers, merges) - never around sockets or real threads."""
    NAMES = ('time', 'monotonic', 'perf_counter', 'process_time')

    def __enter__(self):
        import time
        from . import clock
        self.time = time
        self.shim = clock.installed()
        if self.shim:
            # the wrappers installed before mido was imported (vmon.clock): also seen by `from time import monotonic`
            self.saved = {'sleep': time.sleep}
            self.was = dict(clock.state)
            clock.state.update(active=True, offset=0.0)
            time.sleep = lambda d=0: None
            return self
        self.saved = {n: getattr(time, n) for n in self.NAMES + ('sleep', 'time_ns', 'monotonic_ns', 'perf_counter_ns')}
        self.offset = 0.0

        def make(real, scale=1.0):
            def clock():
                self.offset += 3600.0
                return real() + self.offset * scale
            return clock
        for n in self.NAMES:
            setattr(time, n, make(self.saved[n]))
        for n in ('time_ns', 'monotonic_ns', 'perf_counter_ns'):
            real = self.saved[n]
            setattr(time, n, (lambda real: (lambda: real() + int(self._bump() * 1e9)))(real))
        time.sleep = lambda d=0: None
        return self

    def _bump(self):
        self.offset += 3600.0
        return self.offset

    def __exit__(self, *exc):
        for n, f in self.saved.items():
            setattr(self.time, n, f)
        if self.shim:
            from . import clock
            clock.state.update(self.was)
        return False


# ------------------------------------------------------------------ unusual but valid Python types
import numbers as _numbers


class I64(_numbers.Integral):
    """A numpy.int64-like scalar: a registered numbers.Integral that is NOT a subclass of int (so it has
    no to_bytes(), is no dict key of type int, fails isinstance(x, int)) but converts with int() and
    __index__ and computes like an int, returning its own type."""
    __slots__ = ('v',)

    def __init__(self, v):
        self.v = int(v)

    def __int__(self):
        return self.v
    __index__ = __trunc__ = __floor__ = __ceil__ = __int__

    def __round__(self, n=None):
        return I64(round(self.v, n)) if n is not None else self.v

    def __float__(self):
        return float(self.v)

    def __bool__(self):
        return bool(self.v)

    def __hash__(self):
        return hash(self.v)

    def __repr__(self):
        return f'I64({self.v})'

    def __str__(self):
        return str(self.v)

    def __format__(self, spec):
        return format(self.v, spec)

    def __eq__(self, o):
        return self.v == (o.v if isinstance(o, I64) else o)

    def __lt__(self, o):
        return self.v < (o.v if isinstance(o, I64) else o)

    def __le__(self, o):
        return self.v <= (o.v if isinstance(o, I64) else o)

    def __gt__(self, o):
        return self.v > (o.v if isinstance(o, I64) else o)

    def __ge__(self, o):
        return self.v >= (o.v if isinstance(o, I64) else o)

    def __neg__(self):
        return I64(-self.v)

    def __pos__(self):
        return self

    def __abs__(self):
        return I64(abs(self.v))

    def __invert__(self):
        return I64(~self.v)

    def __truediv__(self, o):
        return self.v / (o.v if isinstance(o, I64) else o)

    def __rtruediv__(self, o):
        return o / self.v

    def __pow__(self, o, m=None):
        return I64(pow(self.v, int(o), m))

    def __rpow__(self, o):
        return o ** self.v


def _binop(name):
    def f(self, o):
        if isinstance(o, I64):
            o = o.v
        if not isinstance(o, int):
            return NotImplemented
        return I64(getattr(int, name)(self.v, o))
    return f


for _n in ('add', 'sub', 'mul', 'floordiv', 'mod', 'lshift', 'rshift', 'and', 'xor', 'or'):
    setattr(I64, f'__{_n}__', _binop(f'__{_n}__'))
    setattr(I64, f'__r{_n}__', _binop(f'__r{_n}__'))
I64.__abstractmethods__ = frozenset()


def exotic_ints(v):
    """The valid integer v in other clothes: bool where it fits, an int subclass, an IntEnum member, I64."""
    import enum

    class MyInt(int):
        pass
    out = [MyInt(v), I64(v)]
    if v in (0, 1):
        out.append(bool(v))
    try:
        out.append(enum.IntEnum('E', {'X': v}).X)
    except Exception:
        pass
    return out



def protocol_sequences(rng, count):
    """Message lists that mean something together - the eight quarter frames of a time code (in order, backwards, any
    values: real devices send nonsense too), (N)RPN and bank-select controller groups, 14 bit controller pairs, song
    position + continue, all-notes-off sweeps, the same status over and over.  A parser has no business caring."""
    out = []
    for i in range(count):
        kind = i % 8
        if kind == 0:
            vals = [rng.randrange(16) for _ in range(8)]
            if i % 16 == 0:
                vals = [15] * 8
            order = list(range(8)) if i % 3 else list(reversed(range(8)))
            seq = [('quarter_frame', {'frame_type': ft, 'frame_value': vals[ft]}) for ft in order]
            if i % 5 == 0:
                seq = seq + seq[:rng.randrange(1, 8)] + [('quarter_frame', {'frame_type': 7, 'frame_value': rng.randrange(8, 16)})]
        elif kind == 1:
            ch = rng.randrange(16)
            a, b = rng.choice(((101, 100), (99, 98)))
            seq = [('control_change', {'channel': ch, 'control': a, 'value': rng.choice((0, 127, rng.randrange(128)))}),
                   ('control_change', {'channel': ch, 'control': b, 'value': rng.choice((0, 127, rng.randrange(128)))}),
                   ('control_change', {'channel': ch, 'control': 6, 'value': rng.randrange(128)}),
                   ('control_change', {'channel': ch, 'control': 38, 'value': rng.randrange(128)}),
                   ('control_change', {'channel': ch, 'control': a, 'value': 127}),
                   ('control_change', {'channel': ch, 'control': b, 'value': 127})]
        elif kind == 2:
            ch = rng.randrange(16)
            seq = [('control_change', {'channel': ch, 'control': 0, 'value': rng.randrange(128)}),
                   ('control_change', {'channel': ch, 'control': 32, 'value': rng.randrange(128)}),
                   ('program_change', {'channel': ch, 'program': rng.randrange(128)})] * rng.randrange(1, 4)
        elif kind == 3:
            ch, c = rng.randrange(16), rng.randrange(32)
            seq = [('control_change', {'channel': ch, 'control': c + (32 if j % 2 else 0), 'value': rng.randrange(128)})
                   for j in range(rng.randrange(2, 12))]
        elif kind == 4:
            seq = [('songpos', {'pos': rng.choice((0, 16383, rng.randrange(16384)))}), ('continue', {}), ('clock', {}), ('clock', {}),
                   ('stop', {}), ('song_select', {'song': rng.randrange(128)}), ('start', {})]
        elif kind == 5:
            seq = [('control_change', {'channel': ch, 'control': c, 'value': 0}) for ch in range(16) for c in (120, 121, 123)]
        elif kind == 6:
            t = rng.choice(('active_sensing', 'clock', 'tune_request', 'reset'))
            seq = [(t, {})] * rng.randrange(2, 40)
        else:
            ch, note = rng.randrange(16), rng.randrange(128)
            seq = [('note_on', {'channel': ch, 'note': note, 'velocity': v}) for v in (64, 0, 64, 0, 127, 0)] + \
                  [('note_off', {'channel': ch, 'note': note, 'velocity': 0})] * 2
        out.append(seq)
    return out
