"""Generators of MIDI file contents as reference event lists (vmon.ref.smf
event tuples) and their conversion to mido objects (DESIGN section 3, C07/C08).
"""
import mido

from .ref import meta as rmeta
from .ref import midi1, smf

DELTAS = [0, 0, 0, 0, 1, 1, 5, 127, 128, 300, 16383, 16384, 2097151, 2097152, 268435455]
PAYLOAD_LENS = [0, 1, 2, 3, 5, 127, 128]
BIG_LENS = [16383, 16384]
UNKNOWN_META_TYPES = [b for b in range(128) if b not in rmeta.BY_BYTE]
KEYS = sorted(rmeta.KEYS)


def rand_delta(rng, small=False):
    if small:
        return rng.choice((0, 0, 1, 2, 10, 127, 128, 480))
    return rng.choice(DELTAS)


def rand_len(rng, big_ok=True):
    if big_ok and rng.random() < 0.01:
        return rng.choice(BIG_LENS)
    return rng.choice(PAYLOAD_LENS)


def rand_channel_event(rng, status=None, small=False):
    if status is None:
        status = rng.randrange(0x80, 0xF0)
    k = midi1.ndata(status)
    data = [rng.choice((0, 127, rng.randrange(128))) for _ in range(k)]
    return ('ch', rand_delta(rng, small), status, data)


def rand_sys_event(rng, small=False):
    st = rng.choice((0xF1, 0xF2, 0xF3, 0xF6))
    return ('sys', rand_delta(rng, small), st,
            [rng.randrange(128) for _ in range(smf.SYS_LEN[st])])


def rand_sysex_event(rng, small=False):
    n = rand_len(rng)
    return ('sysex', rand_delta(rng, small), [rng.randrange(128) for _ in range(n)])


def rand_meta_attrs(rng, t):
    if t in rmeta.TEXT_TYPES:
        n = rand_len(rng)
        text = bytes(rng.randrange(256) for _ in range(n)).decode('latin1')
        return {rmeta.SPECS[t][1][0]: text}
    if t == 'sequence_number':
        return {'number': rng.choice((0, 1, 255, 256, 65535, rng.randrange(65536)))}
    if t == 'channel_prefix':
        return {'channel': rng.choice((0, 15, 16, 255, rng.randrange(256)))}
    if t == 'midi_port':
        return {'port': rng.choice((0, 127, 128, 255, rng.randrange(256)))}
    if t == 'end_of_track':
        return {}
    if t == 'set_tempo':
        return {'tempo': rng.choice((0, 1, 255, 256, 65535, 65536, 500000, 16777215,
                                     rng.randrange(16777216)))}
    if t == 'smpte_offset':
        return {'frame_rate': rng.choice((24, 25, 29.97, 30)), 'hours': rng.choice((0, 23, rng.randrange(24))),
                'minutes': rng.choice((0, 59)), 'seconds': rng.choice((0, 59, rng.randrange(60))),
                'frames': rng.choice((0, 255, rng.randrange(256))), 'sub_frames': rng.choice((0, 99))}
    if t == 'time_signature':
        return {'numerator': rng.choice((0, 4, 255)), 'denominator': 2 ** rng.choice((0, 1, 2, 3, 7, 31, 255)),
                'clocks_per_click': rng.choice((0, 24, 255)),
                'notated_32nd_notes_per_beat': rng.choice((0, 8, 255))}
    if t == 'key_signature':
        return {'key': rng.choice(KEYS)}
    if t == 'sequencer_specific':
        return {'data': tuple(rng.randrange(256) for _ in range(rand_len(rng)))}
    raise KeyError(t)


def rand_meta_event(rng, small=False, allow_eot=False):
    r = rng.random()
    if r < 0.2:
        tb = rng.choice(UNKNOWN_META_TYPES)
        return ('meta', rand_delta(rng, small), tb,
                [rng.randrange(256) for _ in range(rand_len(rng))])
    names = [n for n in rmeta.SPECS if allow_eot or n != 'end_of_track']
    t = rng.choice(names)
    a = rand_meta_attrs(rng, t)
    return ('meta', rand_delta(rng, small), rmeta.TYPE_BYTE[t], rmeta.payload(t, a))


def rand_track_events(rng, nmax=60, eot='end', small=False):
    """A list of events.  eot: 'end' (exactly one, last), 'absent', 'repeated',
    'mid' (also inside the track, with non-zero deltas)."""
    evs = []
    n = rng.randrange(0, nmax + 1)
    while len(evs) < n:
        r = rng.random()
        if r < 0.35:
            # a run of equal-status channel events (running status)
            st = rng.randrange(0x80, 0xF0)
            for _ in range(rng.randrange(2, 7)):
                evs.append(rand_channel_event(rng, st, small))
                # sometimes break the run with something that must cancel running status
                if rng.random() < 0.3:
                    br = rng.random()
                    if br < 0.3:
                        evs.append(rand_meta_event(rng, small))
                    elif br < 0.55:
                        evs.append(rand_sysex_event(rng, small))
                    elif br < 0.75:
                        evs.append(rand_sys_event(rng, small))
                    else:
                        evs.append(rand_channel_event(rng, st ^ 1, small))
        elif r < 0.6:
            evs.append(rand_channel_event(rng, None, small))
        elif r < 0.7:
            evs.append(rand_sys_event(rng, small))
        elif r < 0.8:
            evs.append(rand_sysex_event(rng, small))
        else:
            evs.append(rand_meta_event(rng, small))
    if eot in ('mid', 'repeated') and evs:
        for _ in range(rng.randrange(1, 3)):
            evs.insert(rng.randrange(len(evs) + 1), ('meta', rng.choice((0, 3, 200)), 0x2F, []))
    if eot in ('end', 'mid'):
        evs.append(('meta', rng.choice((0, 0, 1, 128, 1000)), 0x2F, []))
    elif eot == 'repeated':
        evs.append(('meta', 5, 0x2F, []))
        evs.append(('meta', 7, 0x2F, []))
    return evs


def rand_file_events(rng, eot_modes=('end',), small=False, nmax=60):
    fmt = rng.choice((0, 1, 1, 2))
    ntr = 1 if fmt == 0 else rng.choice((0, 1, 1, 2, 3, 5))
    division = rng.choice((1, 2, 96, 480, 32767, rng.randrange(1, 32768)))
    tracks = [rand_track_events(rng, nmax, rng.choice(eot_modes), small) for _ in range(ntr)]
    return fmt, division, tracks


def msg_of_event(ev, charset='latin1'):
    kind, d = ev[0], ev[1]
    if kind in ('ch', 'sys'):
        t, a = midi1.decode([ev[2]] + list(ev[3]))
        return mido.Message(t, time=d, **a)
    if kind == 'sysex':
        return mido.Message('sysex', data=tuple(ev[2]), time=d)
    t, a = rmeta.decode_payload(ev[2], ev[3], charset)
    if t == 'unknown_meta':
        return mido.UnknownMetaMessage(ev[2], tuple(ev[3]), time=d)
    return mido.MetaMessage(t, time=d, **a)


ASSEMBLIES = ('ctor', 'append', 'extend', 'iadd', 'add', 'mul', 'slice', 'copy', 'insert', 'add_track', 'tracks_kw', 'setitem', 'attrs_after')


def assemble_track(msgs, how, rng):
    """The same messages, put into a MidiTrack the way a program might: every list operation MidiTrack offers."""
    T = mido.MidiTrack
    k = rng.randrange(len(msgs) + 1)
    if how == 'append':
        t = T()
        for m in msgs:
            t.append(m)
    elif how == 'extend':
        t = T()
        t.extend(msgs[:k])
        t.extend(iter(msgs[k:]))
    elif how == 'iadd':
        t = T(msgs[:k])
        t += msgs[k:]
    elif how == 'add':
        t = T(msgs[:k]) + T(msgs[k:])
    elif how == 'mul':
        t = T(msgs) * 1
    elif how == 'slice':
        full = T([mido.Message('note_on')] + msgs + [mido.Message('note_off')])
        t = full[1:-1]
    elif how == 'copy':
        src = T(msgs)
        t = src.copy()
        src.clear()
    elif how == 'insert':
        t = T()
        for m in reversed(msgs):
            t.insert(0, m)
    elif how == 'setitem':
        t = T(mido.Message('clock') for _ in msgs)
        for i, m in enumerate(msgs):
            t[i] = m
    else:
        t = T(msgs)
    return t


def midifile_of(fmt, division, tracks, charset='latin1', rng=None, how=None):
    import random as _random
    if how is not None and rng is None:
        rng = _random.Random(how)
    how = how or (rng.choice(ASSEMBLIES) if rng is not None else 'ctor')
    built = []
    for evs in tracks:
        msgs = [msg_of_event(e, 'latin1' if charset not in ('latin1',) and any(
            e[0] == 'meta' for e in evs) and not _decodable(evs, charset) else charset) for e in evs]
        built.append(msgs)
    if how == 'tracks_kw':
        return mido.MidiFile(type=fmt, ticks_per_beat=division, charset=charset,
                             tracks=[mido.MidiTrack(m) for m in built])
    if how == 'attrs_after':
        # an empty file first, its header fields assigned afterwards (the attributes are documented as plain attributes)
        mid = mido.MidiFile()
        mid.type = fmt
        mid.ticks_per_beat = division
        mid.charset = charset
    else:
        mid = mido.MidiFile(type=fmt, ticks_per_beat=division, charset=charset)
    for msgs in built:
        if how == 'add_track':
            # add_track() puts a track_name event in front when a name is given; without a name it is an empty track
            t = mid.add_track()
            t.extend(msgs)
        elif how == 'ctor':
            mid.tracks.append(mido.MidiTrack(iter(msgs)))
        else:
            mid.tracks.append(assemble_track(msgs, how, rng))
    return mid


def _decodable(evs, charset):
    from .ref import meta as rmeta
    try:
        for e in evs:
            if e[0] == 'meta' and e[2] in rmeta.BY_BYTE and rmeta.BY_BYTE[e[2]] in rmeta.TEXT_TYPES:
                bytes(e[3]).decode(charset)
        return True
    except UnicodeError:
        return False
