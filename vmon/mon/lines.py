"""sys.monitoring LINE-event utilities (DESIGN 2.5): code-object discovery,
raise-at-the-k-th-line failpoints, line budgets (logical-step watchdog) and
line coverage."""
import _thread
import sys
import types

from ..core import HarnessAbort

mon = sys.monitoring
LINE = mon.events.LINE
TOOL_FAILPOINT = 3
TOOL_SCHED = 4
TOOL_COVER = 1


class InjectedFault(Exception):
    """The exception a failpoint raises inside monitored code."""


class InjectedBaseFault(BaseException):
    """Like InjectedFault but not an Exception (KeyboardInterrupt-like), so a
    clean-up written as `except Exception:` does not see it."""


def _walk_code(code, out):
    if code in out:
        return
    out.add(code)
    for c in code.co_consts:
        if isinstance(c, types.CodeType):
            _walk_code(c, out)


def _func_codes(f, out):
    seen = 0
    while f is not None and seen < 5:
        if isinstance(f, (classmethod, staticmethod)):
            f = f.__func__
            continue
        if isinstance(f, property):
            for g in (f.fget, f.fset, f.fdel):
                if g is not None:
                    _func_codes(g, out)
            return
        if isinstance(f, types.FunctionType):
            _walk_code(f.__code__, out)
            f = getattr(f, '__wrapped__', None)
            seen += 1
            continue
        return


def code_objects(modules, extra_classes=()):
    """All code objects of functions and methods defined in `modules`."""
    out = set()
    for m in modules:
        name = m.__name__
        for v in list(vars(m).values()):
            if isinstance(v, types.FunctionType):
                if v.__module__ == name or getattr(getattr(v, '__wrapped__', None), '__module__', None) == name:
                    _func_codes(v, out)
            elif isinstance(v, type) and v.__module__ == name:
                for a in list(vars(v).values()):
                    _func_codes(a, out)
    for cls in extra_classes:
        for a in list(vars(cls).values()):
            _func_codes(a, out)
    return out


def codes_of(*funcs):
    out = set()
    for f in funcs:
        _func_codes(f, out)
    return out


class LineHook:
    """Enable LINE events on a set of code objects and call `callback(code,
    line)` for each.  One instance per tool id at a time."""

    def __init__(self, tool_id, name, codes):
        self.tool_id = tool_id
        self.name = name
        self.codes = list(codes)
        self.active = False

    def start(self, callback):
        mon.use_tool_id(self.tool_id, self.name)
        mon.register_callback(self.tool_id, LINE, callback)
        for c in self.codes:
            mon.set_local_events(self.tool_id, c, LINE)
        self.active = True

    def stop(self):
        if not self.active:
            return
        for c in self.codes:
            mon.set_local_events(self.tool_id, c, 0)
        mon.register_callback(self.tool_id, LINE, None)
        mon.free_tool_id(self.tool_id)
        self.active = False

    def __enter__(self):
        return self

    def __exit__(self, *exc):
        self.stop()
        return False


class Failpoints:
    """Count LINE events while armed; raise InjectedFault at the k-th one.

        fp = Failpoints(codes, exclude=codes_of(meta_charset))
        with fp:
            n = fp.count(lambda: call())          # dry run
            for k in range(1, n + 1):
                fp.inject(k, lambda: call())      # raises inside at event k
    """

    def __init__(self, codes, exclude=()):
        self.hook = LineHook(TOOL_FAILPOINT, 'vmon-failpoint', codes)
        self.exclude = set(exclude)
        self.armed = False
        self.n = 0
        self.k = None
        self.fired_at = None
        self.sites = {}
        self.exc_class = InjectedFault

    def _cb(self, code, line):
        # (only the thread that armed the failpoint counts and is hit: other threads may be using the library too)
        if not self.armed or code in self.exclude or _thread.get_ident() != self.owner:
            return None
        self.n += 1
        if self.k is not None and self.n == self.k:
            self.fired_at = (code.co_filename.rsplit('/', 1)[-1], code.co_name, line)
            self.k = None
            raise self.exc_class(f'injected at {self.fired_at}')
        return None

    def __enter__(self):
        self.hook.start(self._cb)
        return self

    def __exit__(self, *exc):
        self.hook.stop()
        return False

    def count(self, thunk):
        self.owner = _thread.get_ident()
        self.n, self.k, self.armed = 0, None, True
        try:
            thunk()
        finally:
            self.armed = False
        return self.n

    def inject(self, k, thunk, base=False):
        """Run thunk with a fault at event k.  Returns (outcome, value) where
        outcome is 'injected' (InjectedFault propagated), 'returned', or
        'raised' (another exception)."""
        self.owner = _thread.get_ident()
        self.n, self.k, self.armed, self.fired_at = 0, k, True, None
        self.exc_class = InjectedBaseFault if base else InjectedFault
        try:
            v = thunk()
            return ('returned', v)
        except (InjectedFault, InjectedBaseFault) as exc:
            return ('injected', exc)
        except Exception as exc:
            return ('raised', exc)
        finally:
            self.armed = False
            self.k = None


class LineBudget:
    """Abort a call that executes more than `budget` lines of the monitored
    code (logical-step watchdog for calls that must terminate)."""

    def __init__(self, codes, tool_id=TOOL_FAILPOINT):
        self.hook = LineHook(tool_id, 'vmon-budget', codes)
        self.n = 0
        self.budget = None

    def _cb(self, code, line):
        if self.budget is None or _thread.get_ident() != self.owner:
            return None
        self.n += 1
        if self.n > self.budget:
            self.budget = None
            raise HarnessAbort(f'line budget exceeded in {code.co_name}:{line}')
        return None

    def __enter__(self):
        self.hook.start(self._cb)
        return self

    def __exit__(self, *exc):
        self.hook.stop()
        return False

    def run(self, budget, thunk):
        """Returns (lines_used, 'ok', value) | (lines, 'budget', None) | (lines, 'exc', exc)."""
        self.owner = _thread.get_ident()
        self.n, self.budget = 0, budget
        try:
            v = thunk()
            return self.n, 'ok', v
        except HarnessAbort:
            return self.n, 'budget', None
        except Exception as exc:
            return self.n, 'exc', exc
        finally:
            self.budget = None
