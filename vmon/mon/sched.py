"""Deterministic thread scheduler on sys.monitoring LINE events (DESIGN 2.4).

Real threads run the real mido code, but exactly one of them holds the baton.
Every executed line of the monitored code objects, every acquire/release of a
wrapped lock and every call of the (patched) ports.sleep() is a yield point at
which the schedule may hand the baton to another thread.  Every interleaving
explored is one CPython can exhibit (it may switch threads between any two
bytecodes; line boundaries are a subset).

Strategies
  Preempt(points)   run non-preemptively, pre-empt at the given (step, thread)
                    pairs; records the alternatives at later steps so that all
                    schedules with <= k preemptions can be enumerated.
  RandomWalk(rng,p) switch to a random runnable thread with probability p.
  PCT(rng, d, n)    random priorities, d-1 priority change points in n steps.
"""
import _thread
import sys
import threading

from . import lines
from ..core import HarnessAbort

mon = sys.monitoring


class SchedAbort(BaseException):
    """Unwinds a worker thread when the run is aborted (deadlock, step limit)."""


class Preempt:
    def __init__(self, points=()):
        self.points = dict(points)            # step -> tid
        self.last = max(self.points) if self.points else -1
        self.alts = []                        # (step, (other runnable tids)) after the last forced point

    def pick(self, sched, cur, runnable, candidate):
        step = sched.step
        want = self.points.get(step)
        if want is not None and want in runnable and want != cur:
            return want
        if step > self.last and candidate and len(runnable) > 1:
            self.alts.append((step, tuple(t for t in runnable if t != cur)))
        return cur

    def pick_free(self, sched, cur, runnable):
        # non-preemptive switch (current blocked / sleeping / finished): round robin
        for t in sorted(runnable):
            if t > cur:
                return t
        return min(runnable)


class RandomWalk:
    def __init__(self, rng, p=0.1):
        self.rng, self.p = rng, p

    def pick(self, sched, cur, runnable, candidate):
        if len(runnable) > 1 and self.rng.random() < self.p:
            return self.rng.choice([t for t in runnable if t != cur])
        return cur

    def pick_free(self, sched, cur, runnable):
        return self.rng.choice(sorted(runnable))


class PCT:
    def __init__(self, rng, nthreads, depth=3, nsteps=400):
        self.rng = rng
        pr = list(range(depth, depth + nthreads))
        rng.shuffle(pr)
        self.prio = dict(enumerate(pr))
        self.changes = {rng.randrange(1, max(2, nsteps)): i for i in range(depth - 1)}
        self.floor = 0

    def _best(self, runnable):
        return max(runnable, key=lambda t: (self.prio.get(t, 0), -t))

    def pick(self, sched, cur, runnable, candidate):
        ch = self.changes.get(sched.step)
        if ch is not None:
            self.prio[cur] = ch           # below every initial priority
        return self._best(runnable)

    def on_sleep(self, tid):
        # a sleeping (spinning) thread must not starve the others
        self.floor -= 1
        self.prio[tid] = self.floor

    def pick_free(self, sched, cur, runnable):
        return self._best(runnable)


CURRENT = None
_HOOK = None


def _dispatch(code, line):
    s = CURRENT
    if s is not None:
        return s._line_cb(code, line)
    return None


INSTR_FILES = ('_parser_queue.py',)


def _dispatch_instr(code, offset):
    s = CURRENT
    if s is not None and getattr(s, 'instr_files', None):
        return s._instr_cb(code, offset)
    return None


def install(codes):
    """Enable LINE events on the monitored code objects once per process (and INSTRUCTION events on
    the few files for which pre-emption inside a source line is explored)."""
    global _HOOK
    if _HOOK is None:
        _HOOK = lines.LineHook(lines.TOOL_SCHED, 'vmon-sched', codes)
        _HOOK.start(_dispatch)
        mon.register_callback(lines.TOOL_SCHED, mon.events.INSTRUCTION, _dispatch_instr)
        for c in codes:
            if c.co_filename.endswith(INSTR_FILES):
                mon.set_local_events(lines.TOOL_SCHED, c, lines.LINE | mon.events.INSTRUCTION)


def uninstall():
    global _HOOK
    if _HOOK is not None:
        _HOOK.stop()
        _HOOK = None


class Scheduler:
    def __init__(self, codes, strategy, max_steps=20000, candidate_files=None, active_files=None, instr_files=None):
        self.codes = codes
        self.strategy = strategy
        self.max_steps = max_steps
        self.candidate_files = candidate_files
        self.active_files = active_files      # None = every instrumented file yields
        self._active_cache = {}
        self.instr_files = instr_files        # files in which every bytecode instruction is a yield point
        self.step = 0
        self.cur = None
        self.sems = {}
        self.state = {}               # tid -> 'run' | 'blocked' | 'done'
        self.ident = {}               # thread ident -> tid
        self.waiting_for = {}         # tid -> SchedLock
        self.trace = []               # [tid, nsteps] run-length encoded
        self.switch_sites = set()
        self.contention = 0
        self.sleeps = 0
        self.aborted = None
        self.errors = []
        self.done = _thread.allocate_lock()
        self.done.acquire()
        self.hook = None
        self.on_block = None          # called as on_block(waiting tid, owner tid, lock name) when a lock is contended
        self._cand_cache = {}

    # ------------------------------------------------------------ threads
    def _tid(self):
        return self.ident.get(_thread.get_ident())

    def _log(self, tid):
        if self.trace and self.trace[-1][0] == tid:
            self.trace[-1][1] += 1
        else:
            self.trace.append([tid, 1])

    def _handoff(self, cur, nxt, site=None):
        """Give the baton from cur to nxt and wait until it comes back."""
        if nxt == cur:
            return
        if site is not None:
            self.switch_sites.add((site, cur, nxt))
        self.cur = nxt
        self.sems[nxt].release()
        self.sems[cur].acquire()
        if self.aborted:
            raise SchedAbort(self.aborted)

    def _runnable(self):
        return [t for t, s in self.state.items() if s == 'run']

    def _abort(self, why):
        if not self.aborted:
            self.aborted = why
        for t, s in self.state.items():
            if s != 'done' and t != self.cur:
                self.state[t] = 'run'
                self.sems[t].release()

    def _is_candidate(self, code):
        if self.candidate_files is None:
            return True
        c = self._cand_cache.get(code)
        if c is None:
            c = self._cand_cache[code] = code.co_filename.endswith(self.candidate_files)
        return c

    def yield_point(self, tid, code=None, line=None, candidate=True):
        if self.aborted:
            raise SchedAbort(self.aborted)
        self.step += 1
        self._log(tid)
        if self.step > self.max_steps:
            self._abort('step limit')
            raise SchedAbort('step limit')
        runnable = self._runnable()
        nxt = self.strategy.pick(self, tid, runnable, candidate)
        if nxt != tid:
            site = (code.co_filename.rsplit('/', 1)[-1], line) if code is not None else ('lock', 0)
            self._handoff(tid, nxt, site)

    def _line_cb(self, code, line):
        tid = self.ident.get(_thread.get_ident())
        if tid is None:
            return None
        if self.aborted:
            raise SchedAbort(self.aborted)
        if self.cur != tid:
            return None
        if self.active_files is not None:
            a = self._active_cache.get(code)
            if a is None:
                a = self._active_cache[code] = code.co_filename.endswith(self.active_files)
            if not a:
                return None
        self.yield_point(tid, code, line, self._is_candidate(code))
        return None

    def _instr_cb(self, code, offset):
        tid = self.ident.get(_thread.get_ident())
        if tid is None:
            return None
        if self.aborted:
            raise SchedAbort(self.aborted)
        if self.cur != tid or not code.co_filename.endswith(self.instr_files):
            return None
        self.yield_point(tid, code, -offset, True)
        return None

    def free_switch(self, tid):
        """The current thread cannot or does not want to continue (blocked,
        sleeping): pick another one without counting a preemption."""
        runnable = self._runnable()
        if not runnable:
            self._abort('deadlock: every thread is blocked')
            raise SchedAbort('deadlock')
        nxt = self.strategy.pick_free(self, tid, runnable)
        if nxt != tid:
            self._handoff(tid, nxt)

    def sleep(self):
        tid = self._tid()
        if tid is None:
            return
        self.sleeps += 1
        self.step += 1
        self._log(tid)
        if self.step > self.max_steps:
            self._abort('step limit')
            raise SchedAbort('step limit')
        others = [t for t in self._runnable() if t != tid]
        if others:
            if hasattr(self.strategy, 'on_sleep'):
                self.strategy.on_sleep(tid)
            self._handoff(tid, self.strategy.pick_free(self, tid, others))

    # ------------------------------------------------------------- running
    def run(self, bodies, wall_timeout=60.0):
        """bodies: list of zero-argument callables, one per thread."""
        n = len(bodies)
        self.sems = {i: _thread.allocate_lock() for i in range(n)}
        for s in self.sems.values():
            s.acquire()
        self.state = {i: 'run' for i in range(n)}
        threads = []
        fin = threading.Lock()
        finished = []

        def worker(i):
            self.ident[_thread.get_ident()] = i
            self.sems[i].acquire()              # wait for the baton
            try:
                if not self.aborted:
                    bodies[i]()
            except SchedAbort:
                pass
            except HarnessAbort as exc:
                self.errors.append((i, 'HarnessAbort', repr(exc)))
            except BaseException as exc:      # a program must catch its own exceptions
                self.errors.append((i, type(exc).__name__, repr(exc)))
            finally:
                with fin:
                    self.state[i] = 'done'
                    left = [t for t, s in self.state.items() if s != 'done']
                    if not left:
                        if not finished:
                            finished.append(1)
                            self.done.release()
                    elif not self.aborted:
                        runnable = self._runnable()
                        if runnable:
                            nxt = self.strategy.pick_free(self, i, runnable)
                            self.cur = nxt
                            self.sems[nxt].release()
                        else:
                            # everybody else is blocked on a lock: deadlock
                            self._abort('deadlock: every remaining thread is blocked')

        global CURRENT
        CURRENT = self
        install(self.codes)
        # no cyclic garbage collection while worker threads run: a finaliser of an object left over from an
        # earlier schedule (a port's __del__ calls close()) would execute monitored lines and touch that
        # schedule's locks in the middle of this one - at a point that depends on allocation counts
        import gc
        gc_was_on = gc.isenabled()
        gc.disable()
        try:
            for i in range(n):
                t = threading.Thread(target=worker, args=(i,), daemon=True)
                threads.append(t)
                t.start()
            self.cur = 0
            self.sems[0].release()
            # the watchdog measures progress, not speed: as long as the step counter moves, the schedule is running (on a
            # loaded machine slowly) and is bounded by max_steps; only a schedule that stands still for wall_timeout is stuck
            ok = False
            last_step = -1
            for _ in range(40):
                ok = self.done.acquire(timeout=wall_timeout)
                if ok or self.step == last_step:
                    break
                last_step = self.step
            if not ok:
                self._abort('wall clock watchdog')
                self.errors.append((-1, 'watchdog', 'run did not finish'))
            for t in threads:
                t.join(timeout=5.0 if ok else 0.2)
        finally:
            CURRENT = None
            self.on_block = None          # (a hook usually closes over the program: do not keep a cycle alive)
            if gc_was_on:
                gc.enable()
        return self

    def trace_key(self):
        return tuple((t, k) for t, k in self.trace)


class SchedLock:
    """Wraps the lock a port created for itself.  If the inner lock is a real
    (R)Lock the wrapper models a reentrant lock inside the scheduler; if it is
    mido's DummyLock the wrapper is transparent.  A port that stops taking its
    lock simply never calls the wrapper."""

    def __init__(self, sched, inner, name='lock'):
        self.sched = sched
        self.inner = inner
        self.real = hasattr(inner, 'acquire')
        self.owner = None
        self.count = 0
        self.name = name
        self.acquisitions = 0

    def acquire(self, blocking=True, timeout=-1):
        s = self.sched
        tid = s._tid()
        if tid is None or not self.real:
            return True
        s.yield_point(tid, None, None, True)
        if (not blocking or (timeout is not None and timeout >= 0)) and self.owner is not None and self.owner != tid:
            # a try-acquire fails; so may a timed acquire: the holder can be arbitrarily slow, and the
            # scheduler explores exactly that case (virtual time - no wall-clock waiting)
            s.contention += 1
            if s.on_block is not None:
                s.on_block(tid, self.owner, self.name)
            return False
        while self.owner is not None and self.owner != tid:
            s.contention += 1
            if s.on_block is not None:
                s.on_block(tid, self.owner, self.name)
            s.state[tid] = 'blocked'
            s.waiting_for[tid] = self
            s.free_switch(tid)
        self.owner = tid
        self.count += 1
        self.acquisitions += 1
        return True

    def release(self):
        s = self.sched
        tid = s._tid()
        if tid is None or not self.real:
            return
        self.count -= 1
        if self.count == 0:
            self.owner = None
            for t, lk in list(s.waiting_for.items()):
                if lk is self:
                    del s.waiting_for[t]
                    s.state[t] = 'run'
        if not s.aborted:
            s.yield_point(tid, None, None, True)

    def __enter__(self):
        self.acquire()
        return self

    def __exit__(self, *exc):
        self.release()
        return False


def enumerate_preemptions(run_once, k, limit=None):
    """Run all schedules with at most k preemptions.  run_once(points) must
    execute one schedule under Preempt(points) and return the strategy object
    (whose .alts were filled in).  Yields the number of schedules run."""
    stack = [()]
    n = 0
    while stack:
        pts = stack.pop()
        strat = run_once(pts)
        n += 1
        if limit is not None and n >= limit:
            return n
        if len(pts) < k and strat is not None:
            for step, others in strat.alts:
                for t in others:
                    stack.append(pts + ((step, t),))
    return n
