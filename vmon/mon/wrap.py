"""Ride-along monitors (DESIGN 2.2): wrappers installed on internal choke
points so that every workload also exercises the codec oracle."""
import io
import time

from ..ref import midi1


class CodecMonitor:
    """Checks every encode_message()/decode_message() call made through
    mido.messages.messages (the names Message.bytes()/from_bytes() use)
    against the reference codec."""

    def __init__(self, ctx):
        self.ctx = ctx
        self.n_enc = 0
        self.n_dec = 0

    def __enter__(self):
        import mido.messages.messages as mm
        self.mm = mm
        self.orig_enc = mm.encode_message
        self.orig_dec = mm.decode_message
        mon = self

        def encode_message(msg):
            out = mon.orig_enc(msg)
            if midi1.valid_vars(msg) is None:
                mon.n_enc += 1
                a = {k: v for k, v in msg.items() if k not in ('type', 'time')}
                ref = midi1.encode(msg['type'], a)
                mon.ctx.check(
                    'ridealong enc==ref', list(out) == ref, msg['type'],
                    lambda: {'kind': 'ridealong', 'dir': 'enc',
                             'type': msg['type'], 'attrs': a},
                    lambda: {'got': list(out)[:40], 'ref': ref[:40]})
            return out

        def decode_message(msg_bytes, time=0, check=True):
            seq = list(msg_bytes)
            try:
                out = mon.orig_dec(msg_bytes, time=time, check=check)
            except ValueError:
                if all(type(x) is int for x in seq):
                    mon.n_dec += 1
                    mon.ctx.check(
                        'ridealong dec==ref', not midi1.accept(seq), 'reject',
                        lambda: {'kind': 'ridealong', 'dir': 'dec', 'bytes': seq},
                        'decode_message rejected a well-formed message')
                raise
            if check and all(type(x) is int for x in seq):
                mon.n_dec += 1
                try:
                    t, a = midi1.decode(seq)
                    got = {k: v for k, v in out.items() if k not in ('type', 'time')}
                    ok = out.get('type') == t and got == a
                except midi1.Reject:
                    ok, t, a = False, None, None
                mon.ctx.check(
                    'ridealong dec==ref', ok, t or 'accepted-malformed',
                    lambda: {'kind': 'ridealong', 'dir': 'dec', 'bytes': seq},
                    lambda: {'got': repr(out)[:200], 'ref': [t, a]})
            return out

        mm.encode_message = encode_message
        mm.decode_message = decode_message
        return self

    def __exit__(self, *exc):
        self.mm.encode_message = self.orig_enc
        self.mm.decode_message = self.orig_dec
        return False


def replay_codec(ctx, case):
    import mido.messages.messages as mm
    with CodecMonitor(ctx):
        if case['dir'] == 'enc':
            a = dict(case['attrs'])
            if 'data' in a:
                a['data'] = tuple(a['data'])
            mm.Message(case['type'], **a).bytes()
        else:
            try:
                mm.Message.from_bytes(case['bytes'])
            except ValueError:
                pass


def ridealong_workload(ctx, budget=1.0):
    """Drive codec calls from inside the parser, the file writer/reader, the
    SYX functions and a socket port, for `budget` seconds."""
    import socket

    import mido
    from mido.sockets import SocketPort

    from .. import gen
    rng = ctx.rng
    t_end = time.time() + budget
    rounds = 0
    while time.time() < t_end:
        rounds += 1
        # parser on random streams (decode path)
        mido.parse_all(gen.random_stream(rng, rng.randrange(10, 300)))
        # random messages through file save/load (encode + decode path)
        msgs = []
        for _ in range(rng.randrange(1, 40)):
            t = gen.random_type(rng, exclude=midi1.REALTIME_TYPES)
            msgs.append(mido.Message(t, time=rng.choice((0, 1, 127, 128, 300)),
                                     **gen.random_attrs(t, rng)))
        mid = mido.MidiFile(type=1)
        mid.tracks.append(mido.MidiTrack(msgs))
        buf = io.BytesIO()
        mid.save(file=buf)
        back = mido.MidiFile(file=io.BytesIO(buf.getvalue()))
        ctx.check('ridealong file roundtrip',
                  list(back.tracks[0])[:-1] == msgs, 'file',
                  lambda: {'kind': 'ridealong-file', 'msgs': [str(m) for m in msgs]},
                  'file round trip differs')
        # socket port (bin() + byte-wise parser)
        a, b = socket.socketpair()
        pa, pb = SocketPort('a', 1, conn=a), SocketPort('b', 1, conn=b)
        try:
            live = [m.copy(time=0) for m in msgs[:10]]
            for m in live:
                pa.send(m)
            got = []
            for _ in range(200):
                x = pb.poll()
                if x is None:
                    if len(got) >= len(live):
                        break
                    continue
                got.append(x)
            ctx.check('ridealong socket roundtrip', got == live, 'socket',
                      lambda: {'kind': 'ridealong-socket',
                               'msgs': [str(m) for m in live]},
                      lambda: [str(m) for m in got])
        finally:
            pa.close()
            pb.close()
    ctx.extra('ridealong_rounds', rounds)
