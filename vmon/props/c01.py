"""C01 - Message byte codec round-trips every valid message.

Boundary monitor on Message.bytes/bin/hex/__len__/from_bytes/from_hex with an
independent MIDI 1.0 reference encoder (vmon.ref.midi1) as oracle; the complete
1 331 463-message non-sysex space is enumerated in both tiers; a ride-along
codec monitor on encode_message/decode_message runs inside parser, file and
port workloads (phase D).
"""
from numbers import Integral

import mido
from mido import Message

from .. import abuse, gen
from ..ref import midi1

ID = 'C01'
ANCHORS = ['mido.messages.encode', 'mido.messages.decode', 'mido.messages.specs', 'mido.messages.messages']
LEVEL = 'exploration'
RULE = ('phase A enumerates every (type, attribute values) of the 17 non-sysex '
        'types once (1 331 463 messages, partitioned over shards, distinct by '
        'construction; each is non-trivial: a valid message whose encoding is '
        'compared byte for byte with the reference encoder and decoded back three '
        'ways); phase B sysex payloads at boundary lengths x 4 content styles '
        '(+ random payloads), distinct by (length, style, index); phase C '
        'from_hex separator/case/whitespace variants; phase E encode/assign/encode histories on single objects (distinct by seed); phase D counts messages '
        'checked by the ride-along codec monitor inside parser/file/port '
        'workloads (not added to distinct_nontrivial)')
ASSUMPTIONS = [
    'reference encoder vmon/ref/midi1.py is a correct reading of MIDI 1.0 and docs/message_types.rst',
    'sysex payloads beyond 70 000 bytes behave like the sizes tried (nothing in the codec depends on size)',
]
DECIDING = ['history enc==ref', 'enc==ref', 'len', 'bin', 'hex', 'from_bytes==m', 'from_hex==m',
            'time passthrough', 'ridealong enc==ref', 'ridealong dec==ref', 'cold-start schedules == ref']
TIMEOUT = {'quick': 300, 'thorough': 1200}


def nshards(tier):
    return 16


def _eq_typed(m, t, a, tm):
    """m has exactly type t, attributes a (plain ints / tuple) and time tm of
    the same Python type."""
    v = vars(m)
    if v.get('type') != t or len(v) != len(a) + 2:
        return False
    for k, x in a.items():
        y = v.get(k)
        if k == 'data':
            if not isinstance(y, tuple) or tuple(y) != tuple(x):
                return False
        elif type(y) is not int or y != x:
            return False
    y = v.get('time')
    return type(y) is type(tm) and (y == tm or (y != y and tm != tm))


def check_message(ctx, t, a, ti, tf, hexcheck=True):
    """One case: message (t, a) with int time ti and float time tf."""
    case = lambda: {'kind': 'msg', 'type': t, 'attrs': a, 'ti': ti, 'tf': tf}  # noqa: E731
    key = t
    try:
        m = Message(t, time=ti, **a)
    except Exception as exc:  # a valid message must be constructible
        ctx.fail('construct', key, case, f'{type(exc).__name__}: {exc}')
        return
    ref = midi1.encode(t, a)
    b = m.bytes()
    ok = (isinstance(b, list) and b == ref
          and all(type(x) is int for x in b))
    ctx.check('enc==ref', ok, key, case, lambda: {'got': b[:40], 'ref': ref[:40]})
    # structural well-formedness, stated independently of ref
    wf = (len(b) >= 1 and 0x80 <= b[0] <= 0xFF
          and (all(0 <= x < 0x80 for x in b[1:]) if t != 'sysex'
               else (b[-1] == 0xF7 and all(0 <= x < 0x80 for x in b[1:-1]))))
    ctx.check('wellformed', wf, key, case, lambda: b[:40])
    ctx.check('len', len(m) == len(ref), key, case, lambda: [len(m), len(ref)])
    bn = m.bin()
    ctx.check('bin', isinstance(bn, bytearray) and bn == bytearray(ref), key, case,
              lambda: repr(bn[:40]))
    if hexcheck:
        hx = m.hex()
        ctx.check('hex', hx == ' '.join('%02X' % x for x in ref), key, case,
                  lambda: hx[:120])
    # decode three ways
    try:
        # (the arguments by position, by keyword, or both by their documented names - varies with the message)
        style = (ref[0] + len(ref) + (ref[1] if len(ref) > 1 else 0)) % 4
        if style == 0:
            d1 = Message.from_bytes(b, time=ti)
            d2 = Message.from_bytes(bn, time=tf)
        elif style == 1:
            d1 = Message.from_bytes(b, ti)
            d2 = Message.from_bytes(data=bn, time=tf)
        elif style == 2:
            d1 = Message.from_bytes(data=b, time=ti)
            d2 = Message.from_bytes(bn, tf)
        else:
            d1 = Message.from_bytes(time=ti, data=b)
            d2 = Message.from_bytes(bn, time=tf)
        ctx.check('from_bytes==m', d1 == m and _eq_typed(d1, t, a, ti), key, case,
                  lambda: repr(d1)[:200])
        ctx.check('time passthrough', _eq_typed(d2, t, a, tf) and d2 == m.copy(time=tf),
                  key, case, lambda: repr(d2)[:200])
        d0 = Message.from_bytes(bytes(bn))
        ctx.check('from_bytes default time', _eq_typed(d0, t, a, 0), key, case,
                  lambda: repr(d0)[:200])
        if hexcheck:
            d3 = Message.from_hex(hx, time=ti) if style < 2 else Message.from_hex(text=hx, time=ti) if style == 2 else Message.from_hex(hx, ti, None)
            ctx.check('from_hex==m', d3 == m and _eq_typed(d3, t, a, ti), key, case,
                      lambda: repr(d3)[:200])
    except Exception as exc:
        ctx.fail('decode raised', key, case, f'{type(exc).__name__}: {exc}')


class UserMessage(Message):
    """A plain application subclass."""


def check_message_classes(ctx, t, a, ti, tf):
    """The codec methods are inherited: the same case on the frozen class and on a user's subclass - built directly and
    decoded by the class's own from_bytes / from_hex, with an explicit time."""
    from mido.frozen import FrozenMessage, freeze_message, thaw_message
    ref = midi1.encode(t, a)
    for cls in (FrozenMessage, UserMessage):
        case = lambda: {'kind': 'msg-class', 'class': cls.__name__, 'type': t, 'attrs': a, 'ti': ti, 'tf': tf}  # noqa: E731
        key = f'{cls.__name__}:{t}'
        try:
            m = cls(t, time=ti, **a)
            b = m.bytes()
            ctx.check('enc==ref', b == ref and list(m.bin()) == ref and len(m) == len(ref), key, case, lambda: b[:40])
            d1 = cls.from_bytes(b, time=ti)
            d2 = cls.from_bytes(m.bin(), time=tf)
            d3 = cls.from_hex(m.hex(), time=ti)
            d0 = cls.from_bytes(bytes(ref))
            ctx.check('from_bytes==m', d1 == m and isinstance(d1, cls) and _eq_typed(d1, t, a, ti) and d0 == m.copy(time=0)
                      and isinstance(d0, cls), key, case, lambda: repr(d1)[:200])
            ctx.check('time passthrough', _eq_typed(d2, t, a, tf) and d2 == m.copy(time=tf), key, case, lambda: repr(d2)[:200])
            ctx.check('from_hex==m', d3 == m and isinstance(d3, cls), key, case, lambda: repr(d3)[:200])
            if cls is FrozenMessage:
                # through freeze and thaw: still the same message, still the same bytes
                th = thaw_message(m)
                fz = freeze_message(Message(t, time=ti, **a))
                d4 = Message.from_bytes(th.bytes(), time=ti)
                ctx.check('from_bytes==m', th.bytes() == ref and fz.bytes() == ref and d4 == th and _eq_typed(d4, t, a, ti)
                          and _eq_typed(th, t, a, ti) and type(th) is Message, key + ':thawed', case,
                          lambda: repr(th)[:200])
        except Exception as exc:
            ctx.fail('decode raised', key, case, f'{type(exc).__name__}: {exc}')


def check_hex_variants(ctx, t, a, rng):
    m = Message(t, **a)
    ref = midi1.encode(t, a)
    case = lambda v: {'kind': 'hexvar', 'type': t, 'attrs': a, 'variant': v}  # noqa: E731
    for sep in (' ', '', '-', ':', '::', ', ', ' 0x', 'x', 'ab', '\xa0', '|', '.'):
        try:
            hx = m.hex(sep)
        except Exception as exc:
            ctx.fail('hex(sep)', 'hex-raised:' + t, lambda: case(['hex', sep]), f'{type(exc).__name__}: {exc}')
            continue
        ctx.check('hex(sep)', hx == sep.join('%02X' % x for x in ref), t,
                  lambda: case(['hex', sep]), lambda: hx[:80])
        try:
            if sep in (' ', '', '\xa0'):
                d = Message.from_hex(hx)
            else:
                d = Message.from_hex(hx, sep=sep)
            ctx.check('from_hex(sep)', d == m, t, lambda: case(['from_hex', sep]),
                      lambda: repr(d)[:200])
            for tm in (7, 0.25):
                kw = {} if sep in (' ', '', '\xa0') else {'sep': sep}
                d = Message.from_hex(hx, time=tm, **kw)
                ctx.check('from_hex(sep, time)', _eq_typed(d, t, a, tm), 'from_hex-time:' + t,
                          lambda: case(['from_hex', sep, tm]), lambda: repr(d)[:200])
                d = Message.from_hex(hx, tm, **kw)          # time given positionally
                ctx.check('from_hex(sep, time)', _eq_typed(d, t, a, tm), 'from_hex-time:' + t,
                          lambda: case(['from_hex', sep, tm, 'positional']), lambda: repr(d)[:200])
        except Exception as exc:
            ctx.fail('from_hex(sep) raised', t, lambda: case(['from_hex', sep]),
                     f'{type(exc).__name__}: {exc}')
    for ws in ('\n', '\t', '  ', '\r\n', '\x0b', '\x0c', '\x1c', '\x1f', '\x85', '\xa0', '\u2009', '\u2028', '\u3000',
               ' \xa0\n'):
        text = ws.join('%02x' % x for x in ref)     # lower case too
        try:
            d = Message.from_hex(text)
            ctx.check('from_hex(ws)', d == m, t, lambda: case(['ws', ws]),
                      lambda: repr(d)[:200])
        except Exception as exc:
            ctx.fail('from_hex(ws) raised', t, lambda: case(['ws', ws]),
                     f'{type(exc).__name__}: {exc}')


def check_spellings(ctx, t, a, tm):
    """The same message through other spellings of the same call: attributes in any keyword order
    (constructor, from_dict, from_str), time given positionally to from_bytes/from_hex, a valid
    message built with skip_checks=True."""
    import itertools
    ref = midi1.encode(t, a)
    base = Message(t, time=tm, **a)
    case = lambda v: {'kind': 'spelling', 'type': t, 'attrs': a, 'variant': v}  # noqa: E731
    items = list(a.items()) + [('time', tm)]
    for perm in itertools.islice(itertools.permutations(items), 0, 24):
        kw = dict(perm)
        for how in ('ctor', 'from_dict', 'skip_checks'):
            try:
                if how == 'ctor':
                    m = Message(t, **kw)
                elif how == 'from_dict':
                    m = Message.from_dict({**kw, 'type': t})
                else:
                    m = Message(t, skip_checks=True, **{k: (list(v) if k == 'data' else v) for k, v in kw.items()})
                ok = m.bytes() == ref and m == base and Message.from_bytes(m.bytes(), time=tm) == base and len(m) == len(ref)
                ctx.check('enc==ref (any spelling)', ok, f'spelling:{how}:{t}', lambda: case([how, [k for k, _ in perm]]),
                          lambda: {'bytes': m.bytes()[:12], 'ref': ref[:12]})
            except Exception as exc:
                ctx.fail('enc==ref (any spelling)', f'spelling-raised:{how}:{t}', lambda: case([how, [k for k, _ in perm]]),
                         f'{type(exc).__name__}: {exc}')
        if type(tm) is int and t != 'sysex':
            text = t + ' ' + ' '.join(f'{k}={v}' for k, v in perm)
            try:
                m = Message.from_str(text)
                ctx.check('enc==ref (any spelling)', m.bytes() == ref and m == base, f'spelling:from_str:{t}',
                          lambda: case(['from_str', text]), lambda: m.bytes()[:12])
            except Exception as exc:
                ctx.fail('enc==ref (any spelling)', f'spelling-raised:from_str:{t}', lambda: case(['from_str', text]), repr(exc))
    # time as a positional argument
    for tpos in (tm, 480, 0.75):
        try:
            d = Message.from_bytes(ref, tpos)
            ctx.check('time passthrough', _eq_typed(d, t, a, tpos), f'positional-time:from_bytes:{t}', lambda: case(['from_bytes', tpos]),
                      lambda: repr(d)[:160])
            d = Message.from_hex(' '.join('%02X' % x for x in ref), tpos)
            ctx.check('time passthrough', _eq_typed(d, t, a, tpos), f'positional-time:from_hex:{t}', lambda: case(['from_hex', tpos]),
                      lambda: repr(d)[:160])
        except Exception as exc:
            ctx.fail('time passthrough', f'positional-time-raised:{t}', lambda: case(['positional', tpos]), repr(exc))


def check_containers(ctx, t, a):
    """from_bytes accepts any sequence of integers: lists, tuples, bytes-like objects and
    buffer-protocol objects whose items are wider than a byte."""
    import array
    import collections
    m = Message(t, **a)
    ref = midi1.encode(t, a)
    conts = [('tuple', tuple(ref)), ('array-B', array.array('B', ref)), ('array-i', array.array('i', ref)),
             ('array-H', array.array('H', ref)), ('array-q', array.array('q', ref)),
             ('memoryview', memoryview(bytes(ref))), ('range-like list subclass', type('L', (list,), {})(ref))]
    for name, c in conts:
        case = lambda: {'kind': 'container', 'type': t, 'attrs': a, 'container': name}  # noqa: E731
        try:
            d = Message.from_bytes(c, time=3)
            ctx.check('from_bytes(container)==m', d == m.copy(time=3) and _eq_typed(d, t, a, 3), 'container:' + name,
                      case, lambda: repr(d)[:160])
        except Exception as exc:
            ctx.fail('from_bytes(container)==m', 'container-raised:' + name, case, f'{type(exc).__name__}: {exc}')


def phase_a(ctx):
    sh, n = ctx.shard, ctx.nshards
    it = gen.INT_TIMES
    ft = gen.FLOAT_TIMES + [float('inf'), float('-inf'), 1.7976931348623157e308, -1e-310, 2.0 ** 53 + 2]   # every float but nan equals itself
    i = -1
    per_type = {}
    for t, a in midi1.all_nonsysex():
        i += 1
        if i % n != sh:
            continue
        check_message(ctx, t, a, it[i % len(it)], ft[i % len(ft)],
                      hexcheck=True)
        if i % 48 == sh % 48:
            check_message_classes(ctx, t, a, it[i % len(it)], ft[i % len(ft)])
        per_type[t] = per_type.get(t, 0) + 1
        if i % 9973 == sh:
            ctx.put_sample({'type': t, **a, 'bytes': midi1.encode(t, a)})
            check_hex_variants(ctx, t, dict(a), ctx.rng)
            check_containers(ctx, t, dict(a))
            check_spellings(ctx, t, dict(a), it[i % len(it)])
    check_containers(ctx, 'sysex', {'data': tuple(range(100))})
    if sh == 0:
        for t in midi1.TYPES:
            for a in list(gen.boundary_attr_sets(t))[:4]:
                check_spellings(ctx, t, dict(a), 3)
    ctx.count('cases', sum(per_type.values()))
    ctx.nontrivial(None, sum(per_type.values()))
    ctx.extra('messages_per_type', per_type)
    ctx.exhaustive = True


def phase_b(ctx):
    styles = ('zeros', 'max', 'ramp', 'random')
    work = [(n, s) for n in gen.SYSEX_LENGTHS for s in styles]
    k = 0
    for j, (n, s) in enumerate(work):
        if j % ctx.nshards != ctx.shard:
            continue
        data = gen.sysex_payload(n, s, ctx.rng)
        check_message(ctx, 'sysex', {'data': data}, 7, 0.25, hexcheck=n <= 20000)
        ctx.nontrivial(('sysex', n, s))
        k += 1
        if n <= 3:
            check_hex_variants(ctx, 'sysex', {'data': data}, ctx.rng)
    nrand = 300 if ctx.tier == 'quick' else 200000 // ctx.nshards
    for j in range(nrand):
        n = ctx.rng.choice((0, 1, 2, 3, 4, 5, 7, 10, 16, 33, 40, 200))
        data = tuple(ctx.rng.randrange(128) for _ in range(n))
        check_message(ctx, 'sysex', {'data': data}, j, j / 7.0)
        if j % 4 == 0:
            check_message_classes(ctx, 'sysex', {'data': data}, j, j / 7.0)
        ctx.nontrivial(('sysexr', data))
        k += 1
        if j < 2:
            ctx.put_sample({'type': 'sysex', 'len': n, 'data': list(data[:12])})
    ctx.count('cases', k)
    ctx.extra('sysex_cases', k)
    ctx.extra('sysex_lengths', set(gen.SYSEX_LENGTHS))


def history(ctx, t, steps, seed):
    """Encode, assign an attribute, encode again - on ONE object, with no other
    message encoded in between (a stale encode memo keyed on the object would
    show here), mixing the three encoders and copy()."""
    import random
    rng = random.Random(seed)
    a = gen.random_attrs(t, rng)
    m = Message(t, **a)
    ops = []
    case = lambda: {'kind': 'history', 'type': t, 'steps': steps, 'seed': seed}  # noqa: E731
    for i in range(steps):
        enc1 = rng.choice(('bytes', 'bin', 'hex', 'len', 'none'))
        if enc1 != 'none':
            out = getattr(m, enc1 if enc1 != 'len' else '__len__')()
            # what a caller does with the returned container is its own business
            if enc1 == 'bytes':
                out += [1, 2, 3]
                out[0] = 0
            elif enc1 == 'bin':
                out.extend(b'\x01\x02')
        names = midi1.ATTRS[t]
        if names:
            n = rng.choice(names)
            if n == 'data':
                if rng.random() < 0.5:
                    add = tuple(rng.randrange(128) for _ in range(rng.randrange(0, 4)))
                    m.data += add
                    a['data'] = tuple(a['data']) + add
                else:
                    a['data'] = tuple(rng.randrange(128) for _ in range(rng.randrange(0, 6)))
                    m.data = a['data']
            else:
                lo, hi = midi1.DOMAIN[n]
                a[n] = rng.choice((lo, hi, rng.randint(lo, hi)))
                setattr(m, n, a[n])
        if rng.random() < 0.3:
            tm = rng.choice(gen.TIMES)
            m.time = tm
        r = rng.random()
        if r < 0.15:
            # edits that are rejected, and everyday handling (str, dict, copies, pickling, a frozen twin that
            # is hashed): none of it may leave a trace in the message
            abuse.failed_edits(m)
            enc1 += '+failed-edits'
        elif r < 0.3:
            abuse.handle(m)
            enc1 += '+handled'
        elif r < 0.36:
            # the message goes on as its own pickled / deep-copied / thawed-frozen self
            how = rng.choice(('pickle', 'deepcopy', 'freeze-hash-thaw', 'copy'))
            import copy as _copy
            import pickle as _pickle
            import mido.frozen as _fz
            if how == 'pickle':
                m = _pickle.loads(_pickle.dumps(m))
            elif how == 'deepcopy':
                m = _copy.deepcopy(m)
            elif how == 'copy':
                m = m.copy()
            else:
                f = _fz.freeze_message(m)
                hash(f)
                m = _fz.thaw_message(f)
            enc1 += '+' + how
        ops.append(enc1)
        ref = midi1.encode(t, a)
        enc2 = rng.choice(('bytes', 'bin', 'hex'))
        if enc2 == 'bytes':
            got = m.bytes()
        elif enc2 == 'bin':
            got = list(m.bin())
        else:
            got = [int(x, 16) for x in m.hex().split()]
        ctx.check('history enc==ref', got == ref, 'stale-encoding:' + enc1 + '>' + enc2, case,
                  lambda: {'step': i, 'got': got[:20], 'ref': ref[:20]})
        ctx.check('history len', len(m) == len(ref), 'stale-len', case, [len(m), len(ref)])
        d = Message.from_bytes(m.bytes(), time=m.time)
        ctx.check('history decode==m', d == m and vars(d) == vars(m) and set(vars(m)) == set(a) | {'type', 'time'}, 'history-decode', case,
                  lambda: {'step': i, 'ops': ops[-3:], 'decoded': repr(vars(d))[:200], 'message': repr(vars(m))[:200]})
        if rng.random() < 0.3:
            c = m.copy()
            ctx.check('history copy enc', c.bytes() == ref, 'copy-encoding', case, c.bytes()[:20])


def phase_e(ctx):
    n = 60 if ctx.tier == 'quick' else 2000
    k = 0
    for j in range(n):
        for t in midi1.TYPES:
            seed = f'{ctx.seed}:{ctx.shard}:{j}:{t}'
            try:
                history(ctx, t, 8, seed)
            except Exception as exc:
                ctx.fail('history enc==ref', f'history-raised:{type(exc).__name__}', {'kind': 'history', 'type': t, 'steps': 8, 'seed': seed},
                         f'{type(exc).__name__}: {exc}')
            ctx.nontrivial(('hist', seed))
            k += 1
    ctx.count('cases', k)
    ctx.extra('mutation_histories', k)
    ctx.put_sample({'kind': 'history', 'type': 'note_on', 'steps': 8,
                    'what': 'encode / setattr / encode on one object'})


def phase_d(ctx):
    """Ride-along: encodings produced inside the parser, the file writer and
    ports are compared with the reference too."""
    from ..mon import wrap
    mon = wrap.CodecMonitor(ctx)
    with mon:
        wrap.ridealong_workload(ctx, budget=1.0 if ctx.tier == 'quick' else 8.0)
    ctx.extra('ridealong_encode_checked', mon.n_enc)
    ctx.extra('ridealong_decode_checked', mon.n_dec)


COLD_MODULES = ['mido.messages.decode', 'mido.messages.encode', 'mido.messages.messages', 'mido.messages.checks',
                'mido.messages.specs']


def cold_jobs():
    """Thread 0 makes the very first codec calls of the process; thread 1 may be switched in after
    any line of them (and the other way round: up to one pre-emption anywhere)."""
    def dec(fn, t, a):
        enc = midi1.encode(t, a)
        arg = ' '.join(f'{b:02X}' for b in enc) if fn == 'from_hex' else enc
        want = {'type': t, 'time': 0, 'class': 'Message'}
        want.update({k: list(v) if isinstance(v, tuple) else v for k, v in a.items()})
        return {'fn': fn, 'arg': arg, 'want': want}

    def enc(t, a):
        return {'fn': 'bytes', 'type': t, 'attrs': {k: list(v) if isinstance(v, tuple) else v for k, v in a.items()},
                'want': midi1.encode(t, a)}
    pw = ('pitchwheel', {'channel': 1, 'pitch': 8191})
    pw2 = ('pitchwheel', {'channel': 15, 'pitch': -8192})
    sp = ('songpos', {'pos': 16383})
    qf = ('quarter_frame', {'frame_type': 7, 'frame_value': 15})
    sx = ('sysex', {'data': (1, 2, 127)})
    no = ('note_on', {'channel': 9, 'note': 127, 'velocity': 1})
    pc = ('program_change', {'channel': 3, 'program': 99})
    cc = ('control_change', {'channel': 2, 'control': 100, 'value': 101})
    others = [dec('from_bytes', *pw2), dec('from_bytes_b', *sp), dec('from_hex', *qf), dec('from_bytes', *sx),
              dec('from_bytes', *no), enc(*pw2), enc(*sp), enc(*qf), enc(*sx), enc(*pc), dec('from_bytes', *cc),
              dec('from_bytes', *pc), enc(*cc)]
    # same status bytes as in `others`, other data: two decodes/encodes of one status byte overlap
    same = [dec('from_bytes', 'note_on', {'channel': 9, 'note': 5, 'velocity': 6}),
            dec('from_bytes', 'control_change', {'channel': 2, 'control': 7, 'value': 8}),
            dec('from_bytes', 'program_change', {'channel': 3, 'program': 1}),
            enc('control_change', {'channel': 2, 'control': 9, 'value': 10}),
            dec('from_bytes', 'pitchwheel', {'channel': 15, 'pitch': 8191}),
            dec('from_bytes', 'sysex', {'data': (9, 8)})]
    firsts = [[dec('from_bytes', *pw)], [enc(*pw)], [dec('from_hex', *sp), enc(*qf)], [dec('from_bytes_b', *sx), enc(*no)],
              same]
    jobs = [{'modules': COLD_MODULES, 'jobs': [f, others], 'k': 1} for f in firsts]
    # steady state, and the very same strings in both threads: whatever is remembered from one call to the next (the last
    # message, a table of recent ones) is read by one thread while the other is half way through replacing it
    x, y, z = dec('from_bytes', *no), dec('from_bytes', *cc), dec('from_bytes', *pw2)
    ex, ey = enc(*no), enc(*pw2)
    jobs.append({'modules': COLD_MODULES, 'fresh': False, 'jobs': [[x, y, x, z], [y, x, z, y]], 'k': 1})
    jobs.append({'modules': COLD_MODULES, 'fresh': False, 'jobs': [[ex, ey, x], [ey, ex, y]], 'k': 1})
    # two threads encode (and decode) different sysex messages of different lengths: whatever buffer the encoder builds a
    # frame in is its caller's own
    s1, s2, s3 = ('sysex', {'data': (1, 2, 3, 4, 5, 6, 7)}), ('sysex', {'data': (125, 12)}), ('sysex', {'data': ()})
    jobs.append({'modules': COLD_MODULES, 'fresh': False, 'jobs': [[enc(*s1), enc(*s3), dec('from_bytes', *s1)],
                                                                    [enc(*s2), enc(*s1), dec('from_bytes', *s2)]], 'k': 1})
    # while another thread saves, measures and loads a file: messages with float and negative times (legal everywhere but in
    # a file) are built, copied, encoded and decoded as ever
    from ..coldstart import file_activity, FILE_MODULES, msg_want
    w = lambda t, a, tm: msg_want(t, {k: v for k, v in a.items() if k != 'time'}, time=tm)          # noqa: E731
    mine = [{'fn': 'ctor', 'type': 'note_on', 'attrs': {'channel': 1, 'note': 2, 'velocity': 3, 'time': 0.5},
             'want': w('note_on', {'channel': 1, 'note': 2, 'velocity': 3}, 0.5)},
            {'fn': 'copy', 'type': 'pitchwheel', 'attrs': {'pitch': -3, 'time': -2}, 'want': w('pitchwheel', {'channel': 0, 'pitch': -3}, -2)},
            {'fn': 'from_dict', 'type': 'sysex', 'attrs': {'data': [1, 2], 'time': 1e300}, 'want': w('sysex', {'data': [1, 2]}, 1e300)},
            x, ex]
    jobs.append({'modules': FILE_MODULES + COLD_MODULES, 'fresh': False, 'jobs': [file_activity(), mine], 'k': 1})
    return jobs


def phase_g(ctx):
    """Valid values in unusual clothes (bool, int subclass, IntEnum member, a numpy-like Integral that is no
    int): the encoding equals the reference, bin() and len() agree, and decoding the encoding gives a
    message equal to the original."""
    n = 0
    for ti, t in enumerate(midi1.TYPES):
        if ti % ctx.nshards != ctx.shard:
            continue
        for a in list(gen.boundary_attr_sets(t))[:40:3]:
            variants = {}
            for name, v in a.items():
                if name == 'data':
                    variants[name] = [list(map(gen.I64, v)), tuple(gen.exotic_ints(x)[0] for x in v)]
                else:
                    variants[name] = gen.exotic_ints(v)
            for k in range(4):
                kw = {name: vs[k % len(vs)] for name, vs in variants.items()}
                tm = (gen.I64(7), True, 0, gen.exotic_ints(3)[0])[k]
                case = {'kind': 'exotic', 'type': t, 'attrs': {n_: repr(v) for n_, v in kw.items()}, 'time': repr(tm)}
                try:
                    m = Message(t, time=tm, **kw)
                    ref = midi1.encode(t, a)
                    b = m.bytes()
                    ctx.check('enc==ref', list(b) == ref and len(m) == len(ref) and list(m.bin()) == ref, 'exotic-types:encode', case,
                              lambda: {'got': [repr(x) for x in b][:8], 'ref': ref[:8]})
                    for src in (b, m.bin(), list(m.bin())):
                        d = Message.from_bytes(src, time=tm)
                        ctx.check('from_bytes==m', d == m and d == Message(t, time=int(tm), **a), 'exotic-types:decode', case,
                                  lambda: repr(d)[:200])
                except Exception as exc:
                    ctx.fail('from_bytes==m', f'exotic-types:{type(exc).__name__}', case, f'{type(exc).__name__}: {exc}')
                n += 1
    ctx.nontrivial(None, n)
    ctx.extra('exotic_type_cases', n)
    ctx.count('cases', n)


def phase_f(ctx):
    """Cold start (vmon.coldstart): the first codec calls of a fresh interpreter, two threads."""
    from .. import coldstart
    ctx.count('cases', coldstart.phase(ctx, cold_jobs(), 'cold-start schedules == ref'))


def hash_twins(ctx):
    """Values CPython hashes alike (-1 and -2) in one process, both orders, all channels: a table keyed by hash(...)
    instead of by the values hands one message the other's bytes.  (The exhaustive phase deals consecutive pitch values
    to different shards, i.e. different processes.)"""
    n = 0
    for ch in range(16):
        for order in ((-1, -2), (-2, -1)):
            for p in order:
                check_message(ctx, 'pitchwheel', {'channel': ch, 'pitch': p}, ch, 0.5)
                n += 1
    ctx.nontrivial(None, n)
    ctx.count('cases', n)


def derived_sysex_cases(ctx):
    """Sysex messages that were not built by the constructor from a tuple: derived with copy(data=...), from_dict, by
    assignment and by += - from every kind of container, empty ones included.  Each holds its payload as the immutable
    SysexData tuple, encodes to the reference bytes and decodes to an equal message."""
    import array
    import collections
    n = 0
    payloads = ((), (0,), (1, 2, 127), tuple(range(40)))
    containers = (list, tuple, bytes, bytearray, lambda p: array.array('B', p), lambda p: iter(list(p)), collections.deque,
                  lambda p: (x for x in p), lambda p: memoryview(bytes(p)), lambda p: range(len(p)) if tuple(p) == tuple(range(len(p))) else list(p))
    routes = ('copy', 'from_dict', 'assign', 'iadd', 'ctor', 'copy-of-copy')
    for p in payloads:
        ref = midi1.encode('sysex', {'data': p})
        for ci, cont in enumerate(containers):
            for route in routes:
                if route in ('assign', 'iadd') and ci in (5, 7):
                    # (observed on the pinned tree, outside every property: assigning a one-shot iterator validates it - and
                    # thereby uses it up - before storing it, so the payload silently becomes empty; not judged)
                    continue
                case = {'kind': 'derived-sysex', 'payload': list(p), 'container': getattr(cont, '__name__', f'kind{ci}'), 'route': route}
                try:
                    if route == 'copy':
                        m = Message('sysex', data=(9, 9)).copy(data=cont(p))
                    elif route == 'copy-of-copy':
                        m = Message('sysex').copy(data=cont(p)).copy(time=3).copy()
                    elif route == 'from_dict':
                        m = Message.from_dict({'type': 'sysex', 'data': cont(p)})
                    elif route == 'assign':
                        m = Message('sysex', data=(5,))
                        m.data = cont(p)
                    elif route == 'iadd':
                        m = Message('sysex')
                        m.data += cont(p)
                    else:
                        m = Message('sysex', data=cont(p))
                    d = Message.from_bytes(m.bytes(), time=m.time)
                    ok = (m.bytes() == ref and list(m.bin()) == ref and isinstance(m.data, tuple) and tuple(m.data) == tuple(p)
                          and d == m and m == d and d.data == m.data and type(d.data) is type(m.data) and m == Message('sysex', data=p, time=m.time))
                    ctx.check('from_bytes==m', ok, f'derived-sysex:{route}', case,
                              lambda: {'data': repr(m.data)[:60], 'type': type(m.data).__name__, 'decoded': repr(d.data)[:60]})
                except Exception as exc:
                    ctx.fail('decode raised', f'derived-sysex:{route}:{type(exc).__name__}', case, f'{type(exc).__name__}: {exc}')
                n += 1
    ctx.nontrivial(None, n)
    ctx.count('cases', n)


def two_thread_stress(ctx, seconds=1.5):
    """Free-running: two threads encode and decode their own messages (sysex of different lengths, pitchwheel, song position)
    with a 1 us switch interval; each checks every result against the reference.  Not replayable - the recorded
    disagreement is the witness.  (A change that guards a shared buffer with a lock of its own cannot be scheduled
    deterministically from outside: the stand-in scheduler does not know that lock.)"""
    import sys
    import threading
    import time
    bad = []
    counts = [0, 0]
    stop = time.monotonic() + seconds

    def work(tid):
        k = 0
        while time.monotonic() < stop and not bad:
            k += 1
            n = (k * (tid + 2)) % 9
            data = tuple(((tid + 1) * 31 + i + k) % 128 for i in range(n if tid == 0 else 9 - n))
            for t, a in (('sysex', {'data': data}), ('pitchwheel', {'channel': tid, 'pitch': (k * 37 + tid) % 16384 - 8192}),
                         ('songpos', {'pos': (k * 101 + tid * 7) % 16384})):
                ref = midi1.encode(t, a)
                m = Message(t, **a)
                b = m.bytes()
                d = Message.from_bytes(ref)
                if b != ref or d != m or len(m) != len(ref):
                    bad.append({'thread': tid, 'type': t, 'attrs': {x: list(v) if isinstance(v, tuple) else v for x, v in a.items()},
                                'bytes': b, 'ref': ref, 'decoded': repr(d)[:80]})
                    return
            counts[tid] = k
    old = sys.getswitchinterval()
    sys.setswitchinterval(1e-6)
    try:
        ths = [threading.Thread(target=work, args=(i,), daemon=True) for i in range(2)]
        for th in ths:
            th.start()
        for th in ths:
            th.join(seconds + 30)
    finally:
        sys.setswitchinterval(old)
    ctx.check('enc==ref', not bad, 'two-threads-free-running', {'kind': 'two-thread-stress'}, lambda: bad[0])
    ctx.extra('two_thread_stress_rounds', sum(counts))
    ctx.nontrivial(None, sum(counts))
    ctx.count('cases', sum(counts))


def run(ctx):
    hash_twins(ctx)
    if ctx.shard % 4 == 1:
        two_thread_stress(ctx, 1.5 if ctx.tier == 'quick' else 15.0)
    if ctx.shard == 2 % ctx.nshards:
        derived_sysex_cases(ctx)
    for si, ln in enumerate((999999, 1000000, 1048577)):
        if ctx.shard == (4 + si) % ctx.nshards:
            # a message has no size limit of its own (a file reader's limit is the reader's business)
            check_message(ctx, 'sysex', {'data': tuple(i % 128 for i in range(ln))}, 1, 0.5, hexcheck=False)
            ctx.nontrivial(('huge-sysex', ln))
            ctx.count('cases', 1)
    phase_a(ctx)
    phase_b(ctx)
    phase_e(ctx)
    phase_d(ctx)
    phase_f(ctx)
    phase_g(ctx)


def replay(ctx, case):
    k = case['kind']
    a = dict(case.get('attrs', {}))
    if 'data' in a:
        a['data'] = tuple(a['data'])
    if k == 'two-thread-stress':
        two_thread_stress(ctx, 5.0)
    elif k == 'msg':
        check_message(ctx, case['type'], a, case['ti'], case['tf'])
    elif k == 'derived-sysex':
        derived_sysex_cases(ctx)
    elif k == 'msg-class':
        check_message_classes(ctx, case['type'], a, case['ti'], case['tf'])
    elif k == 'hexvar':
        check_hex_variants(ctx, case['type'], a, ctx.rng)
    elif k == 'spelling':
        check_spellings(ctx, case['type'], a, 3)
        return
    elif k == 'container':
        check_containers(ctx, case['type'], a)
        return
    elif k == 'history':
        try:
            history(ctx, case['type'], case['steps'], case['seed'])
        except Exception as exc:
            ctx.fail('history enc==ref', f'history-raised:{type(exc).__name__}', case, f'{type(exc).__name__}: {exc}')
        return
    elif k == 'exotic':
        phase_g(ctx)
        return
    elif k == 'cold':
        from .. import coldstart
        coldstart.replay(ctx, case, 'cold-start schedules == ref')
        return
    elif k == 'ridealong':
        from ..mon import wrap
        wrap.replay_codec(ctx, case)
