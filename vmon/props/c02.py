"""C02 - from_bytes accepts exactly the well-formed single-message encodings.

Boundary monitor on Message.from_bytes/from_hex; oracle = reference acceptor
(vmon.ref.midi1.accept) + exception-class contract.
"""
import decimal
import fractions
import random
from numbers import Integral

from mido import Message

from ..ref import midi1

ID = 'C02'
ANCHORS = ['mido.messages.decode', 'mido.messages.messages']
LEVEL = 'exploration'
RULE = ('every integer string of length 0..3 over 0..255 (16 843 009 strings, '
        'partitioned over shards by first byte, distinct by construction, '
        'exhaustive) plus length 4..7 strings over status representatives x a '
        'boundary alphabet, out-of-byte-range and non-integer items at every '
        'position, equal-valued non-int twins offered after the int form was '
        'decoded (warm caches), and from_hex texts; a case is non-trivial when '
        'from_bytes was actually called and its outcome compared with the '
        'reference acceptor')
ASSUMPTIONS = [
    'reference acceptor vmon/ref/midi1.py is a correct reading of MIDI 1.0',
    'a non-Integral item in the status position or in the terminator position of a sysex is judged leniently: either rejected or a valid message with equal bytes (the statement does not say which)',
]
DECIDING = ['accepted => wellformed', 'rejected => malformed', 'exception class',
            'bytes()==input', 'nonint data rejected']
TIMEOUT = {'quick': 300, 'thorough': 1800}

B9 = (0, 1, 0x40, 0x7F, 0x80, 0xF0, 0xF7, 0xF8, 0xFF)
B4 = (0, 0x7F, 0x80, 0xF7)
STATUS_REPS = (0x00, 0x7F, 0x80, 0x92, 0xA1, 0xB7, 0xC5, 0xDF, 0xE3, 0xEF, 0xF0,
               0xF1, 0xF2, 0xF3, 0xF4, 0xF5, 0xF6, 0xF7, 0xF8, 0xF9, 0xFA, 0xFE, 0xFF)
CONTAINERS = (list, tuple, bytes, bytearray)


def nshards(tier):
    return 16


def statusclass(seq):
    if not len(seq):
        return 'empty'
    s = seq[0]
    if not isinstance(s, Integral) or isinstance(s, bool):
        return 'nonint-status'
    if s in midi1.STATUS_TYPE:
        return midi1.STATUS_TYPE[s]
    return 'undefined-status' if 0x80 <= s <= 0xFF else 'non-status'


def check_seq(ctx, seq, container=list):
    """One case.  seq is a list of items (ints in the fast paths)."""
    ints = all(isinstance(x, Integral) for x in seq)
    # Data positions are the ones mido type-checks explicitly; the status
    # position and a sysex's terminator position are compared by value only
    # and are judged leniently (see ASSUMPTIONS).
    body = seq[1:-1] if (seq and seq[0] == 0xF0) else seq[1:]
    data_nonint = any(not isinstance(x, Integral) for x in body)
    status_nonint = not data_nonint and not ints
    arg = container(seq) if container is not list else list(seq)
    case = lambda: ({'kind': 'seq', 'seq': [x if isinstance(x, int) else repr(x) for x in seq],  # noqa: E731
                     'container': container.__name__} if len(seq) <= 5000 else
                    {'kind': 'long-seq', 'len': len(seq), 'head': list(seq[:4]), 'tail': list(seq[-2:]), 'container': container.__name__})
    key = statusclass(seq)
    try:
        m = Message.from_bytes(arg)
    except ValueError as exc:
        if ints:
            ctx.check('rejected => malformed', not midi1.accept(seq),
                      'rejected-wellformed:' + key, case, 'ValueError on a well-formed message')
        elif data_nonint:
            # "TypeError for items that are not integers": when such an item in a data position is the only thing wrong
            # with the string (the same string with 0 in its place is a message), ValueError is the wrong class
            only_fault = midi1.accept([x if isinstance(x, Integral) else 0 for x in seq])
            ctx.check('exception class', not only_fault, 'ValueError-for-nonint-item:' + key, case, f'ValueError: {exc}')
            ctx.count('nonint data rejected')
        else:
            ctx.count('nonint status outcome')
        return None
    except TypeError as exc:
        ctx.check('exception class', not ints, 'TypeError-on-ints:' + key, case,
                  f'TypeError on an all-integer sequence: {exc}')
        if not ints:
            ctx.count('nonint data rejected' if data_nonint else 'nonint status outcome')
        return None
    except Exception as exc:
        ctx.check('exception class', False, f'{type(exc).__name__}:' + key, case,
                  f'{type(exc).__name__}: {exc}')
        return None
    ctx.count('exception class')
    if data_nonint:
        ctx.check('nonint data rejected', False, 'nonint-accepted:' + key, case,
                  f'returned {m!r}')
        return m
    if status_nonint:
        ctx.count('nonint status outcome')
        try:
            ok = midi1.valid(m) is None and m.bytes() == list(seq)
        except Exception as exc:
            ok = False
        ctx.check('bytes()==input', ok, 'nonint-status-bad-message', case, repr(vars(m))[:160])
        return m
    acc = midi1.accept(seq)
    ctx.check('accepted => wellformed', acc, 'accepted-malformed:' + key, case,
              lambda: f'returned {m!r}')
    try:
        b = m.bytes()
    except Exception as exc:
        b = [f'bytes() raised {type(exc).__name__}']
    ctx.check('bytes()==input', b == list(seq) and midi1.valid(m) is None,
              'bytes-differ:' + key, case, lambda: {'bytes': b[:30], 'msg': repr(m)[:200]})
    return m


# ---- fast exhaustive enumeration of lengths 0..3 ------------------------
def exhaustive_first_byte(ctx, s0):
    """All strings of length 1..3 starting with s0 (1 + 256 + 65536)."""
    fb = Message.from_bytes
    try:
        nd = midi1.ndata(s0)       # None for sysex
        defined = True
    except KeyError:
        nd, defined = -1, False
    n = 0
    cont = CONTAINERS[s0 % 4]

    def expect(seq):
        if not defined:
            return False
        body = seq[1:]
        if nd is None:
            return (len(body) >= 1 and body[-1] == 0xF7
                    and all(x < 128 for x in body[:-1]))
        return len(body) == nd and all(x < 128 for x in body)

    def one(seq):
        exp = expect(seq)
        try:
            m = fb(cont(seq))
        except ValueError:
            if exp:
                ctx.fail('rejected => malformed', 'rejected-wellformed:' + statusclass(seq),
                         {'kind': 'seq', 'seq': list(seq), 'container': cont.__name__},
                         'ValueError on a well-formed message')
            return
        except Exception as exc:
            ctx.fail('exception class', f'{type(exc).__name__}:' + statusclass(seq),
                     {'kind': 'seq', 'seq': list(seq), 'container': cont.__name__},
                     f'{type(exc).__name__}: {exc}')
            return
        if not exp:
            ctx.fail('accepted => wellformed', 'accepted-malformed:' + statusclass(seq),
                     {'kind': 'seq', 'seq': list(seq), 'container': cont.__name__},
                     f'returned {m!r}')
        elif m.bytes() != seq:
            ctx.fail('bytes()==input', 'bytes-differ:' + statusclass(seq),
                     {'kind': 'seq', 'seq': list(seq), 'container': cont.__name__},
                     {'bytes': m.bytes()})

    one([s0])
    n += 1
    for b1 in range(256):
        one([s0, b1])
        for b2 in range(256):
            one([s0, b1, b2])
        n += 257
    # the fast path evaluates the same four clauses per case
    acc = 0
    if defined:
        if nd is None:
            acc = 1 + 128         # F0 F7, F0 d F7
        else:
            acc = {0: 1, 1: 128, 2: 128 * 128}[nd]
    ctx.count('accepted => wellformed', acc)
    ctx.count('bytes()==input', acc)
    ctx.count('rejected => malformed', n - acc)
    ctx.count('exception class', n)
    ctx.extra('accepted_wellformed', acc)
    return n


def grid_cases(tier):
    """Length 4..7 strings: status representatives x boundary alphabets."""
    import itertools
    for s in STATUS_REPS:
        for rest in itertools.product(B9, repeat=3):
            yield [s, *rest]
        alpha5 = B9 if tier == 'thorough' else B4
        for rest in itertools.product(alpha5, repeat=4):
            yield [s, *rest]
        for ln in (5, 6):
            for rest in itertools.product(B4, repeat=ln):
                yield [s, *rest]
    if tier == 'thorough':
        for s in STATUS_REPS:
            for rest in itertools.product(B9, repeat=5):
                yield [s, *rest]


ODD = ['clock', 'note_on', 'sysex', 'reset', 'songpos', 'tune_request', 'pitchwheel', b'\x90', -1, -112, -16, -8, -256, 256, 400, 2 ** 70, -2 ** 70, 1.0, 144.0, 60.0, 0.5, float('nan'), 'a', '1',
       None, [1], (1,), b'\x01', True, False, fractions.Fraction(60),
       fractions.Fraction(1, 2), decimal.Decimal(60), 1j, 248.0, 240.0, 247.0]


def odd_item_cases():
    bases = [[0x90, 60, 64], [0xC5, 60], [0xE3, 60, 64], [0xF1, 60], [0xF2, 60, 64],
             [0xF3, 60], [0xF0, 60, 0xF7], [0xF0, 60, 64, 1, 0xF7], [0xF8], [0xF6],
             [0xB0, 0, 0], [0xA0, 127, 127], [0xD0, 1], [0x80, 0, 64]]
    for base in bases:
        for pos in range(len(base)):
            for odd in ODD:
                seq = list(base)
                seq[pos] = odd
                yield base, seq
        for odd in ODD:
            yield base, list(base) + [odd]
            yield base, [odd] + list(base)


def history_cases(ctx):
    """Warm any memo the implementation may keep with the integer form, then
    offer equal-valued non-integer twins; decode twice and mutate the first
    result in between (aliasing of cached results)."""
    n = 0
    for base, seq in odd_item_cases():
        for cont in (list, tuple):
            m0 = check_seq(ctx, base, cont)          # warm
            if m0 is not None:
                before = m0.bytes()
                try:
                    if m0.type == 'sysex':
                        m0.data += (5,)
                    elif 'note' in vars(m0):
                        m0.note = (m0.note + 1) % 128
                    elif 'channel' in vars(m0):
                        m0.channel = (m0.channel + 1) % 16
                except Exception:
                    pass
                m1 = check_seq(ctx, base, cont)
                ctx.check('decode is repeatable', m1 is not None and m1.bytes() == before
                          and m1 is not m0, 'stale-or-aliased-decode',
                          {'kind': 'history', 'base': base}, repr(m1))
            # odd items that cannot go into a tuple/list are fine as they are
            check_seq(ctx, seq, cont)
            n += 1
    # bytes/bytearray containers with in-range but malformed content
    for cont in (bytes, bytearray):
        for seq in ([], [0x90], [0x90, 1], [0x90, 1, 2, 3], [0xF0], [0xF0, 1],
                    [0xF7], [0x00], [0xF4], [0xF0, 0x80, 0xF7], [0x90, 0x80, 1]):
            check_seq(ctx, seq, cont)
            n += 1
    return n


def positional_time_cases(ctx):
    """from_bytes(data, time) with the time given positionally: the data is judged exactly as before."""
    n = 0
    for seq in ([0x90, 0x40, 200], [0x90, 1], [0xF0, 1, 0xF8, 0xF7], [0x90, 300, 1], [0x90, 1.5, 2], [0xF4], [0xE0, 1],
                [0x90, 1, 2], [0xF0, 1, 0xF7], [0xF8]):
        ints = all(isinstance(x, int) for x in seq)
        for tpos in (480, 1, 0.5, True):
            case = {'kind': 'positional-time', 'seq': [repr(x) for x in seq], 'time': repr(tpos)}
            try:
                m = Message.from_bytes(list(seq), tpos)
                ok = ints and midi1.accept(seq) and m.bytes() == seq and m.time == tpos
                ctx.check('accepted => wellformed', ok, 'positional-time-accepted-malformed', case, repr(m))
            except (ValueError, TypeError):
                ctx.check('rejected => malformed', not (ints and midi1.accept(seq)), 'positional-time-rejected-wellformed', case, None)
            except Exception as exc:
                ctx.check('exception class', False, f'positional-time:{type(exc).__name__}', case, str(exc))
            n += 1
    return n


DECODER_SEQS = ([0x90, 0x40, 0x40], [0x90, 0x40], [0x90, 0x40, 0x40, 0x40], [0xC3, 5], [0xC3], [0xE0, 0, 0x40], [0xF0, 0xF7],
                [0xF0, 1, 2, 0xF7], [0xF0, 1, 2], [0xF1, 5], [0xF2, 1, 2], [0xF2, 1], [0xF6], [0xF8], [0xF8, 0xF8], [0xF4],
                [0xF7], [0x40], [], [0x90, 0x80, 1], [0x90, 1, 0x90, 1, 1], [1, 0x90, 1, 1], [0xF0, 1, 0xF8, 0xF7],
                [0xFE], [0xF9], [0xB0, 120, 0], [0xD5, 0x7F])


class UserMessage(Message):
    """What an application does to add behaviour: a plain subclass."""
    def describe(self):
        return f'{self.type}@{self.time}'


def subclass_decoder_cases(ctx):
    """from_bytes / from_hex are classmethods: called on FrozenMessage or on a user's subclass, with the time omitted,
    given by keyword or positionally, they accept and reject exactly the same strings and build the same message."""
    from mido.frozen import FrozenMessage
    n = 0
    for cls in (Message, FrozenMessage, UserMessage):
        for seq in DECODER_SEQS:
            acc = midi1.accept(seq)
            for tform, t in (('omitted', 0), ('keyword', 0), ('keyword', 480), ('keyword', 1.5), ('positional', 7)):
                for via in ('from_bytes', 'from_hex'):
                    if via == 'from_hex' and tform == 'positional':
                        continue
                    case = {'kind': 'subclass-decoder', 'class': cls.__name__, 'seq': list(seq), 'time': tform, 't': t, 'via': via}
                    arg = list(seq) if via == 'from_bytes' else ' '.join(f'{b:02X}' for b in seq)
                    f = getattr(cls, via)
                    try:
                        m = f(arg) if tform == 'omitted' else f(arg, time=t) if tform == 'keyword' else f(arg, t)
                    except ValueError as exc:
                        ctx.check('rejected => malformed', not acc, f'subclass-decoder:rejected-wellformed:{cls.__name__}', case, str(exc))
                    except Exception as exc:
                        ctx.check('exception class', False, f'subclass-decoder:{type(exc).__name__}:{cls.__name__}', case, str(exc))
                    else:
                        ctx.check('accepted => wellformed', acc, f'subclass-decoder:accepted-malformed:{cls.__name__}', case, repr(m))
                        try:
                            ok = (m.bytes() == list(seq) and m.time == t and type(m.time) is type(t) and isinstance(m, cls)
                                  and m == Message.from_bytes(list(seq), time=t))
                        except Exception as exc:
                            ok = False
                        ctx.check('bytes()==input', ok, f'subclass-decoder:differs:{cls.__name__}', case, repr(m))
                    n += 1
    return n


def backend_delivery_cases(ctx):
    """The RtMidi backend builds a message from each delivery of the driver with from_bytes: a delivery that is not exactly
    one well-formed message is ignored - whether the port is polled or has a callback - and does not change what later
    deliveries give.  (Driven through a stand-in for the rtmidi extension module, vmon.fakertmidi.)"""
    from .. import fakertmidi
    backend = fakertmidi.install()
    n = 0
    rng = random.Random(f'{ctx.seed}:backend')
    seqs = [list(q) for q in DECODER_SEQS]
    for mode in ('poll', 'callback', 'callback-set-later'):
        for rnd in range(6):
            order = seqs[:]
            rng.shuffle(order)
            case = {'kind': 'backend-delivery', 'mode': mode, 'deliveries': order}
            got = []
            port = None
            try:
                port = backend.Input('fake in', callback=got.append if mode == 'callback' else None)
                want = []
                for i, seq in enumerate(order):
                    port._rt.deliver(seq)
                    if midi1.accept(seq):
                        want.append(list(seq))
                    if mode == 'poll' and rng.random() < 0.4:
                        got.extend(port.iter_pending())
                    if mode == 'callback-set-later' and i == len(order) // 2:
                        port.callback = got.append
                if mode == 'poll':
                    got.extend(port.iter_pending())
                    got.append(port.poll())
                    want.append(None)
                gotb = [m.bytes() if m is not None else None for m in got]
                ctx.check('accepted => wellformed', gotb == want, f'backend-delivery:{mode}', case,
                          {'got': gotb[:40], 'want': want[:40]})
            except Exception as exc:
                ctx.check('exception class', False, f'backend-delivery:{mode}:{type(exc).__name__}', case, str(exc))
            finally:
                if port is not None:
                    port.close()
            n += 1
    return n


def array_and_long_cases(ctx):
    """Buffer-protocol containers with items wider than a byte, and long sysex payloads with one
    non-integer item (a bulk range check would miss it)."""
    import array
    n = 0
    for code, seq in (('b', [-112, 64, 64]), ('b', [-1]), ('H', [448]), ('H', [0x90, 300, 1]), ('h', [0x01F0, -2302]),
                      ('i', [0x90, 64, 64, 1]), ('i', [0x190, 64, 64]), ('q', [0xF0, 1, 2]), ('H', [0x90, 64]),
                      ('i', [0x90, 64, 64]), ('H', [0xF0, 1, 0xF7]), ('q', [0xF8]), ('B', [0x90, 0x80, 1])):
        arr = array.array(code, seq)
        case = {'kind': 'array', 'code': code, 'seq': seq}
        try:
            m = Message.from_bytes(arr)
            ok = midi1.accept(seq) and m.bytes() == list(seq)
            ctx.check('accepted => wellformed', ok, 'array-accepted-malformed', case, repr(m))
        except ValueError:
            ctx.check('rejected => malformed', not midi1.accept(seq), 'array-rejected-wellformed', case, None)
        except TypeError:
            ctx.check('exception class', False, 'array-TypeError-on-ints', case, None)
        except Exception as exc:
            ctx.check('exception class', False, f'array-{type(exc).__name__}', case, f'{type(exc).__name__}: {exc}')
        n += 1
    for ln in (1023, 1024, 1025, 2000, 70000):
        for bad in (1.5, 64.0, fractions.Fraction(1, 2), decimal.Decimal('3.7'), float('nan'), None, 'a'):
            for pos in (1, ln // 2, ln):
                seq = [0xF0] + [0] + [5] * (ln - 2) + [127] + [0xF7]
                seq[pos] = bad
                for cont in (list, tuple):
                    case = {'kind': 'long-sysex', 'len': ln, 'bad': repr(bad), 'pos': pos}
                    try:
                        m = Message.from_bytes(cont(seq))
                        ctx.check('nonint data rejected', False, 'nonint-accepted:long-sysex', case, repr(m)[:80])
                    except (ValueError, TypeError):
                        ctx.count('nonint data rejected')
                    except Exception as exc:
                        ctx.check('exception class', False, f'long-sysex-{type(exc).__name__}', case, str(exc)[:100])
                    n += 1
        for badint in (128, 255, 256, -1):
            seq = [0xF0] + [0] * ln + [0xF7]
            seq[ln // 2] = badint
            check_seq(ctx, seq, list)
            n += 1
        check_seq(ctx, [0xF0] + [1] * ln + [0xF7], tuple)
        check_seq(ctx, [0xF0] + [1] * ln, list)
        n += 2
    # "any sequence of integers": also a very long one (a bulk dump, a stuck sender) - a message, or ValueError
    for ln in (999_998, 1_000_001, 1_048_576):
        check_seq(ctx, [0xF0] + [ln % 128] * ln + [0xF7], bytes)
        check_seq(ctx, [0xF0] + [1] * ln, bytearray)
        check_seq(ctx, [0x90] + [1] * ln, bytes)
        check_seq(ctx, [0xF8] + [0xF8] * ln, list)
        check_seq(ctx, [0x00] * ln, tuple)
        n += 5
    return n


def nested_sequence_cases(ctx):
    """Items that are themselves encodings of a message (a (bytes, delta) pair as a device driver hands it over, a list of
    messages, a message wrapped once too often) are not integers."""
    n = 0
    for b in ([0xF8], [0x90, 60, 64], [0xF0, 1, 0xF7], [0xC5, 60], [0xF6], [0xF0, 0xF7]):
        for inner in (list(b), tuple(b), bytes(b), bytearray(b)):
            for seq in ([inner, 0], [inner, 0.5], [inner, None], [inner], [inner, inner], [[inner, 0]], [inner, 0, 0],
                        [0, inner], [inner, 1.0], [inner, b[-1]]):
                for cont in (list, tuple):
                    check_seq(ctx, seq, cont)
                    n += 1
    return n


HEX_BAD = ['9', '90 4', '90 40 4', 'G0 00 00', '90,40,40', '0x90 0x40 0x40',
           '90-40-40', '90 40 40 ZZ', '9040 4', ' ', '', 'F0', 'F0 01', 'F7',
           '90 40', '90 40 40 40', '80 80 80', 'F4', 'FF FF', '90 40 80']
HEX_GOOD = [('90 40 40', [0x90, 0x40, 0x40]), ('f0f7', [0xF0, 0xF7]),
            ('F0 7f F7', [0xF0, 0x7F, 0xF7]), ('\nF8\n', [0xF8]),
            ('E0\t00\t40', [0xE0, 0, 0x40]), ('F2007F', [0xF2, 0, 0x7F])]


def trailing_byte_cases(ctx):
    """A well-formed message followed by ONE more byte is not one message: every type x every kind of
    byte that text-oriented code likes to ignore (newline, CR, NUL, space, a second F7, FF) x
    bytes / bytearray / list / tuple, through from_bytes and from_hex."""
    n = 0
    samples = [('sysex', {'data': ()}), ('sysex', {'data': (1, 2, 3)}), ('note_on', {'channel': 1, 'note': 2, 'velocity': 3}),
               ('program_change', {'channel': 0, 'program': 10}), ('clock', {}), ('tune_request', {}), ('songpos', {'pos': 10}),
               ('quarter_frame', {'frame_type': 1, 'frame_value': 10}), ('pitchwheel', {'channel': 2, 'pitch': 10})]
    for t, a in samples:
        enc = midi1.encode(t, a)
        for extra in (0x0A, 0x0D, 0x00, 0x20, 0x09, 0xF7, 0xFF, 0x0B, 0x0C, 0x1C, 0x85):
            for cont in (bytes, bytearray, list, tuple):
                check_seq(ctx, enc + [extra], cont)
                n += 1
            case = {'kind': 'trailing-byte', 'type': t, 'extra': extra}
            for text in (' '.join(f'{b:02X}' for b in enc + [extra]), ''.join(f'{b:02x}' for b in enc + [extra])):
                try:
                    m = Message.from_hex(text)
                    ctx.check('from_hex rejects', False, 'from_hex-accepted-trailing-byte', case, repr(m))
                except ValueError:
                    ctx.count('from_hex rejects')
                except Exception as exc:
                    ctx.check('exception class', False, f'from_hex-trailing-{type(exc).__name__}', case, f'{type(exc).__name__}: {exc}')
                n += 1
    return n


def hex_cases(ctx):
    n = 0
    for text in HEX_BAD:
        case = {'kind': 'hex', 'text': text}
        try:
            m = Message.from_hex(text)
            ctx.check('from_hex rejects', False, 'from_hex-accepted', case, repr(m))
        except ValueError:
            ctx.count('from_hex rejects')
        except Exception as exc:
            ctx.check('exception class', False, f'from_hex-{type(exc).__name__}', case,
                      f'{type(exc).__name__}: {exc}')
        n += 1
    for text, want in HEX_GOOD:
        case = {'kind': 'hex', 'text': text}
        try:
            m = Message.from_hex(text)
            ctx.check('from_hex accepts', m.bytes() == want, 'from_hex-differs', case, repr(m))
        except Exception as exc:
            ctx.check('from_hex accepts', False, f'from_hex-raised-{type(exc).__name__}',
                      case, f'{type(exc).__name__}: {exc}')
        n += 1
    # the sep= option: every printable ASCII character that is not a hex digit (regular-expression
    # metacharacters included), one and two characters long
    seps = [chr(c) for c in range(0x21, 0x7F) if chr(c) not in '0123456789abcdefABCDEF'] + ['::', '..', '\\d', '[0-9]', '.*', '(', 'x?']
    good = [([0x90, 0x40, 0x41], '90{s}40{s}41'), ([0xF0, 0xF7], 'F0{s}F7'), ([0xF8], 'F8'), ([0xE3, 0, 0x7F], 'e3{s}00{s}7f')]
    bad = ['90{s}40', '90{s}40{s}80', '90{s}40{s}40{s}40', 'F0{s}01', '{s}', '90{s}4', 'G0{s}00{s}00', '90 40{s}ZZ', 'F4', '80{s}80{s}80']
    for sep in seps:
        for want, tmpl in good:
            text = tmpl.format(s=sep)
            case = {'kind': 'hex-sep', 'text': text, 'sep': sep}
            try:
                m = Message.from_hex(text, sep=sep)
                ctx.check('from_hex accepts', m.bytes() == want, 'from_hex-sep-differs', case, repr(m))
            except Exception as exc:
                ctx.check('from_hex accepts', False, f'from_hex-sep-raised-{type(exc).__name__}', case,
                          f'{type(exc).__name__}: {exc}')
            n += 1
        for tmpl in bad:
            text = tmpl.format(s=sep)
            case = {'kind': 'hex-sep', 'text': text, 'sep': sep}
            try:
                m = Message.from_hex(text, sep=sep)
                ctx.check('from_hex rejects', False, 'from_hex-sep-accepted', case, repr(m))
            except ValueError:
                ctx.count('from_hex rejects')
            except Exception as exc:
                ctx.check('exception class', False, f'from_hex-sep-{type(exc).__name__}', case,
                          f'{type(exc).__name__}: {exc}')
            n += 1
    return n


def hex_layout_cases(ctx):
    """from_hex() is from_bytes() of the bytes the text spells: pairs of hex digits, grouped and spaced any way
    bytes.fromhex() reads them (runs of pairs without separator, blanks, tabs, line ends, leading and trailing space).  The
    same bytes in another layout are the same message - or the same ValueError; a first group of four to eight digits is
    two to four bytes, not an offset column."""
    import random
    rng = random.Random(f'{ctx.seed}:hex-layouts')
    n = 0
    seqs = [[0x90, 0x3C, 0x40], [0xC0, 0x05], [0xB0, 0x07, 0x64], [0xF0, 0x7E, 0x7F, 0x06, 0x01, 0xF7], [0xF8], [0xFE], [0xF0, 0xF7],
            [0xE0, 0x00, 0x40], [0xF2, 0x01, 0x02], [0xF0] + [i % 128 for i in range(40)] + [0xF7],
            # not one message
            [0xFE, 0xFE, 0x90, 0x3C, 0x40], [0x90, 0x3C, 0x40, 0x90, 0x3C, 0x00], [0x3C, 0x40, 0xC0, 0x05], [0x00, 0x00, 0x90, 0x3C, 0x40],
            [0x00, 0x10, 0xF8], [0xF0, 0x7E, 0x7F, 0x06, 0xF0, 0x7E, 0xF7], [0x12, 0x34], [0xF8, 0xF8], [0x90, 0x3C], [0xAB, 0xCD, 0xEF, 0x01, 0xF8]]
    spaces = [' ', '  ', '\t', '\n', '\r\n', ' \n', '\x0b', '\x0c']
    for seq in seqs:
        pairs = ['%02X' % b for b in seq]
        layouts = {''.join(pairs), ' '.join(pairs), ''.join(pairs) + '\n', ''.join(pairs) + ' ', ' ' + ''.join(pairs), '\n'.join(pairs),
                   ''.join(pairs[:2]) + ' ' + ' '.join(pairs[2:]), ''.join(pairs[:3]) + '\n' + ''.join(pairs[3:]),
                   ''.join(pairs[:4]) + ' ' + ''.join(pairs[4:]), ' '.join(pairs).lower(), '\t' + ' '.join(pairs) + '\r\n',
                   '0000: ' + ' '.join(pairs), '000010 ' + ' '.join(pairs), '0000  ' + ' '.join(pairs)}
        for _ in range(12):
            text = rng.choice(('', ' ', '\n'))
            for i, pr in enumerate(pairs):
                text += (pr if rng.random() < 0.5 else pr.lower())
                if i < len(pairs) - 1 and rng.random() < 0.6:
                    text += rng.choice(spaces)
            layouts.add(text + rng.choice(('', ' ', '\n', '\r\n')))
        for text in sorted(layouts):
            case = {'kind': 'hex-layout', 'text': text}
            try:
                spelt = list(bytes.fromhex(text))
            except ValueError:
                spelt = None
            want = spelt if spelt is not None and midi1.accept(spelt) else None
            try:
                m = Message.from_hex(text)
                ctx.check('from_hex rejects' if want is None else 'from_hex accepts', want is not None and m.bytes() == want,
                          'from_hex-layout-accepted' if want is None else 'from_hex-layout-differs', case, lambda: {'got': repr(m)[:120], 'spells': spelt})
            except ValueError as exc:
                ctx.check('from_hex accepts' if want is not None else 'from_hex rejects', want is None, 'from_hex-layout-rejected', case,
                          lambda: {'error': str(exc)[:100], 'spells': spelt})
            except Exception as exc:
                ctx.check('exception class', False, f'from_hex-layout-{type(exc).__name__}', case, f'{type(exc).__name__}: {exc}')
            n += 1
    return n


def perturbed_sample(ctx):
    """Repeat a sample of the grid after other (often failing) mido calls:
    state leaked by them into the decoder would show."""
    from .. import gen
    sample = [[0x90, 200, 0], [0x90, 1, 0x80], [0xE0, 0x90, 0x90], [0xE0, 1], [0xE0, 1, 2, 3], [0x90, 60.0, 64],
              [0x90, -1, 0], [0x90, 256, 0], [0xF0, 200, 0xF7], [0xF0, 1, 2], [0xF0, 1, 0xF7, 0x90, 1, 2],
              [0xF0, 0xF7, 0], [0xF4], [0x00], [-1], [-112, 1, 2], [0xC0, 0xFF], [0xF1, 0x80], [0xF2, 1, 0x80],
              [0xF3, 128], [0x90, 1, 2], [0xF0, 1, 0xF7], [0xF8], [0xF8, 0], [0xB0, 1, 2, 3], [0xD0],
              [0x90, None, 1], [0x90, '1', 1]]
    n = 0
    for name, thunk in gen.perturbations():
        gen.run_quietly(thunk)
        for seq in sample:
            check_seq(ctx, seq, list)
            n += 1
    return n


def run(ctx):
    n = 0
    if ctx.shard == 0:
        check_seq(ctx, [])
        n += 1
        for cont in CONTAINERS:
            check_seq(ctx, [], cont)
            n += 1
        ctx.nontrivial(None, 5)
    # lengths 1..3: first bytes partitioned over shards (exhaustive, both tiers)
    k = 0
    for s0 in range(256):
        if s0 % ctx.nshards == ctx.shard:
            k += exhaustive_first_byte(ctx, s0)
    ctx.nontrivial(None, k)
    ctx.extra('exhaustive_len_le_3_strings', k)
    n += k
    ctx.exhaustive = True
    # length 4..7 grids
    g = 0
    for j, seq in enumerate(grid_cases(ctx.tier)):
        if j % ctx.nshards != ctx.shard:
            continue
        check_seq(ctx, seq, CONTAINERS[j % 4])
        g += 1
        if j % 50021 == ctx.shard:
            ctx.put_sample({'seq': seq, 'accepted_by_reference': midi1.accept(seq)})
    ctx.nontrivial(None, g)
    ctx.extra('grid_len_4_7_strings', g)
    n += g
    if ctx.shard == 1 % ctx.nshards:
        h = history_cases(ctx)
        ctx.nontrivial(None, h)
        ctx.extra('odd_item_and_history_cases', h)
        n += h
    if ctx.shard == 3 % ctx.nshards:
        h = perturbed_sample(ctx)
        ctx.nontrivial(None, h)
        ctx.extra('cases_repeated_after_perturbations', h)
        n += h
    if ctx.shard == 4 % ctx.nshards:
        h = array_and_long_cases(ctx) + nested_sequence_cases(ctx) + positional_time_cases(ctx) + subclass_decoder_cases(ctx) + backend_delivery_cases(ctx)
        ctx.nontrivial(None, h)
        ctx.extra('array_and_long_sysex_cases', h)
        n += h
    if ctx.shard == 2 % ctx.nshards:
        h = hex_cases(ctx) + hex_layout_cases(ctx) + trailing_byte_cases(ctx)
        ctx.nontrivial(None, h)
        n += h
    from .. import coldstart
    n += coldstart.phase(ctx, overlap_jobs(), 'bytes()==input', kind='cold', offset=5)
    ctx.count('cases', n)
    for s in ([0xE0], [0xE0, 1, 2, 3], [0xF0, 1, 2], [0x90, 60, 64], [0xF1, 1, 2]):
        if ctx.shard == 0:
            ctx.put_sample({'seq': s, 'accepted_by_reference': midi1.accept(s)})


def overlap_jobs():
    """Two threads decode at once - messages of the same types with other values, and the very same strings (steady
    state, one pre-emption anywhere in the decoder's modules): each gets the message of its own bytes."""
    from ..coldstart import msg_want

    def dec(t, a, fn='from_bytes'):
        enc = midi1.encode(t, a)
        return {'fn': fn, 'arg': ' '.join(f'{b:02X}' for b in enc) if fn == 'from_hex' else enc, 'want': msg_want(t, a)}
    a1 = [dec('note_on', {'channel': 0, 'note': 60, 'velocity': 64}), dec('control_change', {'channel': 1, 'control': 7, 'value': 100}),
          dec('program_change', {'channel': 2, 'program': 5}), dec('pitchwheel', {'channel': 3, 'pitch': -1}),
          dec('sysex', {'data': [1, 2, 3]}), dec('songpos', {'pos': 300}, 'from_hex')]
    a2 = [dec('note_on', {'channel': 3, 'note': 61, 'velocity': 1}), dec('control_change', {'channel': 7, 'control': 100, 'value': 0}),
          dec('program_change', {'channel': 5, 'program': 0}), dec('pitchwheel', {'channel': 4, 'pitch': -2}),
          dec('sysex', {'data': [4]}), dec('songpos', {'pos': 5}, 'from_hex')]
    mods = ['mido.messages.decode', 'mido.messages.messages', 'mido.messages.specs', 'mido.messages.checks']
    return [{'modules': mods, 'fresh': False, 'jobs': [a1, a2], 'k': 1},
            {'modules': mods, 'fresh': False, 'jobs': [a1[:3] + a2[:3], a2[:3] + a1[:3]], 'k': 1},
            {'modules': mods, 'jobs': [a1[:2], a2], 'k': 1}]


def _unrepr(x):
    if isinstance(x, str):
        try:
            return eval(x, {'Fraction': fractions.Fraction, 'Decimal': decimal.Decimal,  # noqa: S307
                            'nan': float('nan')})
        except Exception:
            return x
    return x


def replay(ctx, case):
    if case['kind'] == 'seq':
        cont = {'list': list, 'tuple': tuple, 'bytes': bytes,
                'bytearray': bytearray}[case['container']]
        check_seq(ctx, [_unrepr(x) for x in case['seq']], cont)
    elif case['kind'] in ('array', 'long-sysex', 'long-seq'):
        array_and_long_cases(ctx)
    elif case['kind'] == 'history':
        history_cases(ctx)
    elif case['kind'] in ('hex', 'hex-sep'):
        hex_cases(ctx)
    elif case['kind'] == 'hex-layout':
        hex_layout_cases(ctx)
    elif case['kind'] == 'cold':
        from .. import coldstart
        coldstart.replay(ctx, case, 'bytes()==input')
    elif case['kind'] == 'subclass-decoder':
        subclass_decoder_cases(ctx)
    elif case['kind'] == 'backend-delivery':
        backend_delivery_cases(ctx)
    elif case['kind'] == 'trailing-byte':
        trailing_byte_cases(ctx)
