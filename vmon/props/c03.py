"""C03 - No invalid message state is reachable through the checked API.

Invariant monitor round every checked entry point of Message (constructor,
copy, attribute assignment, delattr, from_dict, from_str, sysex data +=):
after every call the object(s) involved are judged by an independent validity
predicate (vmon.ref.midi1.valid_vars) and compared with snapshots taken before
the call.
"""
import decimal
import fractions
import random
from numbers import Integral, Real

import mido
from mido import Message

from .. import gen
from ..ref import midi1

ID = 'C03'
ANCHORS = ['mido.messages.checks', 'mido.messages.messages', 'mido.messages.specs']
LEVEL = 'exploration'
RULE = ('grid: every attribute (and time) of every type x a value pool (both range '
        'limits and the values just beyond, huge ints, wrong types, equal-valued '
        'non-int twins offered after the int form was validated) x 5 entry points '
        '(constructor, copy, setattr, from_dict, from_str) plus sysex data assignment '
        'and +=, unknown attribute names and unknown type names; histories: 5-40 '
        'accepted/rejected assignments on ONE object with a shadow model. A case is '
        'distinct by (type, attribute, repr(value), entry point) or by history seed, '
        'and non-trivial when the entry point was really called and the resulting '
        'object(s) judged by the validity predicate and snapshot comparison')
ASSUMPTIONS = [
    'value domains are those of docs/message_types.rst as transcribed in vmon/ref/midi1.py',
    'bool values (bool is an Integral) and Decimal times are generated but their acceptance is not judged; the resulting state still is',
    'calls with skip_checks=True are excluded by the statement',
]
DECIDING = ['state valid after accept', 'reject leaves original unchanged',
            'out-of-domain rejected', 'documented value accepted', 'exception class',
            'history state == model']
TIMEOUT = {'quick': 300, 'thorough': 1800}
OKEXC = (ValueError, TypeError, AttributeError)
ENTRY = ('ctor', 'copy', 'setattr', 'from_dict', 'from_str', 'parse_string', 'parse_string_stream')
TEXT_ENTRY = ('from_str', 'parse_string', 'parse_string_stream')


def nshards(tier):
    return 16


class Unjudged:
    pass


class MyInt(int):
    """An Integral that is not exactly int."""


def int_pool(name):
    lo, hi = midi1.DOMAIN[name]
    mid = (lo + hi) // 2
    dflt = midi1.DEFAULTS[name]
    good = sorted({lo, lo + 1, mid, hi - 1, hi, dflt})
    bad = [lo - 1, hi + 1, lo - 2 ** 31, hi + 2 ** 31, -2 ** 64, 2 ** 64, hi + 129, hi + 200, hi + 385, 1000, 2 ** 14 + hi + 1,
           lo - 129, lo - 200, lo - 1000, 2 ** 31, 2 ** 32 + 5, -2 ** 31, 1.5, '1', 'x', None,
           [1], (1,), 1j, fractions.Fraction(1, 2), float('nan'), float('inf'), b'\x01',
           {}, object]
    # equal-valued non-int twins of values that were certainly validated before
    for x in (lo, hi, mid, dflt, 1 if lo <= 1 <= hi else lo):
        bad += [float(x), fractions.Fraction(x), decimal.Decimal(x)]
    import enum
    Big = enum.IntEnum('Big', {'OVER': hi + 1, 'UNDER': lo - 1, 'FAR': hi + 1000})
    bad += [MyInt(hi + 1), MyInt(lo - 1), MyInt(hi + 300), Big.OVER, Big.UNDER, Big.FAR]
    bad = [v for v in bad if not (isinstance(v, int) and not isinstance(v, bool) and lo <= v <= hi)]
    unj = [True, False]
    return good, bad, unj


def time_pool():
    good = [0, 1, -3, 10 ** 30, 0.5, -0.0, 1e300, 5e-324, float('inf'), float('nan'),
            fractions.Fraction(1, 3)]
    bad = ['1', 'x', None, [1], (1,), 1j, b'1', {}, object]
    unj = [True, decimal.Decimal(1)]
    return good, bad, unj


def tainted_sysexdata():
    """SysexData objects that never went through a check."""
    from mido.messages.messages import SysexData
    return [SysexData([200]), SysexData([1, -1]), SysexData([1.5]),
            Message('sysex', data=[1, 300], skip_checks=True).data,
            Message('sysex').copy(skip_checks=True, data=[128]).data]


def data_pool():
    good = [(), [], (0,), [127], [1, 2, 3], b'\x01\x02', bytearray(b'\x7f'), range(3),
            tuple(range(128)), (0,) * 300, [0, 127] * 700, bytes(1500)]
    bad = [5, 1.5, None, [128], [-1], [1.0], [None], [[1]], ['1'], 'abc', [1, 2, 256],
           (1, 2.0), [fractions.Fraction(1)], [1j], [2 ** 64], b'\x80', bytearray(b'\xff'),
           object] + tainted_sysexdata() + [
               [0] * 600 + [1.5] + [127] * 600, tuple([0] + [5] * 1100 + [fractions.Fraction(1, 2)] + [127]),
               [0] * 2000 + [64.0] + [127], [0] * 1024 + [128], [127] * 1023 + [-1] + [0] * 10,
               bytearray([0] * 1500 + [200])]
    unj = [True, '', {}, {1: 2}, [True]]
    return good, bad, unj


def textual(v):
    """Text form of v for from_str, or None when there is none."""
    if isinstance(v, bool):
        return None
    if isinstance(v, int):
        return str(v)
    if isinstance(v, float):
        return repr(v)
    if isinstance(v, str) and v and ' ' not in v:
        return v
    if isinstance(v, (tuple, list)) and all(isinstance(x, int) and not isinstance(x, bool) for x in v):
        return '(' + ','.join(str(x) for x in v) + ')'
    return None


def snap(m):
    v = vars(m)
    return {k: (x, type(x), id(x)) for k, x in v.items()}


def unchanged(m, s):
    v = vars(m)
    return (set(v) == set(s)
            and all((v[k] is s[k][0]) or (type(v[k]) is s[k][1] and v[k] == s[k][0]
                                          and not isinstance(v[k], float))
                    or (type(v[k]) is s[k][1] and repr(v[k]) == repr(s[k][0]))
                    for k in v))


def rv(v):
    try:
        r = repr(v)
    except Exception as exc:    # a message whose state is already broken
        r = f'<repr failed: {type(exc).__name__}: {exc}; vars={getattr(v, "__dict__", None)!r}>'
    return r if len(r) < 60 else r[:57] + '...'


def judge_call(ctx, t, name, v, expect, entry, base_attrs=None):
    """Call one entry point with attribute `name` = v on type t.
    expect: True (documented value, must be accepted), False (out of domain,
    must be rejected) or None (not judged)."""
    case = lambda: {'kind': 'grid', 'type': t, 'attr': name, 'value': rv(v),  # noqa: E731
                    'entry': entry, 'expect': expect}
    key = f'{entry}:{name}'
    base_attrs = base_attrs or {}
    base = Message(t, **base_attrs)
    before = snap(base)
    result = None
    raised = None
    try:
        if entry == 'ctor':
            result = Message(t, **{**base_attrs, name: v})
        elif entry == 'copy':
            # (the flag by keyword, by position, or left out: checks are on in all three)
            style = (len(name) + len(t)) % 3
            result = base.copy(**{name: v}) if style == 0 else base.copy(False, **{name: v}) if style == 1 else base.copy(skip_checks=False, **{name: v})
        elif entry == 'setattr':
            setattr(base, name, v)
            result = base
        elif entry == 'from_dict':
            result = Message.from_dict({'type': t, **base_attrs, name: v})
        elif entry == 'from_str':
            result = Message.from_str(f'{t} {name}={textual(v)}')
        elif entry == 'parse_string':
            result = mido.parse_string(f'{t} {name}={textual(v)}')
        elif entry == 'parse_string_stream':
            import io
            (result, err), = list(mido.parse_string_stream(io.StringIO(f'{t} {name}={textual(v)}\n')))
            if result is None:
                raise ValueError(err)
        elif entry == 'iadd':
            base.data += v
            result = base
    except OKEXC as exc:
        raised = exc
    except Exception as exc:
        ctx.check('exception class', False, f'{key}:{type(exc).__name__}', case,
                  f'{type(exc).__name__}: {exc}')
        raised = exc
    else:
        ctx.count('exception class')
    if raised is not None:
        ctx.count('exception class')
        if entry in ('setattr', 'iadd', 'copy'):
            ctx.check('reject leaves original unchanged', unchanged(base, before),
                      f'{key}:original-changed', case,
                      lambda: {'before': {k: rv(x[0]) for k, x in before.items()},
                               'after': {k: rv(x) for k, x in vars(base).items()}})
        if expect is True:
            ctx.check('documented value accepted', False, f'{key}:rejected-valid', case,
                      f'{type(raised).__name__}: {raised}')
        elif expect is False:
            ctx.count('out-of-domain rejected')
        return
    # the call returned
    why = midi1.valid(result)
    ctx.check('state valid after accept', why is None, f'{key}:invalid-state', case, why)
    if entry in ('copy',):
        ctx.check('reject leaves original unchanged', unchanged(base, before),
                  f'{key}:original-changed-by-copy', case,
                  lambda: {k: rv(x) for k, x in vars(base).items()})
        ctx.check('copy is a new object', result is not base, f'{key}:copy-is-self', case, None)
    if expect is False:
        ctx.check('out-of-domain rejected', False, f'{key}:accepted-invalid', case,
                  lambda: rv(result))
    elif expect is True:
        ctx.count('documented value accepted')
        # the stored value is the one given
        got = vars(result).get(name)
        if name == 'data':
            want = tuple(base_attrs.get('data', ())) + tuple(v) if entry == 'iadd' else None
            ok = want is None or tuple(got) == want
        elif entry in TEXT_ENTRY:
            ok = got == v or (got != got and v != v)
        else:
            ok = (got == v or (got != got and v != v)) and vars(result)['type'] == t
        ctx.check('accepted value stored', ok, f'{key}:stored-differs', case, lambda: rv(got))


def grid_for_type(ctx, t):
    n = 0
    names = list(midi1.ATTRS[t]) + ['time']
    for name in names:
        if name == 'data':
            good, bad, unj = data_pool()
        elif name == 'time':
            good, bad, unj = time_pool()
        else:
            good, bad, unj = int_pool(name)
        for entry in ENTRY:
            # generators can be consumed only once: build them per call
            pool = [(v, True) for v in good] + [(v, False) for v in bad] + [(v, None) for v in unj]
            for v, expect in pool:
                if entry in TEXT_ENTRY:
                    tv = textual(v)
                    if tv is None:
                        continue
                    # text has its own grammar: a float literal for an int
                    # attribute or any non-numeric text must be rejected; the
                    # numeric value decides otherwise
                    if name == 'time' and isinstance(v, float) and (v != v or v in (float('inf'), float('-inf'))):
                        expect = None      # 'nan'/'inf' texts: float() accepts them; not judged
                    if isinstance(v, str):
                        try:
                            float(v)
                            continue        # numeric text: covered by the numeric values
                        except ValueError:
                            expect = False
                    if name == 'data' and isinstance(v, (list, tuple)):
                        v = list(v)
                judge_call(ctx, t, name, v, expect, entry)
                ctx.nontrivial((t, name, rv(v), entry))
                n += 1
        if name == 'data':
            for v, expect in ([(v, True) for v in good] + [(v, False) for v in bad]
                              + [(v, None) for v in unj]):
                judge_call(ctx, t, 'data', v, expect, 'iadd', {'data': (1, 2)})
                ctx.nontrivial((t, 'data', rv(v), 'iadd'))
                n += 1
            # generators
            for entry in ('ctor', 'copy', 'setattr', 'from_dict', 'iadd'):
                judge_call(ctx, t, 'data', (x for x in (1, 2, 3)), True, entry)
                judge_call(ctx, t, 'data', (x for x in (1, 300)), False, entry)
                n += 2
    # unknown / foreign attribute names
    foreign = ['foo', 'Note', '', 'bytes', '__class__', '_x'] + \
        [a for a in list(midi1.DOMAIN) + ['data'] if a not in midi1.ATTRS[t]]
    # slips of the pen: every real name of this type (time and type included) misspelt the ways people misspell
    real = set(midi1.ATTRS[t]) | {'time', 'type'}
    for a in sorted(real):
        for typo in (a.capitalize(), a.upper(), a[:-1], a[1:], a + 's', a + '_', '_' + a, a[0] + a[2:], a[1] + a[0] + a[2:],
                     a.replace('e', 'a', 1), a + a[-1]):
            if typo and typo not in real and typo not in foreign and typo.isidentifier():
                foreign.append(typo)
    for name in foreign:
        for entry in ENTRY:
            if entry in TEXT_ENTRY and not name:
                continue
            judge_call(ctx, t, name, 1 if name != 'data' else (1,), False, entry)
            ctx.nontrivial((t, name, 'foreign', entry))
            n += 1
    # a name without a value, a value without a name, a lone '=': refused as a ValueError like any other bad text
    for name in list(midi1.ATTRS[t]) + ['time']:
        for text in (f'{t} {name}=', f'{t} ={name}', f'{t} =', f'{t} {name}', f'{t} {name}==1', f'{t} {name}=1=2'):
            for entry in TEXT_ENTRY:
                case_e = {'kind': 'empty-value', 'type': t, 'text': text, 'entry': entry}
                try:
                    if entry == 'from_str':
                        r = Message.from_str(text)
                    elif entry == 'parse_string':
                        r = mido.parse_string(text)
                    else:
                        import io
                        (r, err), = list(mido.parse_string_stream(io.StringIO(text + '\n')))
                        if r is None:
                            raise ValueError(err)
                    ctx.check('out-of-domain rejected', False, f'{entry}:malformed-pair-accepted', case_e, rv(r))
                except ValueError:
                    ctx.count('out-of-domain rejected')
                except Exception as exc:
                    ctx.check('exception class', False, f'{entry}:malformed-pair:{type(exc).__name__}', case_e, f'{type(exc).__name__}: {exc}')
                n += 1
    # names of parameters of the constructor and of internal helpers are not attributes either: in a
    # text or a dict they must not switch anything off
    ints = [a for a in midi1.ATTRS[t] if a != 'data']
    for pname in ('skip_checks', 'args', 'kwargs', 'self', 'cl', 'cls', 'msgdict', 'overrides', 'check'):
        for truthy in ('1', 'True'):
            for name in ints[:2] or ['time']:
                bad = 'x' if name == 'time' else str(midi1.DOMAIN[name][1] + 872)
                text = f'{t} {pname}={truthy} {name}={bad}'
                for entry in TEXT_ENTRY:     # (a dict IS the constructor's keyword arguments: skip_checks there is 'with skip_checks')
                    case_p = {'kind': 'param-name', 'type': t, 'text': text, 'entry': entry}
                    try:
                        if entry == 'from_str':
                            r = Message.from_str(text)
                        elif entry == 'parse_string':
                            r = mido.parse_string(text)
                        else:
                            import io
                            (r, err), = list(mido.parse_string_stream(io.StringIO(text + '\n')))
                            if r is None:
                                raise ValueError(err)
                        ctx.check('out-of-domain rejected', False, f'{entry}:{pname}-switches-checks-off', case_p, rv(r))
                    except OKEXC:
                        ctx.count('out-of-domain rejected')
                    except Exception as exc:
                        ctx.check('exception class', False, f'{entry}:{pname}:{type(exc).__name__}', case_p, str(exc))
                    n += 1
    # a positional type together with a type= keyword (the same or another one) is a contradiction in terms
    for other_t in ('note_on', 'sysex', 'clock', 'polytouch', t, 0x90, 0xF0):
        case_t = {'kind': 'type-attr', 'type': t, 'keyword_type': repr(other_t)}
        for how in ('ctor', 'int-type'):
            try:
                if how == 'ctor':
                    r = Message(t, **{'type': other_t})
                else:
                    if not isinstance(other_t, int):
                        continue
                    r = Message(other_t)
                why = midi1.valid(r)
                ctx.check('state valid after accept', why is None and isinstance(r.type, str), f'{how}:type-conflict:invalid-state',
                          case_t, lambda: {'why': why, 'msg': repr(vars(r))[:120]})
            except OKEXC:
                ctx.count('out-of-domain rejected')
            except Exception as exc:
                ctx.check('exception class', False, f'{how}:type-conflict:{type(exc).__name__}', case_t, str(exc))
            n += 1
    for st in (0x80, 0x90, 0xB3, 0xF0, 0xF8, 144.0):
        for entry in ('from_dict',):
            case_t = {'kind': 'type-attr', 'type': repr(st)}
            try:
                r = Message.from_dict({'type': st})
                ctx.check('out-of-domain rejected', False, 'from_dict:status-byte-as-type', case_t, repr(vars(r))[:120])
            except OKEXC:
                ctx.count('out-of-domain rejected')
            except Exception as exc:
                ctx.check('exception class', False, f'from_dict:type:{type(exc).__name__}', case_t, str(exc))
            n += 1
    # the type attribute
    other = 'note_off' if t != 'note_off' else 'note_on'
    for entry in ('copy', 'setattr'):
        judge_call(ctx, t, 'type', other, False, entry)
        n += 1
    case = {'kind': 'type-attr', 'type': t}
    m = Message(t)
    s = snap(m)
    try:
        c = m.copy(type=t)
        ctx.check('state valid after accept', midi1.valid(c) is None and c == m and c is not m,
                  'copy:type-same', case, rv(c))
    except OKEXC:
        pass
    # deletion
    for name in list(vars(m)) + ['foo']:
        try:
            delattr(m, name)
            ctx.check('attributes cannot be deleted', False, 'delattr:succeeded',
                      {'kind': 'delattr', 'type': t, 'attr': name}, rv(m))
            m = Message(t)
        except OKEXC:
            ctx.check('attributes cannot be deleted', unchanged(m, s), 'delattr:changed',
                      {'kind': 'delattr', 'type': t, 'attr': name}, rv(m))
        except Exception as exc:
            ctx.check('exception class', False, f'delattr:{type(exc).__name__}',
                      {'kind': 'delattr', 'type': t, 'attr': name}, f'{type(exc).__name__}: {exc}')
        n += 1
    return n


BAD_TYPES = ['bogus', '', 'NOTE_ON', 'note on', 'set_tempo', 'end_of_track', 'unknown_meta',
             None, 5, 0x90, 1.5, b'note_on', ('note_on',)]


ALIAS_LIKE = ['cc', 'pc', 'pitch_bend', 'pitchbend', 'bend', 'channel_pressure', 'poly_pressure', 'polyphonic_aftertouch',
              'key_pressure', 'system_exclusive', 'sys_ex', 'SysEx', 'syx', 'noteon', 'note-on', 'NoteOn', 'Note_On', 'noteoff',
              'program', 'control', 'controller', 'mtc', 'time_code', 'song_position', 'song_position_pointer', 'song', 'tune',
              'timing_clock', 'active_sense', 'system_reset', 'cont', 'sysex ', ' sysex', 'sysex\n', 'note_on\x00']


def alias_like_types(ctx):
    """Other spellings of the 18 type names.  Whether the constructor knows such a name is its business; if it does, what
    comes out is a message like any other: one of the 18 types, every attribute in range, sysex data immutable and the
    message's own, a rejected += without effect."""
    n = 0
    for name in ALIAS_LIKE:
        for entry in ('ctor', 'from_dict', 'from_str'):
            case = {'kind': 'alias-like-type', 'type': name, 'entry': entry}
            mine = [1, 2, 3]
            try:
                if entry == 'ctor':
                    r = Message(name)
                elif entry == 'from_dict':
                    r = Message.from_dict({'type': name})
                else:
                    if not name.strip() or name != name.strip() or '\x00' in name:
                        continue
                    r = Message.from_str(name)
            except OKEXC:
                ctx.count('out-of-domain rejected')
                n += 1
                continue
            except Exception as exc:
                ctx.check('exception class', False, f'{entry}:type:{type(exc).__name__}', case, f'{type(exc).__name__}: {exc}')
                n += 1
                continue
            n += 1
            why = midi1.valid(r)
            ok = why is None
            ctx.check('state valid after accept', ok, f'{entry}:alias-type-invalid-message', case, rv(r))
            if not ok or 'data' not in vars(r):
                continue
            # a sysex by another name
            try:
                r = Message(name, data=mine) if entry != 'from_dict' else Message.from_dict({'type': name, 'data': mine})
                mine.append(200)
                ctx.check('state valid after accept', tuple(r.data) == (1, 2, 3) and isinstance(r.data, tuple),
                          f'{entry}:alias-type-keeps-callers-list', case, rv(r.data))
                before = snap(r)
                try:
                    r.data += [4, 200]
                    ctx.check('out-of-domain rejected', False, f'{entry}:alias-type-iadd-accepted', case, rv(r.data))
                except OKEXC:
                    ctx.check('reject leaves original unchanged', unchanged(r, before), f'{entry}:alias-type-iadd-mutated', case, rv(r.data))
                c = r.copy()
                ctx.check('state valid after accept', c.data is not mine and tuple(c.data) == tuple(r.data), f'{entry}:alias-type-copy', case, rv(c.data))
            except OKEXC as exc:
                ctx.check('documented value accepted', False, f'{entry}:alias-type-refuses-data', case, f'{type(exc).__name__}: {exc}')
    return n


def lifetime_churn_cases(ctx):
    """Thousands of messages that were built without checks (skip_checks=True, as a file reader or a port builds them) are
    copied, handed on and dropped; the memory they lived in is used again.  Messages built afterwards are checked like
    any other: every invalid override, assignment and += is refused."""
    import gc
    import mido
    n = 0
    for round_ in range(3):
        pool = [Message('note_on', note=i % 128, velocity=(i * 7) % 128, skip_checks=True) for i in range(1500)]
        pool += [Message('sysex', data=(i % 128,), skip_checks=True) for i in range(500)]
        port = mido.ports.EchoPort('churn')
        copies = [m.copy() for m in pool]
        for m in pool[:400]:
            port.send(m)
        got = list(port.iter_pending())
        port.close()
        del pool, copies, got
        gc.collect()
        fresh = [Message('note_on', note=i % 128, velocity=i % 128) for i in range(4000)] + \
                [Message('sysex', data=(1, 2)) for _ in range(500)]
        accepted = []
        for i, m in enumerate(fresh):
            for how in ('copy', 'setattr'):
                try:
                    if m.type == 'sysex':
                        if how == 'copy':
                            r = m.copy(data=[1, 200])
                        else:
                            m.data += [300]
                            r = m
                    elif how == 'copy':
                        r = m.copy(note=128) if i % 3 == 0 else m.copy(velocity=None) if i % 3 == 1 else m.copy(time='later')
                    else:
                        m.note = 128
                        r = m
                    accepted.append((i, how, repr(r)[:80]))
                except OKEXC:
                    pass
                n += 1
        ctx.check('out-of-domain rejected', not accepted, 'accepted-invalid-after-unchecked-messages-died',
                  {'kind': 'lifetime-churn', 'round': round_}, lambda: {'accepted': len(accepted), 'first': accepted[:3]})
    return n


def unknown_types(ctx):
    n = 0
    for bt in BAD_TYPES:
        for entry in ('ctor', 'from_dict', 'from_str'):
            case = {'kind': 'badtype', 'type': rv(bt), 'entry': entry}
            try:
                if entry == 'ctor':
                    r = Message(bt)
                elif entry == 'from_dict':
                    r = Message.from_dict({'type': bt})
                else:
                    if not isinstance(bt, str) or not bt or ' ' in bt:
                        continue
                    r = Message.from_str(bt + ' time=0')
                ctx.check('out-of-domain rejected', False, f'{entry}:unknown-type-accepted',
                          case, rv(r))
            except OKEXC:
                ctx.count('out-of-domain rejected')
                ctx.count('exception class')
            except Exception as exc:
                ctx.check('exception class', False, f'{entry}:type:{type(exc).__name__}', case,
                          f'{type(exc).__name__}: {exc}')
            n += 1
    n += alias_like_types(ctx)
    # unhashable type names
    for bt in ([], {}):
        try:
            Message(bt)
            ctx.check('out-of-domain rejected', False, 'ctor:unknown-type-accepted',
                      {'kind': 'badtype', 'type': rv(bt)}, None)
        except OKEXC:
            ctx.count('out-of-domain rejected')
        except Exception as exc:
            ctx.check('exception class', False, f'ctor:type:{type(exc).__name__}',
                      {'kind': 'badtype', 'type': rv(bt)}, f'{type(exc).__name__}: {exc}')
        n += 1
    return n


def odd_time_texts(ctx):
    """The time word of a message text, written the odd ways a number can be written: the outcome is a message with a real
    time or one of the three allowed exception classes - never another exception, never a time that is no real number."""
    import mido
    n = 0
    words = ('1/0', '0/0', '-1/0', '1/2', '3/4', '1e999', '-1e999', 'nan', 'inf', '1_0', '0x10', '0b1', '1j', '1+2j', '٣', '1e-400', '--1',
             '1.', '.5', '.', 'e5', '1e', 'None', 'True', '1/', '/1', '1//2', '1 /2', '2**3', '(1)', '1,5', "'1'", '1' * 400, '0' * 400 + '.5')
    for w in words:
        for entry in (lambda t: Message.from_str(t), lambda t: mido.parse_string(t), lambda t: list(mido.parse_string_stream([t]))):
            case = {'kind': 'odd-time-text', 'word': w[:40]}
            try:
                r = entry(f'note_on channel=1 note=2 time={w}')
                msgs = [r] if isinstance(r, Message) else [m for m, err in r if m is not None]
                ok = all(isinstance(m.time, (int, float)) and not isinstance(m.time, bool) and midi1.valid(m) is None for m in msgs)
                ctx.check('state valid after accept', ok, 'odd-time-text:accepted-invalid', case, [repr(m.time) for m in msgs])
            except OKEXC:
                ctx.count('out-of-domain rejected')
            except Exception as exc:
                ctx.check('exception class', False, f'odd-time-text:{type(exc).__name__}', case, f'{type(exc).__name__}: {exc}')
            n += 1
    return n


def history(ctx, t, seed, steps):
    """Random accepted/rejected assignments on ONE object with a shadow model."""
    rng = random.Random(seed)
    a = gen.random_attrs(t, rng)
    m = Message(t, **a)
    born = rng.choice(('ctor', 'ctor', 'from_dict(dict())', 'from_dict(json)', 'from_str', 'from_bytes', 'copy', 'pickle'))
    try:
        # the same message, come into being another way: its later life is the same
        if born == 'from_dict(dict())':
            m = Message.from_dict(m.dict())
        elif born == 'from_dict(json)':
            import json
            m = Message.from_dict(json.loads(json.dumps(m.dict())))
        elif born == 'from_str':
            m = Message.from_str(str(m))
        elif born == 'from_bytes':
            m = Message.from_bytes(m.bytes())
        elif born == 'copy':
            m = m.copy()
        elif born == 'pickle':
            import pickle
            m = pickle.loads(pickle.dumps(m))
    except Exception as exc:
        ctx.fail('documented value accepted', f'history:born:{born}:{type(exc).__name__}', {'kind': 'history', 'type': t, 'seed': seed, 'steps': steps},
                 f'{type(exc).__name__}: {exc}')
        return
    model = {'type': t, 'time': 0, **a}
    case = lambda: {'kind': 'history', 'type': t, 'seed': seed, 'steps': steps, 'born': born}  # noqa: E731
    names = list(midi1.ATTRS[t]) + ['time']
    log = []
    for i in range(steps):
        name = rng.choice(names + ['type', 'foo'])
        if name == 'data':
            good, bad, unj = data_pool()
        elif name == 'time':
            good, bad, unj = time_pool()
        elif name in ('type', 'foo'):
            good, bad, unj = [], ['note_off' if t != 'note_off' else 'note_on', 1, None], []
        else:
            good, bad, unj = int_pool(name)
        if good and rng.random() < 0.5:
            v, expect = rng.choice(good), True
        else:
            v, expect = rng.choice(bad), False
        op = 'set'
        if name == 'data' and rng.random() < 0.4:
            op = 'iadd'
        elif rng.random() < 0.15:
            op = 'copy'
        elif rng.random() < 0.05:
            op = 'del'
        elif rng.random() < 0.1:
            op = 'handle'
        log.append((op, name, rv(v)))
        try:
            if op == 'handle':
                # everyday handling between two edits: conversions whose results the caller edits, copies,
                # pickling, a frozen twin that is hashed and used as a key - or the message goes on as its own
                # thawed / pickled / deep-copied self.  The set of attributes and their values stay as they are.
                from .. import abuse
                abuse.handle(m)
                how = rng.choice(('stay', 'stay', 'thaw', 'pickle', 'deepcopy'))
                if how == 'thaw':
                    import mido.frozen as fz
                    f = fz.freeze_message(m)
                    hash(f)
                    m = fz.thaw_message(f)
                elif how == 'pickle':
                    import pickle
                    m = pickle.loads(pickle.dumps(m))
                elif how == 'deepcopy':
                    import copy
                    m = copy.deepcopy(m)
                expect = None
            elif op == 'set':
                setattr(m, name, v)
                if expect:
                    model[name] = tuple(v) if name == 'data' else v
            elif op == 'iadd':
                m.data += v
                if expect:
                    model['data'] = tuple(model['data']) + tuple(v)
            elif op == 'copy':
                c = m.copy(**{name: v})
                why = midi1.valid(c)
                ctx.check('state valid after accept', why is None, 'history:copy-invalid',
                          case, lambda: {'why': why, 'log': log[-5:]})
            else:
                delattr(m, name)
                ctx.check('attributes cannot be deleted', False, 'history:delattr', case, log[-3:])
            if expect is False and op != 'del':
                ctx.check('out-of-domain rejected', False, f'history:{op}:{name}:accepted-invalid',
                          case, lambda: log[-3:])
        except OKEXC:
            if expect is True and op != 'del':
                ctx.check('documented value accepted', False, f'history:{op}:{name}:rejected-valid',
                          case, lambda: log[-3:])
        except Exception as exc:
            ctx.check('exception class', False, f'history:{type(exc).__name__}', case,
                      f'{type(exc).__name__}: {exc} after {log[-3:]}')
        v_now = vars(m)
        same = (set(v_now) == set(model) and all(
            (v_now[k] == model[k] and type(v_now[k]) is type(model[k])) or
            (k == 'data' and tuple(v_now[k]) == tuple(model[k])) or
            (v_now[k] != v_now[k] and model[k] != model[k]) for k in model))
        ctx.check('history state == model', same, f'history:state-differs:{op}', case,
                  lambda: {'step': i, 'log': log[-4:], 'state': {k: rv(x) for k, x in v_now.items()},
                           'model': {k: rv(x) for k, x in model.items()}})
        why = midi1.valid(m)
        ctx.check('state valid after accept', why is None, 'history:invalid-state', case,
                  lambda: {'why': why, 'log': log[-4:]})
        if not same or why:
            return


def run(ctx):
    n = 0
    for i, t in enumerate(midi1.TYPES):
        if i % ctx.nshards == ctx.shard:
            k = grid_for_type(ctx, t)
            ctx.extra('grid_cases_per_type', {t: k})
            n += k
    if ctx.shard == ctx.nshards - 1:
        n += unknown_types(ctx)
        n += odd_time_texts(ctx)
    nh = 40 if ctx.tier == 'quick' else 3000
    for j in range(nh):
        for t in midi1.TYPES:
            seed = f'{ctx.seed}:{ctx.shard}:{j}:{t}'
            steps = random.Random(seed).randrange(5, 41)
            history(ctx, t, seed, steps)
            ctx.nontrivial(('hist', seed))
            n += 1
    ctx.extra('histories', nh * len(midi1.TYPES))
    if ctx.shard == 1 % ctx.nshards:
        k = lifetime_churn_cases(ctx)
        ctx.nontrivial(None, k)
        ctx.extra('lifetime_churn_calls', k)
        n += k
    from .. import coldstart
    n += coldstart.phase(ctx, cold_jobs(), 'state valid after accept', offset=2)
    ctx.count('cases', n)
    ctx.put_sample({'kind': 'grid', 'type': 'note_on', 'attr': 'note', 'value': '128',
                    'entry': 'setattr', 'expect': False})
    ctx.put_sample({'kind': 'grid', 'type': 'sysex', 'attr': 'data', 'value': '5',
                    'entry': 'copy', 'expect': False})
    ctx.put_sample({'kind': 'history', 'type': 'pitchwheel', 'seed': f'{ctx.seed}:{ctx.shard}:0:pitchwheel'})


def cold_jobs():
    """Cold start: the first constructions of a fresh interpreter, made by two threads."""
    from ..coldstart import msg_want

    def full(t, a):
        d = {n: (midi1.DEFAULTS.get(n, 0) if n != 'data' else []) for n in midi1.ATTRS[t]}
        d.update(a)
        return d

    def mk(fn, t, a):
        return {'fn': fn, 'type': t, 'attrs': a, 'want': msg_want(t, full(t, a))}
    pt = ('polytouch', {'note': 5})
    others = [mk('ctor', 'polytouch', {'value': 9, 'channel': 3}), mk('from_dict', 'polytouch', {}), mk('copy', 'polytouch', {'note': 1}),
              mk('ctor', 'note_on', {}), mk('ctor', 'sysex', {'data': [1, 2]}), mk('from_dict', 'pitchwheel', {'pitch': -1}),
              mk('ctor', 'clock', {}), mk('copy', 'note_on', {'velocity': 0})]
    mods = ['mido.messages.messages', 'mido.messages.checks', 'mido.messages.specs']
    return [{'modules': mods, 'jobs': [first, others], 'k': 1}
            for first in ([mk('ctor', *pt)], [mk('from_dict', 'note_on', {'note': 1})], [mk('copy', 'polytouch', {'value': 2})],
                          [mk('ctor', 'sysex', {'data': [3]}), mk('ctor', 'pitchwheel', {})])]


def replay(ctx, case):
    if case.get('kind') == 'lifetime-churn':
        lifetime_churn_cases(ctx)
        return
    if case.get('kind') == 'odd-time-text':
        odd_time_texts(ctx)
        return
    k = case['kind']
    if k == 'cold':
        from .. import coldstart
        coldstart.replay(ctx, case, 'state valid after accept')
        return
    if k == 'history':
        history(ctx, case['type'], case['seed'], case['steps'])
    elif k in ('grid', 'delattr', 'type-attr', 'empty-value', 'param-name'):
        grid_for_type(ctx, case['type'])
    else:
        unknown_types(ctx)
