"""C04 - The parser is total and sound on arbitrary byte streams.

Relational monitor on parse_all / Parser.feed / Parser.feed_byte / iteration.
No reference parser is used: the oracle is exactly the relation in the
statement (no exception; every message valid; defined real-time bytes
delivered exactly once and in order; the bytes of the other messages are a
subsequence of the input).  The byte-wise run additionally pins every emitted
message to the input position that completed it, which makes the subsequence
check position-exact (nothing duplicated or reordered).
"""
import itertools

import mido
from mido import Parser

from .. import gen
from ..ref import midi1

ID = 'C04'
ANCHORS = ['mido.tokenizer', 'mido.parser']
LEVEL = 'exploration'
RULE = ('every string up to length L over a 15-symbol alphabet with one representative '
        'per byte class (L=5 quick: 813 616 strings; L=6 thorough: 12.2 M; exhaustive to '
        'that bound, distinct by construction) plus long random streams biased towards '
        'status bytes (distinct by content hash); each stream goes through parse_all, a '
        'Parser fed in one call and a Parser fed byte by byte; a stream is non-trivial when '
        'at least one clause was evaluated on its output (all streams: totality is a clause)')
ASSUMPTIONS = [
    'validity predicate vmon/ref/midi1.py is a correct reading of the documented value ranges',
    'one representative per byte class stands for the class in the exhaustive part; the random part draws from all 256 values',
]
DECIDING = ['no exception', 'messages valid', 'realtime exactly once in order',
            'others subsequence of input', 'emitted at completing byte']
TIMEOUT = {'quick': 300, 'thorough': 2400}
RT = midi1.REALTIME_BYTES


def nshards(tier):
    return 16


def is_subseq(small, big):
    it = iter(big)
    return all(x in it for x in small)


class ByteLoopParser(Parser):
    """A user subclass that wants to see every byte: feed() is a loop over feed_byte()."""

    def feed(self, data):
        for b in data:
            self.feed_byte(b)


class ChunkParser(Parser):
    """The other way round: feed_byte() hands a one-item chunk to feed()."""

    def feed_byte(self, byte):
        self.feed([byte])


def judge_stream(ctx, data, kind, arrays=True):
    case = lambda: {'kind': 'stream', 'bytes': list(data), 'via': kind}  # noqa: E731
    key = kind
    # --- whole-stream paths
    outs = []
    for via in ('parse_all', 'feed'):
        try:
            if via == 'parse_all':
                msgs = mido.parse_all(list(data))
            else:
                p = Parser()
                p.feed(bytes(data))
                msgs = list(p)
        except Exception as exc:
            ctx.check('no exception', False, f'{via}:{type(exc).__name__}', case,
                      f'{type(exc).__name__}: {exc}')
            return None
        ctx.count('no exception')
        outs.append(msgs)
        bad = [repr(m) for m in msgs if midi1.valid(m) is not None]
        ctx.check('messages valid', not bad, f'{via}:invalid-message', case, bad[:3])
        rt_in = [b for b in data if b in RT]
        rt_out = [m.bytes()[0] for m in msgs if m.type in midi1.REALTIME_TYPES]
        ctx.check('realtime exactly once in order', rt_in == rt_out, f'{via}:realtime', case,
                  lambda: {'in': rt_in[:20], 'out': rt_out[:20]})
        other = [b for m in msgs if m.type not in midi1.REALTIME_TYPES for b in m.bytes()]
        ctx.check('others subsequence of input', is_subseq(other, data), f'{via}:subsequence',
                  case, lambda: other[:40])
    # --- byte-wise path with positions
    p = Parser()
    last_end = -1
    out3 = []
    for i, b in enumerate(data):
        try:
            p.feed_byte(b)
            new = list(p)
        except Exception as exc:
            ctx.check('no exception', False, f'feed_byte:{type(exc).__name__}', case,
                      f'at {i}: {type(exc).__name__}: {exc}')
            return None
        for m in new:
            mb = m.bytes()
            if m.type in midi1.REALTIME_TYPES:
                ok = mb == [b]
            else:
                ok = (mb[-1] == b and is_subseq(mb[:-1], data[last_end + 1:i]))
                last_end = i
            ctx.check('emitted at completing byte', ok, 'feed_byte:position', case,
                      lambda: {'at': i, 'byte': b, 'msg': mb[:20]})
        out3.extend(new)
    ctx.count('no exception')
    # the same, polled with get_message() after every byte (most of these polls find nothing) and pending()
    try:
        p = Parser()
        out4 = []
        for i, b in enumerate(data if (sum(data) + len(data)) % 3 == 0 or kind != 'enum' else ()):
            p.feed_byte(b)
            npend = p.pending()
            taken = 0
            while True:
                m = p.get_message()
                if m is None:
                    break
                out4.append(m)
                taken += 1
            if taken != npend:
                ctx.check('same result byte-wise', False, 'get_message-vs-pending', case, {'at': i, 'pending()': npend, 'taken': taken})
                break
        ctx.check('same result byte-wise', out4 == out3 or ((sum(data) + len(data)) % 3 != 0 and kind == 'enum'), 'get_message-polling-differs', case,
                  lambda: {'polled': [m.hex() for m in out4][:8], 'iterated': [m.hex() for m in out3][:8]})
    except Exception as exc:
        ctx.check('no exception', False, f'get_message-polling:{type(exc).__name__}', case, f'{type(exc).__name__}: {exc}')
    ctx.check('same result byte-wise', outs[0] == out3 and outs[1] == out3,
              'paths-differ', case,
              lambda: {'parse_all': [m.hex() for m in outs[0]][:8],
                       'bytewise': [m.hex() for m in out3][:8]})
    # every way of handing over the whole stream at once x every kind of iterable (one combination per
    # stream, rotating with the stream's content)
    import collections
    conts = (('list', list), ('tuple', tuple), ('bytes', bytes), ('bytearray', bytearray), ('generator', lambda d: (b for b in d)),
             ('iter', lambda d: iter(list(d))), ('map', lambda d: map(int, d)), ('memoryview', lambda d: memoryview(bytes(d))),
             ('deque', collections.deque))
    entries = ('parse_all', 'Parser(data)', 'parse', 'subclass: feed() loops over feed_byte()', 'subclass: feed_byte() calls feed()')
    h = sum((i + 1) * b for i, b in enumerate(data)) + len(data)
    for j in (0,):
        ename = entries[h % 5]
        cname, conv = conts[(h // 5) % len(conts)]
        try:
            if ename == 'parse_all':
                got = mido.parse_all(conv(data))
            elif ename == 'Parser(data)':
                got = list(Parser(conv(data)))
            elif ename.startswith('subclass: feed()'):
                got = list(ByteLoopParser(conv(data)))
            elif ename.startswith('subclass: feed_byte()'):
                sp = ChunkParser()
                for b in conv(data):
                    sp.feed_byte(b)
                got = list(sp)
            else:
                first = mido.parse(conv(data))
                got = [first] if first is not None else []
            want = outs[0][:1] if ename == 'parse' else outs[0]
            ctx.check('same result through every entry point', got == want, f'entry-differs:{ename}:{cname}', case,
                      lambda: {'entry': ename, 'container': cname, 'got': [m.hex() for m in got][:8],
                               'want': [m.hex() for m in want][:8]})
        except Exception as exc:
            ctx.check('no exception', False, f'entry:{ename}:{cname}:{type(exc).__name__}', case,
                      f'{ename}({cname}): {type(exc).__name__}: {exc}')
    # the same stream in two chunks of several container types, with the first chunk's
    # messages taken by a for-loop that is abandoned after its first message
    n = len(data)
    cuts = range(0, n + 1) if n <= 4 else (n // 2, (n * 2) // 3)
    for cut in cuts:
        for cont in (bytes, list):
            try:
                p = Parser()
                p.feed(cont(data[:cut]))
                got = []
                for m in p:
                    got.append(m)
                    break                      # abandon the loop
                p.feed(cont(data[cut:]))
                got.extend(p)
                got.extend(p)
            except Exception as exc:
                ctx.check('no exception', False, f'chunked:{type(exc).__name__}', case,
                          f'cut {cut} {cont.__name__}: {type(exc).__name__}: {exc}')
                return None
            ctx.check('same result in two chunks with an abandoned loop', got == out3,
                      f'chunked-differs:{cont.__name__}', case,
                      lambda: {'cut': cut, 'container': cont.__name__, 'got': [m.hex() for m in got][:8],
                               'want': [m.hex() for m in out3][:8]})
    # integers 0..255 in containers whose items are wider than a byte; clocks that jump between calls
    if arrays and (len(data) <= 64 or kind != 'enum'):
        import array
        for code in (('H', 'B') if kind == 'enum' else ('H', 'i', 'q', 'B')):
            try:
                p = Parser()
                with gen.jumping_clocks():
                    p.feed(array.array(code, data[:len(data) // 2]))
                    p.feed(memoryview(array.array(code, data[len(data) // 2:])) if code == 'B' else
                           array.array(code, data[len(data) // 2:]))
                got = list(p)
            except Exception as exc:
                ctx.check('no exception', False, f'array-{code}:{type(exc).__name__}', case, str(exc))
                return None
            ctx.check('same result in two chunks with an abandoned loop', got == out3, f'array-{code}-differs', case,
                      lambda: {'container': f'array({code!r})', 'got': [m.hex() for m in got][:8],
                               'want': [m.hex() for m in out3][:8]})
    # fresh objects
    ids = {id(m) for m in outs[0]}
    ctx.check('messages are distinct objects', len(ids) == len(outs[0]), 'aliased', case, None)
    return outs[0]


def enum_strings(L):
    for n in range(L + 1):
        yield from itertools.product(midi1.CLASS_ALPHABET, repeat=n)


def run(ctx):
    L = 5 if ctx.tier == 'quick' else 6
    shapes = set()
    bigrams = set()
    n = 0
    for j, s in enumerate(enum_strings(L)):
        if j % ctx.nshards != ctx.shard:
            continue
        msgs = judge_stream(ctx, list(s), 'enum', arrays=(j % 6 == 0))
        n += 1
        if msgs is not None:
            shapes.add(tuple(m.type for m in msgs))
        if j % 40009 == ctx.shard:
            ctx.put_sample({'bytes': ' '.join('%02X' % b for b in s),
                            'parsed': [str(m) for m in (msgs or [])]})
    ctx.nontrivial(None, n)
    ctx.extra('enumerated_strings', n)
    ctx.exhaustive = True
    nr = 2000 // ctx.nshards if ctx.tier == 'quick' else 100000 // ctx.nshards
    for j in range(nr):
        ln = ctx.rng.randrange(50, 2001 if j % 10 == 0 else 300)
        data = gen.random_stream(ctx.rng, ln, 0.5)
        msgs = judge_stream(ctx, data, 'random')
        for x, y in zip(data, data[1:]):
            bigrams.add((midi1.byte_class(x), midi1.byte_class(y)))
        ctx.nontrivial(hash(bytes(data)))
        n += 1
        if j == 0 and msgs is not None:
            ctx.put_sample({'random_stream_len': ln, 'messages': len(msgs),
                            'head': ' '.join('%02X' % b for b in data[:24])})
    ctx.extra('random_streams', nr)
    # an unfinished message P, a whole message W, then bytes C that would have completed P:
    # one stream, fed in three chunks (bytes and list) and byte by byte
    if ctx.shard in (10 % ctx.nshards, 11 % ctx.nshards):
        partial = [[0xF0, 1], [0xF0], [0x92, 1], [0xE3, 5], [0xF2, 7], [0xB0], [0xC5], [0xF1], [0xF0, 1, 0xF8]]
        whole = [[0x90, 0x40, 0x41], [0xC1, 5], [0xF8], [0xF6], [0xF3, 9], [0xF0, 3, 0xF7], [0xE0, 1, 2], [0xF2, 1, 2],
                 [0xFE], [0xD0, 7]]
        conts = [[2, 0xF7], [2], [2, 3], [0xF7], [], [0xF8, 2, 0xF7]]
        k = 0
        for P in partial:
            for W in whole:
                for C in conts:
                    k += 1
                    if k % 2 != ctx.shard % 2:
                        continue
                    data = P + W + C
                    ref = judge_stream(ctx, data, 'interrupted')
                    if ref is None:
                        continue
                    case = {'kind': 'stream', 'bytes': data, 'via': 'three-chunks'}
                    for cont in (bytes, list, bytearray):
                        try:
                            p = Parser()
                            got = []
                            for chunk in (P, W, C):
                                p.feed(cont(chunk))
                                if cont is list:
                                    got.extend(p)
                            got.extend(p)
                            ctx.check('same result in two chunks with an abandoned loop', got == ref,
                                      f'three-chunks-differs:{cont.__name__}', case,
                                      lambda: {'got': [m.hex() for m in got], 'want': [m.hex() for m in ref]})
                        except Exception as exc:
                            ctx.check('no exception', False, f'three-chunks:{type(exc).__name__}', case, str(exc))
                    ctx.nontrivial(('interrupted', tuple(data)))
                    n += 1
    # two parsers alive at the same time, fed alternately: each sees only its own stream
    if True:
        pairs = 400 if ctx.tier == 'quick' else 20000
        for j in range(pairs // ctx.nshards):
            d1 = gen.random_stream(ctx.rng, ctx.rng.randrange(3, 40), 0.4)
            d2 = gen.random_stream(ctx.rng, ctx.rng.randrange(3, 40), 0.4)
            if j % 3 == 0:
                d1 = [0xF0, 1, 2] + d1[:5] + [3, 0xF7]
                d2 = [0xF0, 9] + d2[:4] + [8, 0xF7, 0x90, 1, 2]
            case2 = {'kind': 'two-parsers', 'a': d1, 'b': d2}
            try:
                w1, w2 = mido.parse_all(d1), mido.parse_all(d2)
                p1, p2 = Parser(), Parser()
                g1, g2 = [], []
                i1 = i2 = 0
                while i1 < len(d1) or i2 < len(d2):
                    k = ctx.rng.randrange(1, 4)
                    if i1 < len(d1):
                        p1.feed(bytes(d1[i1:i1 + k]))
                        i1 += k
                    if ctx.rng.random() < 0.5:
                        g1.extend(p1)
                    k = ctx.rng.randrange(1, 4)
                    if i2 < len(d2):
                        p2.feed(d2[i2:i2 + k])
                        i2 += k
                    g2.extend(p2)
                g1.extend(p1)
                ctx.check('two live parsers are independent', g1 == w1 and g2 == w2, 'parsers-share-state', case2,
                          lambda: {'a_got': [m.hex() for m in g1][:6], 'a_want': [m.hex() for m in w1][:6],
                                   'b_got': [m.hex() for m in g2][:6], 'b_want': [m.hex() for m in w2][:6]})
            except Exception as exc:
                ctx.check('no exception', False, f'two-parsers:{type(exc).__name__}', case2, str(exc))
            ctx.nontrivial(('two', tuple(d1), tuple(d2)))
            n += 1
            # ... and one parser fed and read INSIDE the other's feed() call (the bytes of the first come
            # from a generator that, at some point, runs the second parser)
            for at in sorted({0, len(d1) // 3, len(d1) // 2, max(len(d1) - 1, 0)}):
                case3 = {'kind': 'nested-parsers', 'a': d1, 'b': d2, 'at': at}
                try:
                    p1, p2 = Parser(), Parser()
                    g2 = []

                    def source():
                        for i, b in enumerate(d1):
                            if i == at:
                                p2.feed(bytes(d2))
                                g2.extend(p2)
                            yield b
                    p1.feed(source())
                    g1 = list(p1)
                    ctx.check('two live parsers are independent', g1 == w1 and g2 == w2 and not p1.pending() and not p2.pending(),
                              'parser-inside-feed', case3,
                              lambda: {'a': [m.hex() for m in g1][:6], 'a_alone': [m.hex() for m in w1][:6],
                                       'b': [m.hex() for m in g2][:6], 'b_alone': [m.hex() for m in w2][:6]})
                except Exception as exc:
                    ctx.check('no exception', False, f'nested-parsers:{type(exc).__name__}', case3, f'{type(exc).__name__}: {exc}')
                n += 1
    # size ladders: long runs of data bytes / long sysex (status bytes are rare here)
    sizes = [253, 254, 255, 256, 257, 1023, 1024, 1025, 4095, 4096, 4097, 65535, 65536, 65537, 70000]
    for si, ln in enumerate(sizes):
        if si % ctx.nshards != ctx.shard:
            continue
        body = [ctx.rng.randrange(128) for _ in range(ln)]
        for variant in range(4):
            if variant == 0:
                data = [0xF0] + body + [0xF7]
            elif variant == 1:                       # real-time bytes inside
                data = [0xF0] + body[:ln // 2] + [0xF8] + body[ln // 2:] + [0xFE, 0xF7, 0x90, 1, 2]
            elif variant == 2:                       # stray data run, then a message
                data = body + [0xC3, 5]
            else:                                    # unterminated, then interrupted
                data = [0xF0] + body + [0x92, 1, 2, 0xF7]
            judge_stream(ctx, data, f'size-{ln}')
            ctx.nontrivial(('size', ln, variant))
            n += 1
    ctx.extra('size_ladder', set(sizes))
    # a sparse random stream (few status bytes) and a very long stream of one-byte messages:
    # more than 2**18 messages pending in one parser
    if ctx.shard == 7 % ctx.nshards:
        judge_stream(ctx, gen.random_stream(ctx.rng, 20000, 0.002), 'sparse')
        n += 1
    if ctx.shard == 9 % ctx.nshards:
        many = [ctx.rng.choice((0xF8, 0xFA, 0xFB, 0xFC, 0xFE, 0xFF, 0xF6)) for _ in range(2 ** 18 + 300)]
        many[1000:1000] = [0x90, 1, 2, 0xF0, 3, 0xF7]
        judge_stream(ctx, many, 'many-messages')
        ctx.nontrivial(('many', len(many)))
        ctx.extra('messages_in_longest_stream', len(many) - 4)
        n += 1
    ctx.extra('distinct_output_shapes_enum', len(shapes))
    ctx.extra('byte_class_bigrams_seen_random', {f'{a}>{b}' for a, b in bigrams})
    from .. import coldstart
    n += coldstart.phase(ctx, coldstart.parser_overlap_jobs(), 'messages valid', kind='cold', offset=9)
    ctx.count('cases', n)


def replay(ctx, case):
    if case.get('kind') == 'cold':
        from .. import coldstart
        coldstart.replay(ctx, case, 'messages valid')
        return
    if case.get('kind') == 'two-parsers':
        print('two-parsers cases are re-run from the seed by the whole check; inputs:', case['a'], case['b'])
        return
    judge_stream(ctx, list(case['bytes']), case.get('via', 'replay'))
