"""C05 - Parsing does not depend on how the stream is chunked or consumed.

Shadow-parser monitor: a pristine Parser fed byte by byte and drained after
every byte gives "messages produced after n bytes"; the parser under test is
fed the same stream in arbitrary chunks (every single and double cut of short
streams, random chunkings of longer ones, several container types) while a
random program of get_message / pending / len / iteration / list() calls runs
between the feeds; a FIFO counter model predicts every return value.  The same
streams also go through ParserQueue.put_bytes/poll/iterpoll/get.
"""
import itertools
import random
import types
import threading

import mido
from mido import Message, Parser
from mido.backends._parser_queue import ParserQueue

from .. import gen
from ..ref import midi1

ID = 'C05'
ANCHORS = ['mido.tokenizer', 'mido.parser', 'mido.backends._parser_queue']
LEVEL = 'exploration'
RULE = ('streams are concatenations of 1-6 pieces (complete messages of all 18 types, '
        'messages cut short at every position, stray data, stray/undefined status bytes, '
        'real-time bytes); for streams <= 14 bytes every single cut and every pair of cuts '
        'is tried with list, bytes and bytearray chunks, longer streams get random '
        'chunkings with list/tuple/bytes/bytearray/generator chunks; between feeds a seeded '
        'program of retrieval calls runs. A case = (stream, chunking, containers, retrieval '
        'seed), distinct by hash; non-trivial when the stream yields at least one message '
        'and at least one cut falls inside a message or a retrieval call happens between '
        'two feeds')
ASSUMPTIONS = [
    'the byte-at-a-time run of the same Parser class is the reference (metamorphic oracle): a fault that is identical for every chunking is C04/C06 territory',
    'ParserQueue.__iter__ is outside the statement (it is not one of the listed retrieval calls)',
]
DECIDING = ['retrieved == reference (FIFO)', 'pending == produced - retrieved',
            'get_message None iff none pending', 'final sequence == reference',
            'parserqueue sequence == reference']
TIMEOUT = {'quick': 300, 'thorough': 2400}
import array as _array
import collections as _collections

CONT = {
    'list': list, 'tuple': tuple, 'bytes': bytes, 'bytearray': bytearray,
    'gen': lambda c: (x for x in c),
    # sequences of the same integers whose items are wider than a byte in memory, views, other iterables
    'array-H': lambda c: _array.array('H', c), 'array-i': lambda c: _array.array('i', c), 'array-q': lambda c: _array.array('q', c),
    'array-B': lambda c: _array.array('B', c), 'memoryview': lambda c: memoryview(bytes(c)),
    'memoryview-H': lambda c: memoryview(_array.array('H', c)), 'deque': _collections.deque, 'map': lambda c: map(int, c),
    # the same integers in other clothes: True/False for 1/0 (a pedal state, a flag), int subclasses, IntEnum members, a
    # numpy-like Integral that is no int - bytes to the tokenizer like any other
    'exotic': lambda c: [(bool(x) if x in (0, 1) else gen.exotic_ints(x)[(i + x) % len(gen.exotic_ints(x))]) for i, x in enumerate(c)],
}


def nshards(tier):
    return 16


def _guarded(name):
    def wrapper(ctx, *args, **kw):
        try:
            return globals()['_' + name](ctx, *args, **kw)
        except Exception as exc:          # escaped from library code outside the case's own try block
            ctx.fail('no exception', f'{name}:escaped:{type(exc).__name__}', {'kind': 'escaped', 'from': name, 'args': repr(args)[:300]},
                     f'{type(exc).__name__}: {exc}')
            return False
    wrapper.__name__ = name
    return wrapper


def reference(data):
    """produced[n] = number of messages produced after n bytes; msgs = all."""
    p = Parser()
    produced = [0]
    msgs = []
    for b in data:
        p.feed_byte(b)
        msgs.extend(p)
        produced.append(len(msgs))
    return produced, msgs


def make_stream(rng, npieces):
    out = []
    for _ in range(npieces):
        r = rng.random()
        if r < 0.55:
            t = gen.random_type(rng)
            out += midi1.encode(t, gen.random_attrs(t, rng, maxdata=6))
        elif r < 0.75:
            t = gen.random_type(rng, exclude=midi1.REALTIME_TYPES + ('tune_request',))
            enc = midi1.encode(t, gen.random_attrs(t, rng, maxdata=6))
            out += enc[:rng.randrange(1, len(enc))]        # cut short
        elif r < 0.80:
            # a sysex with real-time bytes (and sometimes another message) inside
            body = [0xF0]
            for _ in range(rng.randrange(1, 7)):
                x = rng.random()
                if x < 0.3:
                    body.append(rng.choice(list(midi1.REALTIME_BYTES) + [0xF9, 0xFD]))
                elif x < 0.36:
                    body += [0x90 | rng.randrange(16), rng.randrange(128), rng.randrange(128)]
                else:
                    body.append(rng.randrange(128))
            out += body + ([0xF7] if rng.random() < 0.8 else [])
        elif r < 0.85:
            out += [rng.randrange(128) for _ in range(rng.randrange(1, 3))]
        elif r < 0.93:
            out.append(rng.choice((0xF7, 0xF4, 0xF5, 0xF9, 0xFD)))
        else:
            out.append(rng.choice(list(midi1.REALTIME_BYTES)))
    return out


def _run_case(ctx, data, cuts, conts, rseed, use_ctor=False):
    """Feed data cut at `cuts` using container names `conts` (cycled), with a
    retrieval program seeded by rseed between feeds."""
    case = lambda: {'kind': 'case', 'bytes': bytes(data), 'cuts': list(cuts),  # noqa: E731
                    'conts': list(conts), 'rseed': rseed, 'ctor': use_ctor}
    produced, ref = reference(data)
    rng = random.Random(rseed)
    cuts = tuple(sorted({min(max(c, 0), len(data)) for c in cuts}))
    chunks = gen.split_at(list(data), cuts)
    got = []
    retrieved = 0
    pos = 0
    parser = None
    it = None          # an iterator kept across feeds
    between_calls = 0
    key = 'chunking'

    def expect_pending():
        return produced[pos] - retrieved

    try:
        for ci, chunk in enumerate(chunks):
            cname = conts[ci % len(conts)]
            arg = CONT[cname](chunk)
            if parser is None:
                if use_ctor:
                    parser = Parser(arg)
                    held = None
                else:
                    parser = Parser()
                    # a caller may look the methods (and the public message deque) up once and keep them - as the ports do
                    held = types.SimpleNamespace(get=parser.get_message, pending=parser.pending, feed=parser.feed,
                                                 feed_byte=parser.feed_byte, messages=parser.messages) if rng.random() < 0.4 else None
                    (held.feed if held else parser.feed)(arg)
            elif len(chunk) == 1 and rng.random() < 0.5:
                (held.feed_byte if held else parser.feed_byte)(chunk[0])
            else:
                (held.feed if held else parser.feed)(arg)
            pos += len(chunk)
            # retrieval program
            for _ in range(rng.choice((0, 0, 1, 2, 3))):
                if ci < len(chunks) - 1:
                    between_calls += 1
                op = rng.choice(('get', 'pending', 'len', 'next', 'list', 'newiter', 'dropiter') + (('deque', 'deque') if held else ()))
                if op == 'deque':
                    # the deque itself, as BaseInput.receive() uses it: its length is pending(), popleft() is get_message()
                    v = len(held.messages)
                    ctx.check('pending == produced - retrieved', v == expect_pending(), 'held-deque-length', case,
                              lambda: {'len(messages)': v, 'model': expect_pending()})
                    if v:
                        m = held.messages.popleft()
                        ctx.check('retrieved == reference (FIFO)', retrieved < len(ref) and m == ref[retrieved], 'fifo:held-deque', case,
                                  lambda: {'got': repr(m), 'want': repr(ref[retrieved:retrieved + 1])})
                        got.append(m)
                        retrieved += 1
                elif op == 'get':
                    m = (held.get if held else parser.get_message)()
                    exp = expect_pending()
                    ctx.check('get_message None iff none pending', (m is None) == (exp == 0),
                              'get_message-none', case, lambda: {'pending_model': exp, 'got': repr(m)})
                    if m is not None:
                        ctx.check('retrieved == reference (FIFO)',
                                  retrieved < len(ref) and m == ref[retrieved], 'fifo:get', case,
                                  lambda: {'got': repr(m), 'want': repr(ref[retrieved:retrieved + 1])})
                        got.append(m)
                        retrieved += 1
                elif op == 'pending':
                    v = (held.pending if held else parser.pending)()
                    ctx.check('pending == produced - retrieved', v == expect_pending(),
                              'pending', case, lambda: {'pending()': v, 'model': expect_pending()})
                elif op == 'len':
                    v = len(parser)
                    ctx.check('pending == produced - retrieved', v == expect_pending(),
                              'len', case, lambda: {'len()': v, 'model': expect_pending()})
                elif op == 'newiter':
                    it = iter(parser)
                elif op == 'dropiter':
                    it = None
                elif op == 'next':
                    if it is None:
                        it = iter(parser)
                    exp = expect_pending()
                    try:
                        m = next(it)
                    except StopIteration:
                        it = None
                        ctx.check('get_message None iff none pending', exp == 0, 'iter-stopped-early',
                                  case, {'pending_model': exp})
                    else:
                        ctx.check('retrieved == reference (FIFO)',
                                  exp > 0 and m == ref[retrieved], 'fifo:next', case,
                                  lambda: {'got': repr(m), 'pending_model': exp})
                        got.append(m)
                        retrieved += 1
                elif op == 'list':
                    ms = list(parser)
                    exp = expect_pending()
                    ctx.check('retrieved == reference (FIFO)',
                              ms == ref[retrieved:retrieved + exp], 'fifo:list', case,
                              lambda: {'got': [repr(m) for m in ms][:5], 'pending_model': exp})
                    got.extend(ms)
                    retrieved += len(ms)
        if parser is None:
            parser = Parser()
        v = parser.pending()
        ctx.check('pending == produced - retrieved', v == expect_pending(), 'pending-final', case,
                  lambda: {'pending()': v, 'model': expect_pending()})
        got.extend(parser)
        ctx.check('final sequence == reference', got == ref, key, case,
                  lambda: {'got': [m.hex() for m in got][:10], 'want': [m.hex() for m in ref][:10]})
        ctx.check('get_message None iff none pending', parser.get_message() is None
                  and parser.pending() == 0, 'not-empty-after-drain', case, None)
        if len(data) <= 64:
            # the consumer edits what it retrieved; the same bytes parsed again give the same messages
            for m in got:
                try:
                    m.time = 31337
                    for k in vars(m):
                        if k in midi1.DOMAIN:
                            setattr(m, k, midi1.DOMAIN[k][1] if getattr(m, k) != midi1.DOMAIN[k][1] else midi1.DOMAIN[k][0])
                        elif k == 'data':
                            m.data = (0x55,)
                except Exception:
                    pass
            again = Parser()
            again.feed(bytes(data))
            ctx.check('final sequence == reference', list(again) == ref, 'stale-or-shared-after-consumer-edits', case, None)
    except Exception as exc:
        ctx.fail('no exception', f'{type(exc).__name__}', case, f'{type(exc).__name__}: {exc}')
        return False
    inside = len(ref) > 0 and (between_calls > 0 or any(
        produced[c] == produced[c - 1] if 0 < c < len(data) else False for c in cuts))
    return inside


def _run_tokenizer_case(ctx, data, cuts, rseed):
    """The documented mido.tokenizer.Tokenizer used directly: chunked feeding with tokens taken out by
    len() / next() on kept, renewed and abandoned iterators / list() / for-break between the calls."""
    from mido.tokenizer import Tokenizer
    case = lambda: {'kind': 'tokenizer', 'bytes': bytes(data), 'cuts': list(cuts), 'rseed': rseed}  # noqa: E731
    produced, ref = reference(data)
    want = [m.bytes() for m in ref]
    rng = random.Random(rseed)
    cuts = tuple(sorted({min(max(c, 0), len(data)) for c in cuts}))
    chunks = gen.split_at(list(data), cuts)
    tok = None
    got, pos, it = [], 0, None
    try:
        for ci, chunk in enumerate(chunks):
            if tok is None:
                # the first chunk goes in through the constructor every other time
                if rng.random() < 0.5:
                    tok = Tokenizer((list, bytes, bytearray)[ci % 3](chunk))
                else:
                    tok = Tokenizer()
                    tok.feed(chunk)
            elif len(chunk) == 1 and rng.random() < 0.5:
                tok.feed_byte(chunk[0])
            else:
                tok.feed((list, bytes, bytearray)[ci % 3](chunk))
            pos += len(chunk)
            for _ in range(rng.choice((0, 1, 2, 3))):
                op = rng.choice(('len', 'next', 'newiter-next', 'list', 'break', 'dropiter'))
                exp = produced[pos] - len(got)
                if op == 'len':
                    ctx.check('pending == produced - retrieved', len(tok) == exp, 'tokenizer:len', case,
                              lambda: {'len()': len(tok), 'model': exp})
                elif op == 'dropiter':
                    it = None
                elif op in ('next', 'newiter-next'):
                    if it is None or op == 'newiter-next':
                        it = iter(tok)
                    try:
                        t = next(it)
                    except StopIteration:
                        it = None
                        ctx.check('get_message None iff none pending', exp == 0, 'tokenizer:iter-stopped-early', case,
                                  {'pending_model': exp})
                    else:
                        ctx.check('retrieved == reference (FIFO)', exp > 0 and list(t) == want[len(got)], f'tokenizer:fifo:{op}',
                                  case, lambda: {'got': list(t)[:12], 'pending_model': exp})
                        got.append(list(t))
                elif op == 'break':
                    for t in tok:
                        ctx.check('retrieved == reference (FIFO)', exp > 0 and list(t) == want[len(got)], 'tokenizer:fifo:break',
                                  case, lambda: {'got': list(t)[:12], 'pending_model': exp})
                        got.append(list(t))
                        break
                else:
                    ts = [list(t) for t in tok]
                    ctx.check('retrieved == reference (FIFO)', ts == want[len(got):len(got) + exp], 'tokenizer:fifo:list', case,
                              lambda: {'got': ts[:4], 'pending_model': exp})
                    got.extend(ts)
        ctx.check('pending == produced - retrieved', len(tok) == produced[pos] - len(got), 'tokenizer:len-final', case,
                  lambda: {'len()': len(tok), 'model': produced[pos] - len(got)})
        got.extend(list(t) for t in tok)
        ctx.check('final sequence == reference', got == want and len(tok) == 0, 'tokenizer', case,
                  lambda: {'got': got[:6], 'want': want[:6]})
    except Exception as exc:
        ctx.fail('no exception', f'tokenizer:{type(exc).__name__}', case, f'{type(exc).__name__}: {exc}')


def _aborted_feed_case(ctx, data, at, how, other):
    """A feed() call that fails half way - the data source raises, or an item is not a MIDI byte - and
    the calls that follow it: nothing already consumed is lost or handed to another parser, and the
    parser goes on where the source stopped."""
    class Hiccup(OSError):
        pass
    case = lambda: {'kind': 'aborted-feed', 'bytes': bytes(data), 'at': at, 'how': how, 'other': bytes(other)}  # noqa: E731
    _, ref = reference(data)
    _, ref_other = reference(other)
    bad_item = {'source-raises': None, 'item-300': 300, 'item-none': None, 'item-neg': -1, 'item-float': 60.5}[how]

    def source():
        for i, b in enumerate(data):
            if i == at:
                if how == 'source-raises':
                    raise Hiccup('device read failed')
                yield bad_item
            yield b
    try:
        a, b = Parser(), Parser()
        try:
            a.feed(source() if how == 'source-raises' else list(source())[:at + 1])
            ctx.check('no exception', at >= len(data), 'aborted-feed:no-error-raised', case, None)
        except (Hiccup, ValueError, TypeError):
            pass
        # an unrelated parser is used in between
        b.feed(bytes(other))
        got_b = list(b)
        a.feed(bytes(data[at:]))
        got_a = list(a)
        if how == 'source-raises':
            ok = got_a == ref           # nothing but valid bytes, in two calls: plain chunking
        else:
            # an item that is no MIDI byte was refused in the middle: what was complete before it is delivered;
            # whether the message under construction survives the refusal is not promised
            _, pre = reference(data[:at])
            _, post = reference(data[at:])
            ok = got_a == ref or got_a == pre + post
        ctx.check('final sequence == reference', ok and a.pending() == 0, f'aborted-feed:{how}', case,
                  lambda: {'got': [m.hex() for m in got_a][:8], 'want': [m.hex() for m in ref][:8]})
        ctx.check('final sequence == reference', got_b == ref_other, f'aborted-feed:other-parser:{how}', case,
                  lambda: {'got': [m.hex() for m in got_b][:8], 'want': [m.hex() for m in ref_other][:8]})
    except Exception as exc:
        ctx.fail('no exception', f'aborted-feed:{how}:{type(exc).__name__}', case, f'{type(exc).__name__}: {exc}')


def _checkpoint_case(ctx, data, cut, how):
    """A parser is duplicated mid-stream (copy.deepcopy / pickle); both go on independently."""
    import copy
    import pickle
    case = lambda: {'kind': 'checkpoint', 'bytes': bytes(data), 'cut': cut, 'how': how}  # noqa: E731
    _, ref = reference(data)
    try:
        p = Parser()
        with gen.jumping_clocks():
            p.feed(bytes(data[:cut]))
            q = copy.deepcopy(p) if how == 'deepcopy' else pickle.loads(pickle.dumps(p))
            q.feed(list(data[cut:]))
            got_q = list(q)
            got_p_before = list(p)             # the original was not fed the rest
            p.feed(bytes(data[cut:]))
            got_p = got_p_before + list(p)
        ctx.check('final sequence == reference', got_q == ref and got_p == ref, f'checkpoint:{how}', case,
                  lambda: {'copy': [m.hex() for m in got_q][:6], 'original': [m.hex() for m in got_p][:6],
                           'want': [m.hex() for m in ref][:6]})
    except Exception as exc:
        ctx.fail('no exception', f'checkpoint:{how}:{type(exc).__name__}', case, f'{type(exc).__name__}: {exc}')


def _run_queue_case(ctx, data, cuts, rseed):
    case = lambda: {'kind': 'queue', 'bytes': bytes(data), 'cuts': list(cuts), 'rseed': rseed, 'delivered_by': who}  # noqa: E731
    produced, ref = reference(data)
    rng = random.Random(rseed)
    cuts = tuple(sorted({min(max(c, 0), len(data)) for c in cuts}))
    q = ParserQueue()
    got = []
    pos = 0
    # who delivers: a backend hands the chunks over from whatever thread its driver calls back on - the same one every time,
    # a new one for every chunk, or two taking turns (one at a time: the calls never overlap)
    rng_who = random.Random(f'{rseed}:who')
    who = rng_who.choice(('caller', 'caller', 'new-thread-each', 'two-threads-alternating')) if len(data) < 4000 else 'caller'
    pool = None
    if who == 'two-threads-alternating':
        from concurrent.futures import ThreadPoolExecutor
        pool = [ThreadPoolExecutor(1), ThreadPoolExecutor(1)]
    nput = [0]

    def put(arg):
        nput[0] += 1
        if who == 'caller':
            q.put_bytes(arg)
        elif who == 'new-thread-each':
            err = []

            def body():
                try:
                    q.put_bytes(arg)
                except BaseException as exc:
                    err.append(exc)
            th = threading.Thread(target=body)
            th.start()
            th.join()
            if err:
                raise err[0]
        else:
            pool[nput[0] % 2].submit(q.put_bytes, arg).result()
    try:
        for chunk in gen.split_at(list(data), cuts):
            put(rng.choice((list, bytes, bytearray))(chunk))
            pos += len(chunk)
            r = rng.random()
            if r < 0.3:
                m = q.poll()
                exp = produced[pos] - len(got)
                ctx.check('get_message None iff none pending', (m is None) == (exp == 0),
                          'queue-poll-none', case, {'model': exp, 'got': repr(m)})
                if m is not None:
                    got.append(m)
            elif r < 0.4:
                got.extend(q.iterpoll())
            elif r < 0.5:
                # the loop over iterpoll() is busy with the queue itself: it polls in between, and bytes that
                # complete further messages arrive while it runs - it still ends cleanly with the queue empty
                more = list(data[pos:pos + 6])
                fed = False
                for m in q.iterpoll():
                    got.append(m)
                    other = q.poll()
                    if other is not None:
                        got.append(other)
                    if not fed and more:
                        q.put_bytes(more)
                        fed = True
                if fed:
                    pos += len(more)
                    cuts = tuple(c for c in cuts if c > pos)
                    # the rest of this history continues behind what was fed inside the loop
                    rest = list(data[pos:])
                    got.extend(q.iterpoll())
                    q.put_bytes(rest)
                    pos = len(data)
                    break
            elif r < 0.6 and produced[pos] - len(got) > 0:
                first = q.poll()          # (public API only: is there something for get() to return?)
                if first is None:
                    # get() would block for ever: the queue lost a message the reference run produced
                    ctx.check('parserqueue sequence == reference', False, 'queue-lost-message', case,
                              {'model_pending': produced[pos] - len(got)})
                    return
                got.append(first)
                if produced[pos] - len(got) > 0:
                    got.append(q.get())
        got.extend(q.iterpoll())
        ctx.check('parserqueue sequence == reference', got == ref, 'queue', case,
                  lambda: {'got': [m.hex() for m in got][:10], 'want': [m.hex() for m in ref][:10]})
        ctx.check('get_message None iff none pending', q.poll() is None, 'queue-not-empty', case, None)
    except Exception as exc:
        ctx.fail('no exception', f'queue:{type(exc).__name__}', case, f'{type(exc).__name__}: {exc}')
    finally:
        for p in pool or ():
            p.shutdown(wait=False)


HAND = [
    [0xF0, 1, 2, 0xF8, 3, 0xF7],                 # real-time byte inside a sysex
    [0xFA, 0xF0, 1, 0xFC, 2, 0xFB, 0xF7, 0x90, 1, 2],
    [0xF0, 1, 0x90, 0x40, 0x7F, 2, 0xF7],        # sysex interrupted by a complete message
    [0x90, 0x40, 0xF8, 0x7F, 0x90, 1],
    [0xF0, 0xF8, 1, 0xFE, 2, 0xF7, 0xF7, 3],
    [0xE0, 1, 0xC0, 5, 6, 0xE0, 1, 2],
    [0xF2, 1, 0xF2, 1, 2, 0xF1, 0xF3, 4],
    [0xB0, 1, 2, 3, 4, 0xB0, 5, 6],
]


run_case = _guarded('run_case')
run_queue_case = _guarded('run_queue_case')
run_tokenizer_case = _guarded('run_tokenizer_case')
aborted_feed_case = _guarded('aborted_feed_case')
checkpoint_case = _guarded('checkpoint_case')


def all_cut_sets(n):
    yield ()
    for a in range(0, n + 1):
        yield (a,)
    for a in range(0, n + 1):
        for b in range(a, n + 1):
            yield (a, b)


def run(ctx):
    n = 0
    nontriv = 0
    ns = 40 if ctx.tier == 'quick' else 1500
    # short streams: all single and double cuts
    streams = [list(h) for h in HAND] if ctx.shard == 0 else []
    for j in range(ns):
        streams.append(make_stream(ctx.rng, ctx.rng.randrange(1, 5))[:14])
    for si, data in enumerate(streams):
        for ki, cuts in enumerate(all_cut_sets(len(data))):
            for conts in (('list',), ('bytes',), ('bytearray', 'list'), ('bytes', 'list', 'bytes')):
                rseed = f'{ctx.seed}:{ctx.shard}:{si}:{ki}'
                nt = run_case(ctx, data, cuts, conts, rseed, use_ctor=(ki % 5 == 0))
                ctx.nontrivial((tuple(data), cuts, conts, rseed)) if nt else None
                n += 1
        if si < 2:
            ctx.put_sample({'stream': ' '.join('%02X' % b for b in data),
                            'cut_sets_tried': sum(1 for _ in all_cut_sets(len(data))),
                            'containers': 4})
        for cut in range(0, len(data) + 1, 2):
            checkpoint_case(ctx, data, cut, ('deepcopy', 'pickle')[(si + cut) % 2])
            n += 1
        hows = ('source-raises', 'item-300', 'item-none', 'item-neg', 'item-float')
        for at in range(0, len(data) + 1):
            aborted_feed_case(ctx, data, at, hows[(si + at) % len(hows)], streams[(si + 1) % len(streams)])
            n += 1
    ctx.extra('short_streams_all_cuts', len(streams))
    # longer streams, random chunkings
    nl = 300 if ctx.tier == 'quick' else 20000
    for j in range(nl):
        pieces = [make_stream(ctx.rng, 1) for _ in range(ctx.rng.randrange(2, 7))]
        data = [b for p in pieces for b in p]
        # one call per piece (whole message / cut-short message / stray bytes / real-time byte), and some of those calls merged
        bounds = tuple(itertools.accumulate(len(p) for p in pieces))[:-1]
        aligned = [bounds, tuple(b for b in bounds if ctx.rng.random() < 0.6)]
        if j % 25 == 0:
            t = 'sysex'
            data = data + midi1.encode(t, {'data': tuple(ctx.rng.randrange(128) for _ in range(
                ctx.rng.choice((200, 1000, 5000))))}) + data
        for ci, cuts in enumerate(list(gen.chunkings(ctx.rng, len(data), 4)) + aligned):
            conts = tuple(ctx.rng.choice(list(CONT)) for _ in range(3))
            rseed = f'{ctx.seed}:{ctx.shard}:L{j}:{ci}'
            if ci % 2:
                with gen.jumping_clocks():
                    nt = run_case(ctx, data, cuts, conts, rseed, use_ctor=(ci == 0 and j % 3 == 0))
            else:
                nt = run_case(ctx, data, cuts, conts, rseed, use_ctor=(ci == 0 and j % 3 == 0))
            if nt:
                ctx.nontrivial((hash(bytes(data)), tuple(cuts), conts, rseed))
            n += 1
            run_queue_case(ctx, data, cuts, rseed)
            n += 1
            ctx.nontrivial(('q', hash(bytes(data)), tuple(cuts)))
            run_tokenizer_case(ctx, data, cuts, rseed)
            n += 1
            ctx.nontrivial(('tok', hash(bytes(data)), tuple(cuts)))
    ctx.extra('long_streams_random_chunkings', nl)
    # sysex beyond 64 KiB delivered in several calls (a cut after the 65 536th byte, a last chunk holding
    # only the F7), and more than 4 096 / 2**18 messages pending at once
    if ctx.shard == 5 % ctx.nshards:
        for ln in (65535, 65536, 65537, 70000, 200000 if ctx.tier == 'thorough' else 66000):
            data = [0x90, 1, 2] + midi1.encode('sysex', {'data': tuple(i % 128 for i in range(ln))}) + [0xC0, 9]
            for cuts in ((3, 65536), (65540,), (len(data) - 3,), (3, 40000, 65539, len(data) - 4), (len(data) - 3, len(data) - 2)):
                for conts in (('bytes',), ('list', 'bytearray')):
                    nt = run_case(ctx, data, cuts, conts, f'{ctx.seed}:big:{ln}:{cuts}')
                    ctx.nontrivial(('big', ln, cuts, conts))
                    n += 1
            run_queue_case(ctx, data, (3, 65539, len(data) - 3), f'{ctx.seed}:bigq:{ln}')
            n += 1
    if ctx.shard == 6 % ctx.nshards:
        for count in (4095, 4096, 4097, 5000) + ((2 ** 18 + 10,) if ctx.tier == 'thorough' else ()):
            data = []
            for i in range(count):
                data += [0x90 | (i % 16), i % 128, (i // 128) % 128] if i % 3 else [0xF8]
            for cuts in ((), (len(data) // 2,), (1, len(data) - 1)):
                run_case(ctx, data, cuts, ('bytes',), f'{ctx.seed}:many:{count}:{cuts}')
                ctx.nontrivial(('many', count, cuts))
                n += 1
            run_queue_case(ctx, data, (len(data) // 3,), f'{ctx.seed}:manyq:{count}')
            n += 1
    # parse()/parse_all() convenience functions agree with the reference
    for j in range(200 if ctx.tier == 'quick' else 5000):
        data = make_stream(ctx.rng, ctx.rng.randrange(0, 4))
        _, ref = reference(data)
        case = {'kind': 'parse', 'bytes': data}
        try:
            ctx.check('final sequence == reference', mido.parse_all(data) == ref, 'parse_all', case, None)
            first = mido.parse(bytes(data))
            ctx.check('final sequence == reference', first == (ref[0] if ref else None), 'parse',
                      case, repr(first))
        except Exception as exc:
            ctx.fail('no exception', f'parse:{type(exc).__name__}', case, f'{type(exc).__name__}: {exc}')
        n += 1
    from .. import coldstart
    n += coldstart.phase(ctx, coldstart.parser_overlap_jobs(), 'final sequence == reference', kind='cold', offset=9)
    ctx.count('cases', n)


def replay(ctx, case):
    if case.get('kind') == 'cold':
        from .. import coldstart
        coldstart.replay(ctx, case, 'final sequence == reference')
        return
    if case['kind'] == 'checkpoint':
        checkpoint_case(ctx, list(case['bytes']), case['cut'], case['how'])
    elif case['kind'] == 'case':
        run_case(ctx, list(case['bytes']), tuple(case['cuts']), tuple(case['conts']),
                 case['rseed'], case.get('ctor', False))
    elif case['kind'] == 'queue':
        run_queue_case(ctx, list(case['bytes']), tuple(case['cuts']), case['rseed'])
    elif case['kind'] == 'aborted-feed':
        aborted_feed_case(ctx, list(case['bytes']), case['at'], case['how'], list(case['other']))
    elif case['kind'] == 'tokenizer':
        run_tokenizer_case(ctx, list(case['bytes']), tuple(case['cuts']), case['rseed'])
    else:
        data = list(case['bytes'])
        _, ref = reference(data)
        ctx.check('final sequence == reference', mido.parse_all(data) == ref, 'parse_all', case, None)
        ctx.check('final sequence == reference', mido.parse(bytes(data)) == (ref[0] if ref else None),
                  'parse', case, None)
