"""C06 - The parser resynchronises: a complete message is always recognised.

Relational monitor: parse_all(P + enc(M)) == parse_all(P) + [M] for prefixes P
(all class-alphabet strings up to a bound, plus every message cut short at
every position) and boundary messages M of all 18 types, M built through the
public constructor and enc(M) taken from the independent reference encoder;
concatenations of encodings parse back to the same list; real-time bytes
inserted strictly inside a sysex come out ahead of the unchanged sysex.
Results are mutated after each parse and the parse repeated, so that a parser
handing out shared or cached message objects is seen.
"""
import itertools

import mido
from mido import Message, Parser

from .. import gen
from ..ref import midi1

ID = 'C06'
ANCHORS = ['mido.tokenizer', 'mido.parser']
LEVEL = 'exploration'
RULE = ('prefixes = every string of length <= L over the 15-symbol class alphabet (L=3 '
        'quick, 4 thorough) + every proper prefix of the encoding of a boundary message of '
        'every multi-byte type; messages = boundary-value messages of all 18 types; every '
        '(prefix, message) pair is one case, distinct by construction; plus random '
        'concatenations of 2-30 messages and, for sysex payload lengths 0-8, every interior '
        'offset x 1-3 real-time bytes drawn from the six defined ones. All are non-trivial: '
        'the appended message must appear in the output')
ASSUMPTIONS = [
    'enc(M) comes from the reference encoder vmon/ref/midi1.py, M from the public constructor',
    'what an undefined status byte does to a partial message is not judged (P ranges over complete strings only, so parse_all(P) itself is the baseline)',
]
DECIDING = ['parse(P+enc(M)) == parse(P)+[M]', 'concatenation parses back',
            'realtime inside sysex delivered first, sysex intact', 'fresh objects']
TIMEOUT = {'quick': 300, 'thorough': 2400}


def nshards(tier):
    return 16


def boundary_messages():
    out = []
    for t in midi1.TYPES:
        sets = list(gen.boundary_attr_sets(t))
        if len(sets) > 12:
            # keep the corners: every attribute at lo/hi, plus a stride
            names = midi1.ATTRS[t]
            corners = [a for a in sets if all(
                a[n] in midi1.DOMAIN[n] for n in names)]
            sets = corners + sets[::max(1, len(sets) // 8)]
        for a in sets:
            out.append((t, a))
    return out


def truncated_prefixes():
    out = []
    for t in midi1.TYPES:
        for a in list(gen.boundary_attr_sets(t))[:3]:
            enc = midi1.encode(t, a)
            for k in range(1, len(enc)):
                out.append(enc[:k])
    return out


def poke(msgs):
    """Mutate parsed messages in place (time, first attribute)."""
    for m in msgs:
        try:
            m.time = 99
            v = vars(m)
            if 'note' in v:
                m.note = (m.note + 1) % 128
            elif 'data' in v:
                m.data += (1,)
            elif 'channel' in v:
                m.channel = (m.channel + 1) % 16
            elif 'pos' in v:
                m.pos = (m.pos + 1) % 16384
            elif 'song' in v:
                m.song = (m.song + 1) % 128
            elif 'frame_value' in v:
                m.frame_value = (m.frame_value + 1) % 16
        except Exception:
            pass


def retrieve(p, how, limit=10 ** 6):
    """Take everything pending out of parser p: one get_message() at a time, or through for loops
    that are left after the first message and started again."""
    out = []
    if how == 'get_message':
        while len(out) < limit:
            m = p.get_message()
            if m is None:
                break
            out.append(m)
    else:
        while len(out) < limit:
            n = len(out)
            for m in p:
                out.append(m)
                break
            if len(out) == n:
                break
    return out


def check_pair(ctx, P, t, a, base=None):
    case = lambda: {'kind': 'pair', 'prefix': list(P), 'type': t, 'attrs': a}  # noqa: E731
    M = Message(t, **a)
    enc = midi1.encode(t, a)
    try:
        if base is None:
            base = mido.parse_all(list(P))
        full = mido.parse_all(list(P) + enc)
        ctx.check('parse(P+enc(M)) == parse(P)+[M]', full == base + [M], t, case,
                  lambda: {'parse(P)': [m.hex() for m in base], 'parse(P+M)': [m.hex() for m in full],
                           'M': M.hex()})
        ctx.check('fresh objects', len({id(m) for m in full}) == len(full), 'aliased', case, None)
        # byte by byte, retrieving after every byte (what SocketPort does)
        p = Parser()
        one = []
        for b in list(P) + enc:
            p.feed_byte(b)
            while True:
                m = p.get_message()
                if m is None:
                    break
                one.append(m)
        ctx.check('parse(P+enc(M)) == parse(P)+[M]', one == base + [M] and p.pending() == 0, 'feed_byte:' + t, case,
                  lambda: {'got': [m.hex() for m in one], 'want': [m.hex() for m in base] + [M.hex()]})
        # everything in one feed(), taken out one message at a time
        for how in ('get_message', 'loop-and-break'):
            p = Parser()
            p.feed(list(P) + enc)
            npend = p.pending()
            one = retrieve(p, how)
            ctx.check('parse(P+enc(M)) == parse(P)+[M]', one == base + [M] and npend == len(base) + 1 and p.pending() == 0,
                      f'{how}:' + t, case,
                      lambda: {'got': [m.hex() for m in one], 'want': [m.hex() for m in base] + [M.hex()], 'pending()': npend})
        # after a complete message that is not a real-time message the parser starts afresh: whatever follows
        # (stray data, a lone F7, the tail of an aborted sysex, further messages) is parsed as if it stood alone
        if t not in midi1.REALTIME_TYPES:
            for G in ([3, 0xF7], [0x40], [0xF7], [1, 2, 0xF7, 0xC1, 9], [0xF8, 5, 0xF7, 0xF6]):
                tail = mido.parse_all(G)
                whole = mido.parse_all(list(P) + enc + G)
                ctx.check('parse(P+enc(M)) == parse(P)+[M]', whole == base + [M] + tail, 'suffix-after-complete-message:' + t, case,
                          lambda: {'suffix': G, 'got': [m.hex() for m in whole], 'want': [m.hex() for m in base + [M] + tail]})
                # the same, delivered as a backend does: the prefix, the message and what follows each in a call of its own
                p3 = Parser()
                for part in (list(P), bytes(enc) if len(G) % 2 else list(enc), list(G)):
                    p3.feed(part)
                three = list(p3)
                ctx.check('parse(P+enc(M)) == parse(P)+[M]', three == base + [M] + tail, 'suffix-after-complete-message:three-calls:' + t, case,
                          lambda: {'suffix': G, 'got': [m.hex() for m in three], 'want': [m.hex() for m in base + [M] + tail]})
        # the call that delivered the prefix ended badly - its source raised after the last byte of P, or an item
        # that is no MIDI byte followed P - and M arrives in the next call: M is still recognised, and what
        # P had completed is still delivered
        for how in (('source-raises', 300, None, -1)[(len(P) + sum(P) + sum(enc)) % 4],):      # one of the four per pair, rotating
            p = Parser()

            def src():
                yield from P
                if how == 'source-raises':
                    raise OSError('device read failed')
                yield how
            try:
                p.feed(src() if how == 'source-raises' else list(src()))
            except (OSError, ValueError, TypeError):
                pass
            p.feed(enc)
            after = list(p)
            ok = after == base + [M] if how == 'source-raises' else (after == base + [M] or after == base + mido.parse_all(enc))
            ctx.check('parse(P+enc(M)) == parse(P)+[M]', ok and after[-1:] == [M], f'after-failed-feed:{how}:' + t, case,
                      lambda: {'got': [m.hex() for m in after], 'want': [m.hex() for m in base] + [M.hex()]})
        # the prefix and the message arrive in separate feed() calls (bytes and list chunks)
        import array
        wide = (lambda c: array.array('H', c)) if (len(P) + len(enc)) % 2 else (lambda c: memoryview(array.array('i', c)))
        wide.__name__ = 'wide-array'
        for cont in (bytes, list, wide):
            import copy
            with gen.jumping_clocks():
                p = Parser()
                p.feed(cont(P))
                if cont is list:
                    p = copy.deepcopy(p)          # a checkpoint of the parser goes on where it was
                p.feed(cont(enc))
                two = list(p)
            ctx.check('parse(P+enc(M)) == parse(P)+[M]', two == base + [M], f'split-feed:{cont.__name__}:' + t, case,
                      lambda: {'got': [m.hex() for m in two], 'want': [m.hex() for m in base] + [M.hex()]})
        # the message itself arrives in pieces: its status byte, then a call that carries nothing but data bytes (all of them,
        # or all but the last), then the rest - as a backend delivers what a slow serial line gives it
        if len(enc) >= 3:
            for cont in (bytes, bytearray, list):
                for k in (len(enc) - 1, len(enc) - 2) if len(enc) > 3 or t != 'sysex' else (len(enc) - 1,):
                    if k < 2:
                        continue
                    p4 = Parser()
                    p4.feed(cont(P))
                    p4.feed(cont(enc[:1]))
                    p4.feed(cont(enc[1:k]))
                    p4.feed(cont(enc[k:]))
                    four = list(p4)
                    ctx.check('parse(P+enc(M)) == parse(P)+[M]', four == base + [M], f'split-feed:data-only-chunk:{cont.__name__}:' + t, case,
                              lambda: {'chunks': [list(enc[:1]), list(enc[1:k])[:8], list(enc[k:])[:4]], 'got': [m.hex() for m in four][-3:]})
        # poke the results and parse again: still the same
        want = [m.copy() for m in base] + [Message(t, **a)]
        poke(full)
        again = mido.parse_all(bytes(list(P) + enc))
        ctx.check('parse(P+enc(M)) == parse(P)+[M]', again == want, 'stale-or-shared:' + t, case,
                  lambda: {'second parse': [str(m) for m in again][-3:], 'want': [str(m) for m in want][-3:]})
    except Exception as exc:
        ctx.fail('no exception', f'{type(exc).__name__}', case, f'{type(exc).__name__}: {exc}')
    return base


_GC = [0]


def check_concat(ctx, specs):
    case = lambda: {'kind': 'concat', 'msgs': [[t, a] for t, a in specs]}  # noqa: E731
    msgs = [Message(t, **a) for t, a in specs]
    stream = [b for t, a in specs for b in midi1.encode(t, a)]
    try:
        got = mido.parse_all(stream)
        ctx.check('concatenation parses back', got == msgs, 'concat', case,
                  lambda: {'got': [m.hex() for m in got][:8], 'want': [m.hex() for m in msgs][:8]})
        p = Parser()
        p.feed(bytearray(stream))
        got2 = list(p)
        ctx.check('concatenation parses back', got2 == msgs, 'concat-feed', case, None)
        for how in ('get_message', 'loop-and-break'):
            p = Parser()
            p.feed(stream)
            got4 = retrieve(p, how)
            ctx.check('concatenation parses back', got4 == msgs, f'concat-{how}', case,
                      lambda: {'got': [m.hex() for m in got4][:8], 'want': [m.hex() for m in msgs][:8]})
        # the parser's public message deque: taken hold of before the bytes are fed (as a port does), and the deque of a
        # parser that was only ever a temporary
        p = Parser()
        dq = p.messages
        p.feed(stream)
        got5 = list(dq)
        ctx.check('concatenation parses back', got5 == msgs, 'concat-held-deque', case, lambda: {'got': [m.hex() for m in got5][:8]})
        dq2 = Parser(stream).messages
        _GC[0] += 1
        if _GC[0] % 16 == 0:                  # (reference counting has freed the parser already; a full collection now and then)
            import gc
            gc.collect()
        got6 = list(dq2)
        ctx.check('concatenation parses back', got6 == msgs, 'concat-deque-of-temporary-parser', case, lambda: {'got': [m.hex() for m in got6][:8]})
        poke(got)
        got3 = mido.parse_all(stream)
        ctx.check('concatenation parses back', got3 == [Message(t, **a) for t, a in specs],
                  'concat-stale-or-shared', case, lambda: [str(m) for m in got3][:5])
    except Exception as exc:
        ctx.fail('no exception', f'concat:{type(exc).__name__}', case, f'{type(exc).__name__}: {exc}')


def check_rt_in_sysex(ctx, data, inserts):
    """inserts: list of (offset, rt_byte) with 1 <= offset <= len(enc)-1
    (strictly inside the encoding), applied left to right on the original
    offsets."""
    case = lambda: {'kind': 'rt', 'data': list(data), 'inserts': [list(x) for x in inserts]}  # noqa: E731
    enc = midi1.encode('sysex', {'data': tuple(data)})
    stream = []
    ins = sorted(inserts)
    for i, b in enumerate(enc):
        for off, rb in ins:
            if off == i:
                stream.append(rb)
        stream.append(b)
    want = [Message(midi1.REALTIME_BYTES[rb]) for off, rb in ins] + [Message('sysex', data=data)]
    try:
        got = mido.parse_all(stream)
        ctx.check('realtime inside sysex delivered first, sysex intact', got == want, 'rt-in-sysex',
                  case, lambda: {'stream': stream, 'got': [m.hex() for m in got]})
        # and after a garbage prefix / before a following message
        # the sysex arrives in two feed() calls, cut at every interior position
        for cut in range(1, len(stream)):
            for cont in (bytes, list):
                with gen.jumping_clocks():
                    p = Parser()
                    p.feed(cont(stream[:cut]))
                    p.feed(cont(stream[cut:]))
                    two = list(p)
                ctx.check('realtime inside sysex delivered first, sysex intact', two == want,
                          f'rt-in-sysex-split:{cont.__name__}', case,
                          lambda: {'cut': cut, 'stream': stream, 'got': [m.hex() for m in two]})
        for how in ('get_message', 'loop-and-break'):
            p = Parser()
            p.feed(stream)
            one = retrieve(p, how)
            ctx.check('realtime inside sysex delivered first, sysex intact', one == want, f'rt-in-sysex:{how}', case,
                      lambda: {'stream': stream, 'got': [m.hex() for m in one]})
        got = mido.parse_all([0x40, 0x90, 1] + stream + [0xC0, 5])
        ctx.check('realtime inside sysex delivered first, sysex intact',
                  got == want + [Message('program_change', program=5)], 'rt-in-sysex-context', case,
                  lambda: [m.hex() for m in got])
    except Exception as exc:
        ctx.fail('no exception', f'rt:{type(exc).__name__}', case, f'{type(exc).__name__}: {exc}')


def run(ctx):
    L = 3 if ctx.tier == 'quick' else 4
    msgs = boundary_messages()
    prefixes = [list(s) for n in range(L + 1)
                for s in itertools.product(midi1.CLASS_ALPHABET, repeat=n)]
    prefixes += truncated_prefixes()
    n = 0
    for j, P in enumerate(prefixes):
        if j % ctx.nshards != ctx.shard:
            continue
        base = None
        for t, a in msgs:
            base = check_pair(ctx, P, t, a, base=[m.copy() for m in base] if base is not None else None)
            base = mido.parse_all(list(P)) if base is None else base
            n += 1
        if j % 701 == ctx.shard:
            ctx.put_sample({'prefix': ' '.join('%02X' % b for b in P), 'messages_appended': len(msgs)})
    ctx.nontrivial(None, n)
    ctx.extra('prefixes', len(prefixes))
    ctx.extra('boundary_messages', len(msgs) if ctx.shard == 0 else 0)
    ctx.exhaustive = True
    # concatenations
    nc = 300 if ctx.tier == 'quick' else 20000
    for j in range(nc):
        k = ctx.rng.randrange(2, 31)
        specs = []
        for _ in range(k):
            t = gen.random_type(ctx.rng)
            specs.append((t, gen.random_attrs(t, ctx.rng)))
        check_concat(ctx, specs)
        ctx.nontrivial(('concat', ctx.seed, ctx.shard, j))
        n += 1
    for seq in gen.protocol_sequences(ctx.rng, 160 if ctx.tier == 'quick' else 8000):
        check_concat(ctx, seq)
        n += 1
    # size ladders: long sysex as the appended message, thousands of messages in one call
    # (spread over the shards: one size per shard)
    k_ladder = 0
    for li, ln in enumerate((253, 254, 255, 256, 1023, 1024, 1025, 4096, 65535, 65536, 65537, 70000)):
        if (li + 3) % ctx.nshards != ctx.shard:
            continue
        data = tuple((7 * i) % 128 for i in range(ln))
        for P in ([], [0xF0, 1, 2], [0x90, 5], [0x40, 0xF7, 0xF8]):
            check_pair(ctx, P, 'sysex', {'data': data})
            n += 1
            k_ladder += 1
    for ci, count in enumerate((4095, 4096, 4097, 10000)):
        if (ci + 15) % ctx.nshards != ctx.shard:
            continue
        specs = []
        for i in range(count):
            specs.append(('note_on', {'channel': i % 16, 'note': i % 128, 'velocity': (i // 128) % 128}) if i % 4
                         else ('clock', {}))
        check_concat(ctx, specs)
        n += 1
        k_ladder += 1
    ctx.nontrivial(None, k_ladder)
    # a parse inside the iteration of another parse (the module-level functions keep no state between calls)
    if ctx.shard == 4 % ctx.nshards:
        for j in range(50):
            t1, t2 = gen.random_type(ctx.rng), gen.random_type(ctx.rng)
            a1, a2 = gen.random_attrs(t1, ctx.rng), gen.random_attrs(t2, ctx.rng)
            outer = midi1.encode(t1, a1) * 2
            inner = midi1.encode(t2, a2)
            seen = []

            def feeder():
                for i, b in enumerate(outer):
                    if i == len(outer) // 2:
                        seen.append(mido.parse_all(inner))
                        seen.append(mido.parse(inner))
                    yield b
            case = {'kind': 'nested', 'outer': outer[:20], 'inner': inner[:20]}
            try:
                got = mido.parse_all(feeder())
                p = Parser()
                p.feed(feeder())
                got2 = list(p)
                want = [Message(t1, **a1)] * 2
                ctx.check('concatenation parses back', got == want and got2 == want and seen[0] == [Message(t2, **a2)]
                          and seen[1] == Message(t2, **a2), 'nested-parse', case,
                          lambda: {'got': [m.hex() for m in got2][:4], 'inner': [m.hex() for m in seen[0]][:4]})
            except Exception as exc:
                ctx.fail('no exception', f'nested:{type(exc).__name__}', case, f'{type(exc).__name__}: {exc}')
            n += 1
        ctx.nontrivial(None, 50)
    # real-time inside sysex: payload lengths 0..8, every interior offset, 1..3 rt bytes
    rts = list(midi1.REALTIME_BYTES)
    r = 0
    for ln in range(0, 9):
        data = tuple((11 * i + ln) % 128 for i in range(ln))
        offs = list(range(1, ln + 2))          # before data[0] ... before F7
        combos = [(o,) for o in offs] + list(itertools.combinations_with_replacement(offs, 2))
        if ctx.tier == 'thorough':
            combos += list(itertools.combinations_with_replacement(offs, 3))
        else:
            combos += [c for c in itertools.combinations_with_replacement(offs, 3)][::5]
        for ci, combo in enumerate(combos):
            if (ci + ln) % ctx.nshards != ctx.shard:
                continue
            for rep in range(2 if ctx.tier == 'quick' else 6):
                ins = [(o, rts[(ci + k + rep * 5 + ln) % 6]) for k, o in enumerate(combo)]
                check_rt_in_sysex(ctx, data, ins)
                r += 1
    # each defined real-time byte at each offset of a fixed sysex
    for rb in rts:
        for off in range(1, 5):
            if (rb + off) % ctx.nshards == ctx.shard:
                check_rt_in_sysex(ctx, (1, 2, 3), [(off, rb)])
                check_rt_in_sysex(ctx, (1, 2, 3), [(off, rb), (off, rb), (off, rb)])
                r += 2
    ctx.nontrivial(None, r)
    ctx.extra('realtime_in_sysex_cases', r)
    n += r
    from .. import coldstart
    n += coldstart.phase(ctx, cold_jobs() + coldstart.parser_overlap_jobs(), 'concatenation parses back', offset=7)
    ctx.count('cases', n)
    ctx.put_sample({'kind': 'rt', 'data': [1, 2, 3], 'inserts': [[2, 0xF8], [4, 0xFF]]})


def cold_jobs():
    """Cold start: the first parses of a fresh interpreter, made by two threads."""
    from ..coldstart import msg_want
    no = ('note_on', {'channel': 3, 'note': 60, 'velocity': 100})
    pw = ('pitchwheel', {'channel': 15, 'pitch': -8192})
    sx = ('sysex', {'data': (1, 2, 3)})
    sp = ('songpos', {'pos': 300})
    tr = ('tune_request', {})

    def stream(*specs):
        return {'fn': 'parse_all', 'arg': [b for t, a in specs for b in midi1.encode(t, a)],
                'want': [msg_want(t, a) for t, a in specs]}
    rt = {'fn': 'parse_all', 'arg': [0xF0, 1, 0xF8, 2, 0xFF, 3, 0xF7, 0x90, 1, 2],
          'want': [msg_want('clock', {}), msg_want('reset', {}), msg_want(*sx),
                   msg_want('note_on', {'channel': 0, 'note': 1, 'velocity': 2})]}
    resync = {'fn': 'parse_all', 'arg': [0x40, 0x90, 5, 0xF4, 0xF0, 9] + midi1.encode(*pw) + midi1.encode(*tr),
              'want': [msg_want(*pw), msg_want(*tr)]}
    others = [stream(no, pw, sx), rt, resync, stream(sp, tr, no), stream(sx, sx)]
    mods = ['mido.tokenizer', 'mido.parser', 'mido.messages.decode', 'mido.messages.checks', 'mido.messages.messages']
    return [{'modules': mods, 'jobs': [first, others], 'k': 1} for first in ([stream(no, sx)], [rt], [resync, stream(tr)])]


def replay(ctx, case):
    k = case['kind']
    if k == 'cold':
        from .. import coldstart
        coldstart.replay(ctx, case, 'concatenation parses back')
        return
    if k == 'pair':
        a = dict(case['attrs'])
        if 'data' in a:
            a['data'] = tuple(a['data'])
        check_pair(ctx, case['prefix'], case['type'], a)
    elif k == 'concat':
        specs = []
        for t, a in case['msgs']:
            a = dict(a)
            if 'data' in a:
                a['data'] = tuple(a['data'])
            specs.append((t, a))
        check_concat(ctx, specs)
    else:
        check_rt_in_sysex(ctx, tuple(case['data']), [tuple(x) for x in case['inserts']])
