"""C07 - MIDI file save then load preserves every track.

Monitor at MidiFile.save / MidiFile(file=...): generated files (types 0/1/2,
running-status runs and breakers, deltas at every VLQ size boundary, payload
lengths 0/127/128/16383/16384, end_of_track absent / last / repeated /
mid-track) are saved and loaded; the loaded tracks are compared with an
independent end_of_track folding model applied to the original events.  A
save-must-raise table covers unstorable contents; byte-level mutations of
valid files decide the load-save-load fixed-point clause; edit-and-save-again
histories and a second charset catch state kept between calls.
"""
import fractions
import io
import os
import random
import tempfile

import mido
from mido import Message, MetaMessage, MidiFile, MidiTrack, UnknownMetaMessage

from .. import genfile
from ..ref import midi1, smf

ID = 'C07'
ANCHORS = ['mido.midifiles.midifiles', 'mido.midifiles.meta', 'mido.midifiles.tracks']
LEVEL = 'exploration'
RULE = ('generated files: seeded event lists per track (see vmon/genfile.py), distinct by '
        '(seed, shard, index) and non-trivial when the file has at least one track with at '
        'least one non-end_of_track event (files without are run and counted, not added to '
        'distinct_nontrivial); unstorable contents: the six real-time types, negative / float / '
        'Fraction times at each position class, type 0 with 0 or 2 tracks; fixed point: seeded '
        'bit flips, byte inserts/deletes, truncations and length-field edits of valid files, '
        'non-trivial when the mutated bytes load')
ASSUMPTIONS = [
    'the fixed-point clause is read modulo the end_of_track normalisation the first sentence defines',
    'a save that raises ValueError on loaded contents (e.g. a real-time status byte found in a track) is consistent with the third sentence and not judged',
    'smpte_offset hours are kept <= 23 here; hours > 31 is known finding F11, reported under C09',
    'ticks_per_beat 1..32767 (the header field is a signed 16 bit integer)',
]
DECIDING = ['header preserved', 'tracks == fold_eot(original)', 'one end_of_track, last',
            'unstorable => ValueError', 'storable => saves', 'fixed point load-save-load']
TIMEOUT = {'quick': 300, 'thorough': 2400}
EOT_MODES = ('end', 'end', 'absent', 'repeated', 'mid')


def nshards(tier):
    return 16


FILE_MODES = ('wb', 'w+b', 'ab', 'a+b', 'r+b', 'xb', 'pipe', 'unseekable')


class Unseekable:
    def __init__(self):
        self.buf = bytearray()

    def write(self, data):
        self.buf += data
        return len(data)

    def seekable(self):
        return False

    def flush(self):
        pass


def save_bytes(mid, real_file=False):
    if real_file in FILE_MODES:
        # save(file=...) to a real file object opened in some mode, or to something that cannot seek
        mode = real_file
        if mode == 'unseekable':
            f = Unseekable()
            mid.save(file=f)
            return bytes(f.buf)
        if mode == 'pipe':
            import threading
            r, w = os.pipe()
            out = []
            th = threading.Thread(target=lambda: out.append(os.fdopen(r, 'rb').read()))
            th.start()
            try:
                with os.fdopen(w, 'wb') as f:
                    mid.save(file=f)
            finally:
                th.join(10)
            return out[0] if out else b''
        fd, path = tempfile.mkstemp(suffix='.mid', prefix='vmon-c07-')
        os.close(fd)
        if mode == 'xb':
            os.remove(path)
        try:
            with open(path, mode) as f:
                mid.save(file=f)
            with open(path, 'rb') as f:
                return f.read()
        finally:
            if os.path.exists(path):
                os.remove(path)
    if real_file:
        fd, path = tempfile.mkstemp(suffix='.mid', prefix='vmon-c07-')
        os.close(fd)
        try:
            mid.save(path)
            with open(path, 'rb') as f:
                return f.read()
        finally:
            os.remove(path)
    buf = io.BytesIO()
    mid.save(file=buf)
    return buf.getvalue()


def load_bytes(b, real_file=False, **kw):
    if real_file is True:
        fd, path = tempfile.mkstemp(suffix='.mid', prefix='vmon-c07-')
        os.write(fd, b)
        os.close(fd)
        try:
            return MidiFile(path, **kw)
        finally:
            os.remove(path)
    return MidiFile(file=io.BytesIO(b), **kw)


def same_msgs(got, want):
    if len(got) != len(want):
        return False
    for g, w in zip(got, want):
        if type(g) is not type(w) or g != w or type(g.time) is not type(w.time):
            return False
    return True


def describe(track, limit=6):
    return [repr(m)[:90] for m in list(track)[:limit]]


def first_diff(got, want):
    for i, (g, w) in enumerate(zip(got, want)):
        if type(g) is not type(w) or g != w:
            return {'index': i, 'got': repr(g)[:160], 'want': repr(w)[:160]}
    return {'len_got': len(got), 'len_want': len(want)}


def roundtrip_case(ctx, seed, real_file=False, charset='latin1'):
    rng = random.Random(seed)
    fmt, div, tracks = genfile.rand_file_events(rng, EOT_MODES)
    case = lambda: {'kind': 'roundtrip', 'seed': seed, 'real_file': real_file, 'charset': charset}  # noqa: E731
    mid = genfile.midifile_of(fmt, div, tracks, charset, rng=random.Random(f'{seed}:assembly') if rng.random() < 0.5 else None)
    if rng.random() < 0.1:
        # elsewhere in the program a caller has been editing what the library's helpers handed back (the list from bytes() is
        # the caller's to extend, a dict() to clear ...): nothing of that may show in a file written afterwards
        from .. import gen
        gen.run_quietly(gen.perturbations()[0][1])
    frozen = rng.random() < 0.2
    if frozen:
        from .. import abuse
        abuse.freeze_tracks(mid)          # immutable messages in the tracks: the same file
    try:
        b = save_bytes(mid, real_file)
    except Exception as exc:
        ctx.check('storable => saves', False, f'save:{type(exc).__name__}', case,
                  f'{type(exc).__name__}: {exc}')
        return False
    ctx.count('storable => saves')
    try:
        back = load_bytes(b, real_file, charset=charset)
    except Exception as exc:
        ctx.check('tracks == fold_eot(original)', False, f'load:{type(exc).__name__}', case,
                  f'{type(exc).__name__}: {exc}')
        return False
    ctx.check('header preserved', (back.type, back.ticks_per_beat, len(back.tracks)) ==
              (fmt, div, len(tracks)), 'header', case,
              lambda: [back.type, back.ticks_per_beat, len(back.tracks), fmt, div, len(tracks)])
    for ti, evs in enumerate(tracks):
        if ti >= len(back.tracks):
            break
        want = [genfile.msg_of_event(e, charset) for e in smf.fold_eot(evs)]
        got = list(back.tracks[ti])
        kinds = '+'.join(sorted({e[0] for e in evs}))
        ctx.check('tracks == fold_eot(original)', same_msgs(got, want), 'track-differs', case,
                  lambda: {'track': ti, **first_diff(got, want)})
        n_eot = sum(1 for m in got if m.type == 'end_of_track')
        ctx.check('one end_of_track, last', n_eot == 1 and got and got[-1].type == 'end_of_track',
                  'end_of_track', case, lambda: {'track': ti, 'n': n_eot})
        ctx.check('result is a MidiTrack', isinstance(back.tracks[ti], MidiTrack), 'track-class', case, None)
    # the written bytes are conformant: reading them with clip=True changes nothing
    try:
        clipped = load_bytes(b, charset=charset, clip=True)
        ok = len(clipped.tracks) == len(back.tracks) and all(same_msgs(list(x), list(y))
                                                              for x, y in zip(clipped.tracks, back.tracks))
        ctx.check('tracks == fold_eot(original)', ok, 'clip-true-differs-on-own-output', case, None)
    except Exception as exc:
        ctx.fail('tracks == fold_eot(original)', f'clip-load:{type(exc).__name__}', case, f'{type(exc).__name__}: {exc}')
    # saving must not have modified the in-memory file
    for ti, evs in enumerate(tracks):
        orig = [genfile.msg_of_event(e, charset) for e in evs]
        now = list(mid.tracks[ti])
        if frozen:
            import mido.frozen as fz
            ctx.check('save leaves the file unmodified', all(isinstance(m, fz.Frozen) for m in now), 'save-replaced-frozen-messages',
                      case, lambda: {'track': ti})
            now = [fz.thaw_message(m) for m in now]
        ctx.check('save leaves the file unmodified', same_msgs(now, orig),
                  'save-mutated-input', case, lambda: {'track': ti})
    # edit one message and save again: the new bytes must reflect the edit
    cand = [(ti, mi) for ti, tr in enumerate(mid.tracks) for mi, m in enumerate(tr)]
    if cand:
        ti, mi = rng.choice(cand)
        m = mid.tracks[ti][mi]
        if frozen:
            m = mid.tracks[ti][mi] = m.copy(time=m.time + 1)      # immutable: the edit replaces the message
        else:
            m.time = m.time + 1
        try:
            back2 = load_bytes(save_bytes(mid))
            evs2 = list(tracks[ti])
            evs2[mi] = smf.with_delta(evs2[mi], evs2[mi][1] + 1)
            want = [genfile.msg_of_event(e, charset) for e in smf.fold_eot(evs2)]
            ctx.check('edit then save again', same_msgs(list(back2.tracks[ti]), want),
                      'stale-after-edit', case, lambda: {'track': ti, 'msg': mi})
        except Exception as exc:
            ctx.fail('edit then save again', f'resave:{type(exc).__name__}', case,
                     f'{type(exc).__name__}: {exc}')
    return any(not smf.is_eot(e) for evs in tracks for e in evs)


REALTIME = midi1.REALTIME_TYPES
BAD_TIMES = [-1, -2 ** 40, 0.5, 1.0, -0.0, float('nan'), float('inf'), fractions.Fraction(1, 2),
             fractions.Fraction(3)]


def unstorable_cases(ctx):
    n = 0

    def expect_valueerror(mid, what):
        nonlocal n
        n += 1
        case = {'kind': 'unstorable', 'what': what}
        buf = io.BytesIO()
        try:
            mid.save(file=buf)
        except ValueError:
            ctx.count('unstorable => ValueError')
            return
        except Exception as exc:
            ctx.check('unstorable => ValueError', False, f'{type(exc).__name__}', case,
                      f'{type(exc).__name__}: {exc}')
            return
        # it wrote something: does it at least load back equal?  (It cannot.)
        ctx.check('unstorable => ValueError', False, 'saved-unstorable:' + what.split(':')[0], case,
                  f'save() wrote {len(buf.getvalue())} bytes')

    filler = [Message('note_on', note=1, time=3), MetaMessage('track_name', name='x'),
              Message('sysex', data=(1, 2))]
    for t in REALTIME:
        for pos in (0, 1, 3):
            for fmt in (0, 1, 2):
                msgs = [m.copy() for m in filler]
                msgs.insert(pos, Message(t, time=2))
                mid = MidiFile(type=fmt)
                mid.tracks.append(MidiTrack(msgs))
                expect_valueerror(mid, f'realtime:{t}:pos{pos}:type{fmt}')
    for bt in BAD_TIMES:
        for kind in ('message', 'meta', 'unknown_meta', 'sysex', 'end_of_track'):
            for pos in (0, 2):
                msgs = [m.copy() for m in filler]
                if kind == 'message':
                    bad = Message('note_on', time=0).copy(skip_checks=True, time=bt)
                elif kind == 'sysex':
                    bad = Message('sysex', data=(1,)).copy(skip_checks=True, time=bt)
                elif kind == 'meta':
                    bad = MetaMessage('set_tempo', time=bt)
                elif kind == 'end_of_track':
                    bad = MetaMessage('end_of_track', time=bt)
                else:
                    bad = UnknownMetaMessage(0x60, (1,), time=bt)
                msgs.insert(pos, bad)
                mid = MidiFile(type=1)
                mid.tracks.append(MidiTrack(msgs))
                if kind == 'end_of_track':
                    # The bad delta sits on a message that is folded away.  If
                    # every delta that would actually be written is a
                    # non-negative integer the contents are storable.
                    from numbers import Integral
                    folded = model_fold(msgs)
                    if all(isinstance(m.time, Integral) and m.time >= 0 for m in folded):
                        n += 1
                        case = {'kind': 'unstorable', 'what': f'time:{bt!r}:{kind}:pos{pos}:folds-to-storable'}
                        try:
                            back = load_bytes(save_bytes(mid))
                            ctx.check('tracks == fold_eot(original)',
                                      same_msgs(list(back.tracks[0]), folded),
                                      'folded-bad-eot-differs', case, None)
                        except ValueError:
                            pass
                        except Exception as exc:
                            ctx.fail('unstorable => ValueError', f'{type(exc).__name__}', case,
                                     f'{type(exc).__name__}: {exc}')
                        continue
                expect_valueerror(mid, f'time:{bt!r}:{kind}:pos{pos}')
    for ntr in (0, 2, 3):
        mid = MidiFile(type=0)
        for _ in range(ntr):
            mid.tracks.append(MidiTrack([Message('note_on', time=1)]))
        expect_valueerror(mid, f'type0:{ntr}tracks')
    # and the storable neighbours must save
    for fmt, ntr in ((0, 1), (1, 0), (1, 2), (2, 0), (2, 3)):
        mid = MidiFile(type=fmt)
        for _ in range(ntr):
            mid.tracks.append(MidiTrack([Message('note_on', time=1)]))
        try:
            back = load_bytes(save_bytes(mid))
            ctx.check('storable => saves', back.type == fmt and len(back.tracks) == ntr,
                      'neighbour', {'kind': 'storable', 'fmt': fmt, 'ntr': ntr}, None)
        except Exception as exc:
            ctx.check('storable => saves', False, f'neighbour:{type(exc).__name__}',
                      {'kind': 'storable', 'fmt': fmt, 'ntr': ntr}, f'{type(exc).__name__}: {exc}')
        n += 1
    return n


def mutate(rng, b):
    b = bytearray(b)
    ops = rng.randrange(1, 4)
    for _ in range(ops):
        if not b:
            break
        r = rng.random()
        i = rng.randrange(len(b))
        if r < 0.35:
            b[i] ^= 1 << rng.randrange(8)
        elif r < 0.5:
            b[i] = rng.choice((0x00, 0x7F, 0x80, 0xF0, 0xF7, 0xFF, 0x2F, 0x90))
        elif r < 0.65:
            b.insert(i, rng.randrange(256))
        elif r < 0.8:
            del b[i]
        elif r < 0.9:
            del b[i:]
        else:
            # bump a chunk length field
            j = b.find(b'MTrk')
            if j >= 0 and j + 8 <= len(b):
                b[j + 7] = (b[j + 7] + rng.choice((1, -1, 2))) % 256
    return bytes(b)


def model_fold(track):
    """fold_eot on mido messages, independent of mido.midifiles.tracks."""
    out = []
    carry = 0
    for m in track:
        if m.type == 'end_of_track':
            carry += m.time
        else:
            out.append(m.copy(time=m.time + carry) if carry else m.copy())
            carry = 0
    out.append(MetaMessage('end_of_track', time=carry))
    return out


def fixed_point_case(ctx, seed):
    rng = random.Random(seed)
    fmt, div, tracks = genfile.rand_file_events(rng, ('end',), small=True, nmax=25)
    b0 = save_bytes(genfile.midifile_of(fmt, div, tracks))
    b = mutate(rng, b0) if rng.random() < 0.95 else b0
    case = lambda: {'kind': 'fixedpoint', 'seed': seed, 'bytes': b.hex() if len(b) < 400 else None}  # noqa: E731
    clip = rng.random() < 0.3
    try:
        F = load_bytes(b, clip=clip)
    except Exception:
        ctx.count('mutant did not load (not judged)')
        return False
    try:
        s1 = save_bytes(F)
    except ValueError:
        ctx.count('loaded contents unstorable (ValueError, not judged)')
        return False
    except Exception as exc:
        ctx.check('fixed point load-save-load', False, f'save-of-loaded:{type(exc).__name__}', case,
                  f'{type(exc).__name__}: {exc}')
        return True
    try:
        F2 = load_bytes(s1)
        ok = (F2.type, F2.ticks_per_beat, len(F2.tracks)) == (F.type, F.ticks_per_beat, len(F.tracks))
        for t1, t2 in zip(F.tracks, F2.tracks):
            ok = ok and same_msgs(list(t2), model_fold(t1))
        ctx.check('fixed point load-save-load', ok, 'load(save(F)) != fold(F)', case,
                  lambda: {'F': [describe(t) for t in F.tracks][:2], 'F2': [describe(t) for t in F2.tracks][:2]})
        s2 = save_bytes(F2)
        ctx.check('fixed point load-save-load', s2 == s1, 'save not idempotent', case,
                  lambda: {'s1': s1.hex()[:200], 's2': s2.hex()[:200]})
    except Exception as exc:
        ctx.check('fixed point load-save-load', False, f'reload:{type(exc).__name__}', case,
                  f'{type(exc).__name__}: {exc}')
    return True


def assembled_file_cases(ctx):
    """Small files with empty tracks and one-message tracks in every position, put together each way a program can (tracks=
    keyword, add_track, append, +, *, slices, copy ...): same type, same number of tracks, each track the fold of its events."""
    n = 0
    note = ('ch', 3, 0x90, [60, 64])
    eot = ('meta', 0, 0x2F, [])
    layouts = [(1, [[]]), (1, [[], []]), (1, [[note, eot], [], [note]]), (1, [[], [note, eot]]), (1, [[eot], [], [eot]]),
               (0, [[]]), (0, [[eot]]), (0, [[note]]), (2, [[], [note, eot], []]), (2, [[]]), (1, []), (2, [])]
    for how in genfile.ASSEMBLIES:
        for fmt, tracks in layouts:
            case = {'kind': 'assembled', 'how': how, 'type': fmt, 'tracks': [len(t) for t in tracks]}
            try:
                mid = genfile.midifile_of(fmt, 96, tracks, how=how)
                ctx.check('header preserved', (mid.type, len(mid.tracks)) == (fmt, len(tracks)), 'assembled:file-differs-before-saving', case,
                          lambda: [mid.type, len(mid.tracks)])
                back = load_bytes(save_bytes(mid))
                ctx.check('header preserved', (back.type, back.ticks_per_beat, len(back.tracks)) == (fmt, 96, len(tracks)), 'assembled:header', case,
                          lambda: [back.type, back.ticks_per_beat, len(back.tracks)])
                for ti, evs in enumerate(tracks):
                    if ti < len(back.tracks):
                        want = [genfile.msg_of_event(e) for e in smf.fold_eot(evs)]
                        ctx.check('tracks == fold_eot(original)', same_msgs(list(back.tracks[ti]), want), 'assembled:track-differs', case,
                                  lambda: {'track': ti, **first_diff(list(back.tracks[ti]), want)})
            except Exception as exc:
                ctx.fail('storable => saves', f'assembled:{type(exc).__name__}', case, f'{type(exc).__name__}: {exc}')
            n += 1
    return n


def charset_sequence(ctx):
    """The same texts saved under two charsets in one process (state kept
    between saves would show)."""
    texts = ['caf\xe9', '\xe9\xe8\xfc', 'abc', '']
    # the charset attribute is assigned after construction
    for a, b in (('latin1', 'utf-8'), ('utf-8', 'cp437'), ('cp1252', 'utf-16')):
        mid = MidiFile(charset=a)
        tr = MidiTrack([MetaMessage('text', text=t, time=1) for t in texts] + [MetaMessage('track_name', name='caf\xe9')])
        mid.tracks.append(tr)
        case = {'kind': 'charsetseq', 'seq': [a, b], 'at': 'reassigned'}
        try:
            save_bytes(mid)
            mid.charset = b
            back = load_bytes(save_bytes(mid), charset=b)
            ctx.check('tracks == fold_eot(original)', same_msgs(list(back.tracks[0])[:-1], list(tr)), 'charset-reassigned',
                      case, lambda: first_diff(list(back.tracks[0]), list(tr)))
        except Exception as exc:
            ctx.fail('tracks == fold_eot(original)', f'charset-reassigned:{type(exc).__name__}', case, repr(exc))
    for cs_seq in (('latin1', 'utf-8', 'latin1'), ('utf-8', 'cp1252', 'utf-8')):
        for cs in cs_seq:
            mid = MidiFile(charset=cs)
            tr = MidiTrack()
            for t in texts:
                tr.append(MetaMessage('text', text=t, time=1))
                tr.append(MetaMessage('track_name', name=t, time=0))
            mid.tracks.append(tr)
            case = {'kind': 'charsetseq', 'seq': list(cs_seq), 'at': cs}
            try:
                back = load_bytes(save_bytes(mid), charset=cs)
                ctx.check('tracks == fold_eot(original)',
                          same_msgs(list(back.tracks[0])[:-1], list(tr)), 'charset-sequence', case,
                          lambda: first_diff(list(back.tracks[0]), list(tr)))
            except Exception as exc:
                ctx.fail('tracks == fold_eot(original)', f'charsetseq:{type(exc).__name__}', case,
                         f'{type(exc).__name__}: {exc}')


def big_track_cases(ctx):
    """Track chunks whose size crosses 64 KiB, 1 000 000 bytes and 1 MiB while every single message
    stays small (16 000-byte sysex messages, note and text events)."""
    import struct
    from mido import Message, MetaMessage
    n = 0
    targets = [65535, 65536, 65537, 1000000, 1000001, 1048577]
    if ctx.tier == 'thorough':
        targets += [999999, 1048575, 1048576, 1100000, 2 ** 21 + 1, 5000000]
    for ti, target in enumerate(targets):
        for style in ('sysex', 'notes'):
            if style == 'notes' and target > 100000 and (ctx.tier == 'quick' or target > 1100000):
                continue        # a quarter of a million note events take mido ~10 s to read
            case = {'kind': 'big-track', 'chunk_bytes': target, 'style': style}
            tr = MidiTrack()
            eot = 4                                   # 00 FF 2F 00
            size = 0
            if style == 'sysex':
                unit = 1 + 1 + 2 + 16000 + 1          # delta F0 VLQ(16001) data F7
                while size + unit + eot + 200 <= target:
                    tr.append(Message('sysex', data=[(len(tr) + i) % 128 for i in range(16000)], time=len(tr) % 100))
                    size += unit
            else:
                # 3-byte events under running status would be 3 bytes; mido writes status bytes: delta(1) + 3
                while size + 4 + eot + 200 <= target:
                    tr.append(Message('note_on', channel=len(tr) % 16, note=len(tr) % 128, velocity=1 + len(tr) % 127, time=len(tr) % 128))
                    size += 4
            # fill up exactly with one text event: 00 FF 01 VLQ(len) text
            rest = target - size - eot
            ln = rest - 4 if rest - 4 < 128 else rest - 5
            if ln < 0 or (ln >= 128 and rest - 5 < 128):
                continue
            tr.append(MetaMessage('text', text='x' * ln, time=0))
            mid = MidiFile(type=1)
            mid.tracks.append(tr)
            mid.tracks.append(MidiTrack([Message('note_on', time=3)]))
            try:
                b = save_bytes(mid, real_file=(ti % 2 == 0))
                chunk = struct.unpack('>L', b[18:22])[0]
                ctx.check('storable => saves', chunk == target, 'big-track:chunk-size', case, {'chunk_bytes_written': chunk})
                back = load_bytes(b, real_file=(ti % 2 == 0))
                want = list(tr) + [MetaMessage('end_of_track', time=0)]
                ctx.check('tracks == fold_eot(original)', len(back.tracks) == 2 and same_msgs(list(back.tracks[0]), want)
                          and len(back.tracks[1]) == 2, 'big-track:differs', case,
                          lambda: {'tracks': len(back.tracks), 'messages': [len(t) for t in back.tracks], 'want': len(want)})
            except Exception as exc:
                ctx.fail('tracks == fold_eot(original)', f'big-track:{type(exc).__name__}', case, f'{type(exc).__name__}: {exc}'[:300])
            n += 1
    return n


def failed_save_cases(ctx):
    """A save() to a path fails half way (a message that cannot be stored, in the first / a later track);
    the caller keeps the exception for a while, saves a valid file to the same path, lets go of the
    exception, loads: the path holds exactly the valid file.  Also with rejected edits before the save."""
    import gc
    from mido import Message, MetaMessage
    from .. import abuse
    n = 0
    for bad_track in (0, 1, 2):
        for bad in ('float-time', 'realtime', 'negative-time'):
            for keep in ('kept-until-after-second-save', 'dropped-at-once'):
                case = {'kind': 'failed-save', 'bad_track': bad_track, 'bad': bad, 'exception': keep}
                fd, path = tempfile.mkstemp(suffix='.mid', prefix='vmon-c07-fs-')
                os.close(fd)
                try:
                    first = MidiFile(type=1, ticks_per_beat=96)
                    for ti in range(3):
                        tr = MidiTrack([MetaMessage('track_name', name=f'Piano {ti}', time=0)] +
                                       [Message('note_on', note=(ti * 7 + i) % 128, time=i % 5) for i in range(600)])
                        if ti == bad_track:
                            if bad == 'float-time':
                                tr.append(Message('note_on', time=0).copy(skip_checks=True, time=0.5))
                            elif bad == 'realtime':
                                tr.append(Message('clock', time=1))
                            else:
                                tr.append(Message('note_on', time=0).copy(skip_checks=True, time=-1))
                        first.tracks.append(tr)
                    held = None
                    try:
                        first.save(path)
                        ctx.check('unstorable => ValueError', False, 'failed-save:saved-unstorable', case, None)
                    except Exception as exc:
                        held = exc if keep.startswith('kept') else None
                    second = MidiFile(type=1, ticks_per_beat=480)
                    second.tracks.append(MidiTrack([MetaMessage('track_name', name='Organ', time=0), Message('note_on', note=1, time=3)]))
                    for m in second.tracks[0]:
                        abuse.failed_edits(m)
                    second.save(path)
                    want = save_bytes(second)
                    held = None
                    gc.collect()
                    with open(path, 'rb') as f:
                        on_disk = f.read()
                    ctx.check('tracks == fold_eot(original)', on_disk == want, 'failed-save:path-holds-something-else', case,
                              lambda: {'on_disk': on_disk[:60].hex(), 'len': len(on_disk), 'want': want[:60].hex(), 'want_len': len(want)})
                    back = MidiFile(path)
                    ctx.check('tracks == fold_eot(original)', len(back.tracks) == 1 and back.tracks[0][0].name == 'Organ'
                              and back.ticks_per_beat == 480, 'failed-save:loads-as-something-else', case,
                              lambda: {'tracks': len(back.tracks), 'first': repr(back.tracks[0][:1])})
                except Exception as exc:
                    ctx.fail('tracks == fold_eot(original)', f'failed-save:{type(exc).__name__}', case, f'{type(exc).__name__}: {exc}')
                finally:
                    if os.path.exists(path):
                        os.remove(path)
                n += 1
    return n


def run(ctx):
    n = 0
    nr = 120 if ctx.tier == 'quick' else 6000
    for j in range(nr):
        seed = f'{ctx.seed}:{ctx.shard}:rt{j}'
        nt = roundtrip_case(ctx, seed, real_file=(True if j % 10 == 0 else FILE_MODES[j % len(FILE_MODES)] if j % 10 == 5 else False))
        if nt:
            ctx.nontrivial(('rt', seed))
        n += 1
        if j < 2:
            fmt, div, tracks = genfile.rand_file_events(random.Random(seed), EOT_MODES)
            ctx.put_sample({'seed': seed, 'type': fmt, 'ticks_per_beat': div,
                            'tracks': [[list(e) if len(repr(e)) < 80 else [e[0], e[1], '...']
                                        for e in t[:6]] for t in tracks[:2]]})
    ctx.extra('roundtrip_files', nr)
    if ctx.shard == 0:
        k = unstorable_cases(ctx)
        ctx.nontrivial(None, k)
        ctx.extra('unstorable_table_cases', k)
        n += k
        charset_sequence(ctx)
    if ctx.shard == 2 % ctx.nshards:
        k = failed_save_cases(ctx)
        ctx.nontrivial(None, k)
        ctx.extra('failed_save_cases', k)
        n += k
    if ctx.shard == 3 % ctx.nshards:
        k = assembled_file_cases(ctx)
        ctx.nontrivial(None, k)
        ctx.extra('assembled_file_cases', k)
        n += k
    if ctx.shard == 1 % ctx.nshards:
        k = big_track_cases(ctx)
        ctx.nontrivial(None, k)
        ctx.extra('big_track_cases', k)
        n += k
    nf = 130 if ctx.tier == 'quick' else 12500
    loaded = 0
    for j in range(nf):
        seed = f'{ctx.seed}:{ctx.shard}:fp{j}'
        if fixed_point_case(ctx, seed):
            ctx.nontrivial(('fp', seed))
            loaded += 1
        n += 1
    ctx.extra('mutated_files', nf)
    if ctx.shard == 0:
        from .. import customspec
        customspec.scenario(ctx, 'tracks == fold_eot(original)', 'tracks == fold_eot(original)',
                            'tracks == fold_eot(original)')
        n += 1
    ctx.extra('mutated_files_that_loaded', loaded)
    ctx.count('cases', n)


def replay(ctx, case):
    k = case['kind']
    if k == 'roundtrip':
        roundtrip_case(ctx, case['seed'], case.get('real_file', False), case.get('charset', 'latin1'))
    elif k == 'fixedpoint':
        fixed_point_case(ctx, case['seed'])
    elif k == 'charsetseq':
        charset_sequence(ctx)
    elif k == 'big-track':
        big_track_cases(ctx)
    elif k == 'failed-save':
        failed_save_cases(ctx)
    elif k == 'assembled':
        assembled_file_cases(ctx)
    else:
        unstorable_cases(ctx)
