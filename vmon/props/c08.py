"""C08 - File bytes conform to the Standard MIDI File format in both directions.

Write direction: the bytes of save() are parsed by an independent strict SMF
reference decoder (vmon.ref.smf) that flags every deviation (chunk lengths,
non-minimal VLQs, illegal running status, sysex framing, missing FF 2F 00) and
whose events must equal the in-memory file.  Read direction: the reference
encoder produces alternative legal encodings of the same event list (running
status on any eligible event, padded VLQs, longer header chunk) which mido must
load to exactly that list, identically with debug output on, and with clip=True
differing from clip=False only for data bytes above 127.
"""
import contextlib
import io
import random

from mido import Message, MidiFile

from .. import genfile
from ..ref import meta as rmeta
from ..ref import midi1, smf

ID = 'C08'
ANCHORS = ['mido.midifiles.midifiles', 'mido.midifiles.meta']
LEVEL = 'exploration'
RULE = ('seeded event lists (vmon/genfile.py: channel runs and breakers, system common, '
        'sysex, all known and unknown meta types, VLQ-boundary deltas and lengths); write '
        'direction: one save per file; read direction: per file 4 encodings (running status '
        'never/always/random x padded VLQs x header chunk length 6..40) x {debug} x {clip} '
        'and one encoding with data bytes raised above 127. Distinct by (seed, index, '
        'encoding choice); non-trivial when the file contains at least one event besides '
        'end_of_track (write) / when the encoding differs from the plain one or exercises a '
        'flag (read)')
ASSUMPTIONS = [
    'vmon/ref/smf.py is a correct reading of the SMF 1.0 specification',
    'system common events F1/F2/F3/F6 inside tracks are stored raw by mido (not standard SMF); the reference decoder accepts them with their MIDI 1.0 lengths',
    'clip=False must raise some OSError or ValueError for a data byte above 127 (the statement does not name the class)',
]
DECIDING = ['written bytes conformant', 'decoded events == in-memory events',
            'alternative encoding loads to the event list', 'debug on == debug off',
            'clip=True == clip=False on conformant input', 'clip=False raises on byte > 127',
            'clip=True clips exactly those bytes']
TIMEOUT = {'quick': 300, 'thorough': 2400}
EOT_MODES = ('end', 'end', 'absent', 'repeated', 'mid')


def nshards(tier):
    return 16


_toggle = [0]


def load(b, ascii_ok=False, **kw):
    if kw.get('debug'):
        _toggle[0] += 1
        if _toggle[0] % 2 or not ascii_ok:
            sink = io.StringIO()
            with contextlib.redirect_stdout(sink):
                mid = MidiFile(file=io.BytesIO(b), **kw)
            return mid, len(sink.getvalue())
        # a terminal / pipe that can encode ASCII only, with strict error handling
        raw = io.BytesIO()
        sink = io.TextIOWrapper(raw, encoding='ascii', errors='strict', write_through=True)
        with contextlib.redirect_stdout(sink):
            mid = MidiFile(file=io.BytesIO(b), **kw)
        sink.flush()
        return mid, len(raw.getvalue())
    return MidiFile(file=io.BytesIO(b), **kw), 0


class ShortReads(io.RawIOBase):
    """A raw, unbuffered, seekable stream (an unbuffered file on a network file system) that hands out at most 4096 bytes
    per read() call - fewer than asked for without being at the end."""

    def __init__(self, data, limit=4096):
        self.data, self.pos, self.limit = bytes(data), 0, limit

    def readable(self):
        return True

    def seekable(self):
        return True

    def tell(self):
        return self.pos

    def seek(self, offset, whence=0):
        self.pos = max(0, min(len(self.data), offset + (0, self.pos, len(self.data))[whence]))
        return self.pos

    def readinto(self, buf):
        k = min(len(buf), self.limit, len(self.data) - self.pos)
        buf[:k] = self.data[self.pos:self.pos + k]
        self.pos += k
        return k


def short_read_cases(ctx):
    """Events with payloads beyond one read() of a raw stream load like from memory."""
    n = 0
    rng = random.Random(f'{ctx.seed}:short-reads')
    for size in (100, 4095, 4096, 4097, 5000, 9000, 70000):
        tracks = [[('meta', 3, 0x01, [rng.randrange(256) for _ in range(size)]), ('sysex', 1, [rng.randrange(128) for _ in range(size)]),
                   ('meta', 0, 0x7F, [rng.randrange(256) for _ in range(size)]), ('ch', 5, 0x90, [1, 2]),
                   ('meta', 9, 0x60, [rng.randrange(256) for _ in range(size)]), ('meta', 0, 0x2F, [])]]
        b, _ = smf.encode_file(1, 96, tracks)
        case = {'kind': 'short-reads', 'payload_bytes': size}
        try:
            mem = MidiFile(file=io.BytesIO(b))
            raw = MidiFile(file=ShortReads(b))
            ctx.check('alternative encoding loads to the event list', events_of(raw) == events_of(mem) == [smf.norm_track(t) for t in tracks],
                      'short-reads-differ', case, None)
        except Exception as exc:
            ctx.fail('alternative encoding loads to the event list', f'short-reads:{type(exc).__name__}', case, f'{type(exc).__name__}: {exc}'[:200])
        n += 1
    return n


def events_of(mid):
    return [smf.norm_track(smf.events_of_track(t)) for t in mid.tracks]


def write_case(ctx, seed):
    rng = random.Random(seed)
    fmt, div, tracks = genfile.rand_file_events(rng, EOT_MODES)
    case = lambda: {'kind': 'write', 'seed': seed}  # noqa: E731
    loaded_at = []
    if rng.random() < 0.3:
        # messages of two origins in one track: some came out of a decoder (a file, a port), some were constructed - and
        # next to a decoded one sits a constructed one with the same numbers in other roles (channel <-> data bytes)
        tracks = [list(t) for t in tracks]
        for ti, evs in enumerate(tracks):
            i = 0
            while i < len(evs):
                e = evs[i]
                if e[0] == 'ch' and rng.random() < 0.5:
                    loaded_at.append((ti, i))
                    d = list(e[3])
                    c = e[2] & 0x0F
                    if d and d[0] < 16 and rng.random() < 0.7:
                        twin = ('ch', e[1], (e[2] & 0xF0) | d[0], (d[1:] + [c]))
                        evs.insert(i + 1, twin)
                        i += 1
                i += 1
    mid = genfile.midifile_of(fmt, div, tracks, rng=random.Random(f'{seed}:assembly') if rng.random() < 0.5 else None)
    for ti, i in loaded_at:
        m = mid.tracks[ti][i]
        mid.tracks[ti][i] = Message.from_bytes(m.bytes(), time=m.time)
    if rng.random() < 0.15:
        # the same values as bool / int subclass / IntEnum member / numpy-like Integral
        from .. import gen
        for tr in mid.tracks:
            for msg in tr:
                for k, v in list(vars(msg).items()):
                    if type(v) is int and k != 'type_byte':
                        alts = gen.exotic_ints(v)
                        try:
                            setattr(msg, k, alts[rng.randrange(len(alts))])
                        except Exception as exc:
                            ctx.fail('written bytes conformant', f'exotic-int-rejected:{type(exc).__name__}', case, f'{k}: {exc}')
    if rng.random() < 0.2:
        from .. import abuse
        abuse.freeze_tracks(mid)          # immutable messages in the tracks: the same file
    buf = io.BytesIO()
    try:
        mid.save(file=buf)
    except Exception as exc:
        ctx.fail('written bytes conformant', f'save:{type(exc).__name__}', case,
                 f'{type(exc).__name__}: {exc}')
        return False
    b = buf.getvalue()
    try:
        d = smf.decode_file(b)
    except smf.Malformed as exc:
        ctx.check('written bytes conformant', False, 'malformed', case, str(exc))
        return True
    ctx.check('written bytes conformant', not d['flags'],
              'nonconformant:' + (d['flags'][0].split(':')[-1].strip()[:40] if d['flags'] else ''),
              case, lambda: d['flags'][:5])
    ctx.check('header fields', (d['format'], d['ntrks'], d['division'], d['header_len']) ==
              (fmt, len(tracks), div, 6), 'header', case,
              lambda: [d['format'], d['ntrks'], d['division'], d['header_len']])
    want = [smf.norm_track(smf.fold_eot(t)) for t in tracks]
    got = [smf.norm_track(t) for t in d['tracks']]
    ctx.check('decoded events == in-memory events', got == want, 'events-differ', case,
              lambda: first_diff(got, want))
    # The attribute-level view of the in-memory objects agrees with the generator
    mem = [smf.norm_track(smf.fold_eot(smf.events_of_track(t))) for t in mid.tracks]
    ctx.check('decoded events == in-memory events', mem == want, 'memory-view-differs', case, None)
    return any(not smf.is_eot(e) for t in tracks for e in t)


def charset_write_case(ctx, cs, seed):
    """Write direction under a non-default charset: text payloads in the file are text.encode(charset)."""
    import mido
    rng = random.Random(seed)
    texts = ['', 'abc', 'caf\xe9 \xfc', 'A' * 130] if cs != 'ascii' else ['', 'abc']
    if cs in ('utf-8', 'utf-16', 'shift_jis', 'utf-16-le'):
        texts += ['\u3042\u3044', 'x\u30a2']
    mid = MidiFile(charset=cs)
    tr = mido.MidiTrack()
    for t in texts:
        try:
            t.encode(cs)
        except UnicodeError:
            continue
        tr.append(mido.MetaMessage(rng.choice(('text', 'lyrics', 'marker')), text=t, time=rng.choice((0, 200))))
        tr.append(mido.MetaMessage('track_name', name=t))
        tr.append(mido.Message('note_on', note=1, time=1))
    mid.tracks.append(tr)
    case = {'kind': 'charset-write', 'charset': cs, 'seed': seed}
    try:
        buf = io.BytesIO()
        mid.save(file=buf)
        d = smf.decode_file(buf.getvalue())
        ctx.check('written bytes conformant', not d['flags'], f'charset-nonconformant:{cs}', case, d['flags'][:3])
        got = [bytes(e[3]) for e in d['tracks'][0] if e[0] == 'meta' and e[2] in (1, 3, 5, 6)]
        want = [getattr(m, 'text', None).encode(cs) if hasattr(m, 'text') else m.name.encode(cs)
                for m in tr if m.is_meta]
        ctx.check('decoded events == in-memory events', got == want, f'charset-payload:{cs}', case,
                  lambda: {'got': [g.hex() for g in got][:4], 'want': [w.hex() for w in want][:4]})
        back, _ = load(buf.getvalue(), charset=cs)
        ctx.check('alternative encoding loads to the event list', list(back.tracks[0])[:-1] == list(tr),
                  f'charset-reload:{cs}', case, None)
    except Exception as exc:
        ctx.fail('written bytes conformant', f'charset-write:{type(exc).__name__}', case, f'{type(exc).__name__}: {exc}')


def big_track_file_modes(ctx, seed):
    """A track chunk beyond 64 KiB written through real file objects in different modes."""
    import os
    import tempfile
    import mido
    rng = random.Random(seed)
    mid = MidiFile(type=1)
    tr = mido.MidiTrack()
    for i in range(30000):
        tr.append(mido.Message('note_on', note=i % 128, velocity=(i // 128) % 128, time=i % 3))
        if i % 500 == 0:
            tr.append(mido.Message('sysex', data=tuple(range(100)), time=1))
    mid.tracks.append(tr)
    mid.tracks.append(mido.MidiTrack([mido.Message('program_change', program=5, time=7)]))
    ref = io.BytesIO()
    mid.save(file=ref)
    want = smf.decode_file(ref.getvalue())
    ctx.check('written bytes conformant', not want['flags'] and len(ref.getvalue()) > 70000, 'big-track-nonconformant',
              {'kind': 'big-track', 'mode': 'BytesIO'}, want['flags'][:3])
    for mode in ('wb', 'ab', 'a+b', 'w+b', 'r+b'):
        fd, path = tempfile.mkstemp(suffix='.mid', prefix='vmon-c08-')
        os.close(fd)
        case = {'kind': 'big-track', 'mode': mode}
        try:
            with open(path, mode) as f:
                mid.save(file=f)
            with open(path, 'rb') as f:
                b = f.read()
            ctx.check('written bytes conformant', b == ref.getvalue(), f'big-track-differs:{mode}', case,
                      {'len': len(b), 'want_len': len(ref.getvalue()), 'flags': smf.decode_file(b)['flags'][:3] if b[:4] == b'MThd' else 'no header'})
        except Exception as exc:
            ctx.fail('written bytes conformant', f'big-track:{type(exc).__name__}:{mode}', case, repr(exc))
        finally:
            os.remove(path)


def first_diff(got, want):
    if len(got) != len(want):
        return {'tracks_got': len(got), 'tracks_want': len(want)}
    for ti, (g, w) in enumerate(zip(got, want)):
        for i, (x, y) in enumerate(zip(g, w)):
            if x != y:
                return {'track': ti, 'index': i, 'got': repr(x)[:150], 'want': repr(y)[:150]}
        if len(g) != len(w):
            return {'track': ti, 'len_got': len(g), 'len_want': len(w),
                    'tail_got': repr(g[-2:])[:200], 'tail_want': repr(w[-2:])[:200]}
    return None


def read_case(ctx, seed):
    rng = random.Random(seed)
    fmt, div, tracks = genfile.rand_file_events(rng, ('end',), nmax=40)
    want = [smf.norm_track(t) for t in tracks]
    nontrivial = 0
    # The debug trace prints repr(message); on an ASCII-only stdout that is printable only when every
    # repr is ASCII (printing non-ASCII text to such a stream fails in any Python program - not judged)
    ascii_ok = all(ord(c) < 128 for t in tracks for e in t for c in repr(genfile.msg_of_event(e)))
    encs = [('never', False, 6), ('always', False, 6),
            ('random', True, rng.choice((6, 7, 8, 12, 40))),
            (rng.choice(('always', 'random')), rng.random() < 0.5, rng.choice((6, 6, 9, 14, 36)))]
    for running, pad, hl in encs:
        b, nrun = smf.encode_file(fmt, div, tracks, rng, pad=pad, running=running, header_len=hl)
        case = lambda: {'kind': 'read', 'seed': seed, 'running': running, 'pad': pad,  # noqa: E731
                        'header_len': hl, 'bytes': b.hex() if len(b) < 600 else None}
        # sanity: our own strict decoder reads the alternative encoding back
        results = {}
        for debug in (False, True):
            for clip in (False, True):
                try:
                    mid, nout = load(b, ascii_ok=ascii_ok, debug=debug, clip=clip)
                    results[(debug, clip)] = (mid.type, mid.ticks_per_beat, events_of(mid))
                    if debug:
                        ctx.check('debug output produced', nout > 0, 'debug-silent', case, None)
                except Exception as exc:
                    results[(debug, clip)] = f'{type(exc).__name__}: {exc}'
        # one stream, several loads: the caller's file object is the caller's - after a load (debug on or off) it is open,
        # positioned behind the file that was read, and a second file that follows in the same stream loads from there
        try:
            import gc
            stream = io.BytesIO(b + b)
            seen = []
            for dbg in (True, False):
                with contextlib.redirect_stdout(io.StringIO()):
                    m1 = MidiFile(file=stream, debug=dbg)
                gc.collect()
                seen.append((m1.type, m1.ticks_per_beat, events_of(m1)))
                ctx.check('debug on == debug off', not stream.closed, 'load-closed-the-callers-stream', case, {'debug': dbg})
            stream.seek(0)
            with contextlib.redirect_stdout(io.StringIO()):
                m3 = MidiFile(file=stream, debug=True)
            seen.append((m3.type, m3.ticks_per_beat, events_of(m3)))
            ctx.check('debug on == debug off', seen[0] == seen[1] == seen[2], 'second-load-from-the-same-stream-differs', case, None)
        except Exception as exc:
            ctx.check('debug on == debug off', isinstance(results[(False, False)], str), f'same-stream:{type(exc).__name__}', case,
                      f'{type(exc).__name__}: {exc}')
        base = results[(False, False)]
        ctx.check('alternative encoding loads to the event list',
                  not isinstance(base, str) and base == (fmt, div, want),
                  f'read:running={running}:pad={pad}:hl={"6" if hl == 6 else ">6"}', case,
                  lambda: base if isinstance(base, str) else first_diff(base[2], want))
        ctx.check('debug on == debug off', results[(True, False)] == base,
                  f'debug:hl={"6" if hl == 6 else ">6"}', case,
                  lambda: results[(True, False)] if isinstance(results[(True, False)], str) else 'differs')
        ctx.check('clip=True == clip=False on conformant input',
                  results[(False, True)] == base and results[(True, True)] == base, 'clip-conformant',
                  case, lambda: results[(False, True)] if isinstance(results[(False, True)], str) else 'differs')
        ctx.nontrivial(('read', seed, running, pad, hl))
        nontrivial += 1
        ctx.extra('running_status_events_in_encodings', nrun)
    # one encoding with data bytes raised above 127
    raised = []
    t2 = []
    nraise = 0
    for t in tracks:
        tt = []
        for e in t:
            if e[0] in ('ch', 'sys') and e[3] and rng.random() < 0.15:
                data = list(e[3])
                i = rng.randrange(len(data))
                data[i] = rng.choice((128, 129, 200, 254, 255))
                tt.append((e[0], e[1], e[2], data))
                nraise += 1
            elif e[0] == 'sysex' and e[2] and rng.random() < 0.3:
                data = list(e[2])
                i = rng.randrange(len(data))
                data[i] = rng.choice((128, 129, 200, 254, 255))
                tt.append(('sysex', e[1], data))
                nraise += 1
            else:
                tt.append(e)
        t2.append(tt)
        raised.append(tt)
    if nraise:
        b, _ = smf.encode_file(fmt, div, t2, rng, pad=False, running='never', header_len=6)
        case = lambda: {'kind': 'clip', 'seed': seed, 'bytes': b.hex() if len(b) < 600 else None}  # noqa: E731
        try:
            load(b, clip=False)
            ctx.check('clip=False raises on byte > 127', False, 'clip-false-accepted', case, None)
        except (OSError, ValueError):
            ctx.count('clip=False raises on byte > 127')
        except Exception as exc:
            ctx.check('clip=False raises on byte > 127', False, f'clip-false-{type(exc).__name__}',
                      case, f'{type(exc).__name__}: {exc}')
        wantc = []
        for t in t2:
            tt = []
            for e in t:
                if e[0] in ('ch', 'sys'):
                    tt.append((e[0], e[1], e[2], [min(x, 127) for x in e[3]]))
                elif e[0] == 'sysex':
                    tt.append(('sysex', e[1], [min(x, 127) for x in e[2]]))
                else:
                    tt.append(e)
            wantc.append(smf.norm_track(tt))
        for debug in (False, True):
            try:
                mid, _ = load(b, ascii_ok=False, clip=True, debug=debug)
                got = events_of(mid)
                ctx.check('clip=True clips exactly those bytes', got == wantc, 'clip-true-differs',
                          case, lambda: first_diff(got, wantc))
            except Exception as exc:
                ctx.check('clip=True clips exactly those bytes', False,
                          f'clip-true-{type(exc).__name__}', case, f'{type(exc).__name__}: {exc}')
        ctx.nontrivial(('clip', seed))
        nontrivial += 1
    return nontrivial


def run(ctx):
    n = 0
    nw = 100 if ctx.tier == 'quick' else 6000
    for j in range(nw):
        seed = f'{ctx.seed}:{ctx.shard}:w{j}'
        if write_case(ctx, seed):
            ctx.nontrivial(('w', seed))
        n += 1
    ctx.extra('files_written_and_decoded', nw)
    if ctx.shard == 9 % ctx.nshards:
        big_track_file_modes(ctx, f'{ctx.seed}:big')
        ctx.nontrivial(('big-track',))
        n += 1
    if ctx.shard == 12 % ctx.nshards:
        k = short_read_cases(ctx)
        ctx.nontrivial(None, k)
        n += k
    if ctx.shard == 11 % ctx.nshards:
        k = overwrite_cases(ctx)
        ctx.nontrivial(None, k)
        n += k
    if ctx.shard == 10 % ctx.nshards:
        from .. import customspec
        customspec.scenario(ctx, 'alternative encoding loads to the event list', 'alternative encoding loads to the event list',
                            'decoded events == in-memory events')
        n += 1
    for ci, cs in enumerate(('utf-8', 'utf-16', 'shift_jis', 'cp1252', 'utf-16-le', 'latin1', 'ascii', 'koi8-r')):
        if ci % ctx.nshards == ctx.shard:
            charset_write_case(ctx, cs, f'{ctx.seed}:{cs}')
            ctx.nontrivial(('charset-write', cs))
            n += 1
    from .. import coldstart
    n += coldstart.phase(ctx, overlap_jobs(), 'written bytes conformant', offset=3)
    if ctx.shard == 4 % ctx.nshards:
        # the same kinds of files again after other (often failing, or result-editing) calls elsewhere in mido
        from .. import gen
        for pi, (name, thunk) in enumerate(gen.perturbations()):
            gen.run_quietly(thunk)
            for j in range(2):
                seed = f'{ctx.seed}:after:{pi}:{j}'
                write_case(ctx, seed)
                n += read_case(ctx, seed + 'r') + 1
        ctx.extra('cases_after_perturbations', 4 * len(gen.perturbations()))
    nr = 40 if ctx.tier == 'quick' else 2500
    for j in range(nr):
        seed = f'{ctx.seed}:{ctx.shard}:r{j}'
        n += read_case(ctx, seed)
        if j == 0:
            rng = random.Random(seed)
            fmt, div, tracks = genfile.rand_file_events(rng, ('end',), nmax=40)
            b, nrun = smf.encode_file(fmt, div, tracks, rng, pad=True, running='random', header_len=12)
            ctx.put_sample({'seed': seed, 'type': fmt, 'tracks': len(tracks),
                            'events': sum(len(t) for t in tracks), 'running_status_used': nrun,
                            'encoding_head': b[:40].hex()})
    ctx.extra('event_lists_read', nr)
    ctx.count('cases', n)


def overwrite_cases(ctx):
    """save(filename) onto a path that already holds a longer / shorter / equally long file, a directory
    entry created by another save, twice in a row: the path then holds exactly the bytes of the file saved
    last (compared with a save to memory and read with the strict decoder)."""
    import os
    import tempfile
    n = 0
    rng = random.Random(f'{ctx.seed}:overwrite')
    for j in range(12):
        case = {'kind': 'overwrite', 'index': j}
        fd, path = tempfile.mkstemp(suffix='.mid', prefix='vmon-c08-ow-')
        os.close(fd)
        try:
            sizes = [(40, 3), (2, 1), (2, 1), (25, 2), (0, 1), (60, 1)] if j % 2 == 0 else [(3, 1), (50, 4), (1, 1)]
            for si, (nmax, ntr) in enumerate(sizes):
                tracks = [genfile.rand_track_events(rng, nmax=nmax, eot='end', small=True) for _ in range(ntr)]
                mid = genfile.midifile_of(1, 96 + si, tracks)
                mid.save(path)
                buf = io.BytesIO()
                mid.save(file=buf)
                with open(path, 'rb') as f:
                    on_disk = f.read()
                ctx.check('written bytes conformant', on_disk == buf.getvalue(), 'overwrite:path-differs-from-memory-save', case,
                          lambda: {'step': si, 'on_disk_len': len(on_disk), 'memory_len': len(buf.getvalue())})
                try:
                    d = smf.decode_file(on_disk)
                    ctx.check('written bytes conformant', not d['flags'] and d['ntrks'] == ntr, 'overwrite:nonconformant', case,
                              lambda: {'step': si, 'flags': d['flags'][:3]})
                except smf.Malformed as exc:
                    ctx.check('written bytes conformant', False, 'overwrite:malformed', case, str(exc))
        except Exception as exc:
            ctx.fail('written bytes conformant', f'overwrite:{type(exc).__name__}', case, f'{type(exc).__name__}: {exc}')
        finally:
            if os.path.exists(path):
                os.remove(path)
        n += 1
    return n


def overlap_jobs():
    """Two threads save and load different files at the same time (vmon.coldstart, warm mode: one
    import, all schedules with at most one pre-emption; plus one cold job for the first save/load)."""
    from ..coldstart import msg_want
    eot = ['meta', 0, 0x2F, []]

    def f(fmt, div, tracks):
        b, _ = smf.encode_file(fmt, div, [[tuple(e) for e in t] for t in tracks])
        return b
    ta = [[['ch', 0, 0x90, [60, 100]], ['sysex', 5, [1, 2, 3]], ['meta', 0, 0x51, [7, 161, 32]], ['ch', 96, 0x80, [60, 0]], eot],
          [['meta', 0, 0x03, [65, 66]], ['ch', 1, 0xC5, [9]], eot]]
    tb = [[['ch', 3, 0xB1, [7, 127]], ['ch', 0, 0xE2, [0, 64]], ['meta', 200, 0x01, [120, 121, 122, 233]], eot],
          [['sysex', 0, []], ['sys', 2, 0xF2, [1, 2]], ['ch', 128, 0x9F, [1, 2]], eot], [eot]]

    def want_load(fmt, div, tracks):
        out = []
        for t in tracks:
            ms = []
            for e in t:
                if e[0] in ('ch', 'sys'):
                    typ, a = midi1.decode([e[2]] + list(e[3]))
                    ms.append(msg_want(typ, a, time=e[1]))
                elif e[0] == 'sysex':
                    ms.append(msg_want('sysex', {'data': list(e[2])}, time=e[1]))
                else:
                    typ, a = rmeta.decode_payload(e[2], e[3], 'latin1')
                    ms.append(msg_want(typ, a, 'MetaMessage', time=e[1]))
            out.append(ms)
        return [fmt, div, out]
    sa = {'fn': 'save', 'fmt': 1, 'division': 96, 'tracks': ta, 'want': f(1, 96, ta).hex()}
    sb = {'fn': 'save', 'fmt': 2, 'division': 480, 'tracks': tb, 'want': f(2, 480, tb).hex()}
    la = {'fn': 'load', 'data': f(1, 96, ta).hex(), 'want': want_load(1, 96, ta)}
    lb = {'fn': 'load', 'data': f(2, 480, tb).hex(), 'want': want_load(2, 480, tb)}
    mods = ['mido.midifiles.midifiles', 'mido.midifiles.meta', 'mido.midifiles.tracks', 'mido.messages.encode',
            'mido.messages.decode', 'mido.messages.messages']
    # a file that must be refused (clip=False, a sysex byte above 127) is loaded while the other thread measures and saves
    from ..coldstart import file_activity
    bad = bytes.fromhex('4d546864000000060000000100604d54726b0000000b00f0030180f700ff2f00')
    refuse = {'fn': 'load', 'data': bad.hex(), 'want': '__sequential__'}
    return [{'modules': mods + ['mido.messages.checks'], 'jobs': [file_activity(), [refuse, lb, refuse]], 'k': 1, 'fresh': False},
            {'modules': mods, 'jobs': [[sa], [sb, lb]], 'k': 1, 'fresh': False},
            {'modules': mods, 'jobs': [[la], [lb, sb]], 'k': 1, 'fresh': False},
            {'modules': mods, 'jobs': [[sa, la], [sb, lb]], 'k': 1, 'fresh': True, 'limit': 60}]


def replay(ctx, case):
    if case['kind'] == 'cold':
        from .. import coldstart
        coldstart.replay(ctx, case, 'written bytes conformant')
        return
    if case['kind'] == 'short-reads':
        short_read_cases(ctx)
    elif case['kind'] == 'overwrite':
        overwrite_cases(ctx)
    elif case['kind'] == 'big-track':
        big_track_file_modes(ctx, 'replay')
    elif case['kind'] == 'charset-write':
        charset_write_case(ctx, case['charset'], case['seed'])
    elif case['kind'] == 'write':
        write_case(ctx, case['seed'])
    else:
        read_case(ctx, case['seed'])
