"""C09 - Meta message codec accepts and preserves every documented value.

Boundary monitor on MetaMessage() / copy / attribute assignment / bytes() /
MetaMessage.from_bytes and on the track reader (a one-event file produced by
the reference SMF encoder, loaded through MidiFile(file=...)); oracle = the
independent meta reference codec vmon.ref.meta (type bytes, payload layouts,
documented domains).  Finite domains are enumerated completely.
"""
import fractions
import io
import random
import struct

import mido
from mido import MetaMessage, MidiFile, MidiTrack, UnknownMetaMessage

from .. import gen as gen_mod
from ..ref import meta as rmeta
from ..ref import smf

ID = 'C09'
ANCHORS = ['mido.midifiles.meta']
LEVEL = 'exploration'
RULE = ('exhaustive finite domains: 256 denominators 2**0..2**255, 30 keys, 65 536 sequence '
        'numbers, 256 channel_prefix and 256 midi_port values, smpte grid 4 rates x 256 hours '
        'x {0,59} minutes x {0,59} seconds x {0,255} frames x {0,99} sub_frames; tempo limits '
        '+ random; text/name/data payloads of lengths 0,1,127,128,129,255,256,16383,16384 '
        '(+999 999 and 1 000 000 through the reader) in all eight text types; out-of-domain '
        'values through constructor, copy and assignment; encode/assign/encode histories. '
        'Distinct by (type, attribute values, entry point); all are non-trivial: each compares '
        'mido with the reference codec')
ASSUMPTIONS = [
    'vmon/ref/meta.py is a correct reading of the SMF meta event layouts and docs/meta_message_types.rst',
    'text is restricted to latin-1 encodable strings here (the default charset); other charsets are C17',
    'an unknown meta type name given to MetaMessage() raises KeyError; the statement speaks about attribute values and this is logged, not judged',
    'bool values and frame_rate given as an equal float (24.0) are not judged',
]
DECIDING = ['bytes == FF type VLQ(len) payload (reference)', 'payload items are bytes',
            'from_bytes(bytes) == message', 'track reader == message',
            'documented value accepted', 'out-of-domain rejected']
TIMEOUT = {'quick': 300, 'thorough': 2400}
OKREJ = (ValueError, TypeError)
K_SMPTE = 'smpte_offset-hours>31'
K_SEQ = 'sequencer_specific-data-not-normalised'


def nshards(tier):
    return 16


def one_event_file(event_bytes, delta):
    body = bytes(rmeta.vlq(delta)) + bytes(event_bytes) + b'\x00\xff\x2f\x00'
    return (b'MThd' + struct.pack('>LHHH', 6, 1, 1, 96) + b'MTrk'
            + struct.pack('>L', len(body)) + body)


def judge_message(ctx, t, attrs, via_reader=True, delta=0, key=None):
    """Construct, encode, decode one in-domain meta message."""
    key = key or t
    case = lambda: {'kind': 'msg', 'type': t, 'attrs': {k: (v if not isinstance(v, str) or len(v) < 50  # noqa: E731
                                                            else ['str', len(v)]) for k, v in attrs.items()},
                    'delta': delta}
    try:
        m = MetaMessage(t, time=delta, **attrs)
    except Exception as exc:
        ctx.check('documented value accepted', False, f'rejected:{key}', case,
                  f'{type(exc).__name__}: {exc}')
        return None
    ctx.count('documented value accepted')
    known = None
    if t == 'smpte_offset' and attrs.get('hours', 0) > 31:
        known = K_SMPTE
    ref = rmeta.encode(t, attrs)
    try:
        b = m.bytes()
    except Exception as exc:
        ctx.fail('bytes == FF type VLQ(len) payload (reference)', known or f'bytes-raised:{key}', case,
                 f'{type(exc).__name__}: {exc}')
        return m
    if known:
        # hours do not fit the 5-bit field (known finding F11): judge the
        # rest of the event, report the first payload byte under the known key
        ctx.check('bytes == FF type VLQ(len) payload (reference)', b[:3] == ref[:3] and b[4:] == ref[4:],
                  f'bytes-differ:{key}', case, lambda: {'got': b[:12], 'ref': ref[:12]})
    else:
        ctx.check('bytes == FF type VLQ(len) payload (reference)', b == ref and isinstance(b, list),
                  f'bytes-differ:{key}', case, lambda: {'got': b[:16], 'ref': ref[:16], 'len': [len(b), len(ref)]})
    ctx.check('payload items are bytes', all(type(x) is int and 0 <= x <= 255 for x in b),
              f'non-byte-item:{key}', case, lambda: [x for x in b if not (type(x) is int and 0 <= x <= 255)][:5])
    # the decoder is judged on well-formed input: mido's own encoding when it is right, else the reference's
    wire = b if (known or b == ref) else ref
    for conv in (list, bytearray):
        try:
            d = MetaMessage.from_bytes(conv(wire))
            ok = d == m.copy(time=0) and type(d) is MetaMessage
            ctx.check('from_bytes(bytes) == message', ok, known or f'from_bytes-differs:{key}', case,
                      lambda: {'got': repr(d)[:200], 'want': repr(m)[:200]})
        except Exception as exc:
            ctx.fail('from_bytes(bytes) == message', known or f'from_bytes-raised:{key}', case,
                     f'{type(exc).__name__}: {exc}')
    if via_reader:
        try:
            back = MidiFile(file=io.BytesIO(one_event_file(wire, delta)))
            got = back.tracks[0][0]
            ctx.check('track reader == message', got == m and len(back.tracks[0]) == 2,
                      known or f'reader-differs:{key}', case,
                      lambda: {'got': repr(got)[:200], 'want': repr(m)[:200]})
            # meta payloads are not MIDI data bytes: clip=True must not touch them
            got = MidiFile(file=io.BytesIO(one_event_file(wire, delta)), clip=True).tracks[0][0]
            ctx.check('track reader == message', got == m, known or f'reader-clip-differs:{key}', case,
                      lambda: {'got': repr(got)[:200], 'want': repr(m)[:200]})
        except Exception as exc:
            ctx.fail('track reader == message', known or f'reader-raised:{key}', case,
                     f'{type(exc).__name__}: {exc}')
    return m


def judge_reject(ctx, t, name, value, entry='ctor'):
    case = lambda: {'kind': 'reject', 'type': t, 'attr': name, 'value': repr(value)[:60], 'entry': entry}  # noqa: E731
    base = MetaMessage(t)
    before = dict(vars(base))
    try:
        if entry == 'ctor':
            r = MetaMessage(t, **{name: value})
        elif entry == 'copy':
            r = base.copy(**{name: value})
        else:
            setattr(base, name, value)
            r = base
    except OKREJ:
        ctx.count('out-of-domain rejected')
        ctx.check('rejected call leaves the message unchanged', vars(base) == before,
                  f'changed-by-rejected-{entry}:{t}.{name}', case, None)
        return
    except AttributeError:
        # unknown attribute names through assignment
        ctx.count('out-of-domain rejected')
        return
    except Exception as exc:
        ctx.check('out-of-domain rejected', False, f'{type(exc).__name__}:{t}.{name}', case,
                  f'{type(exc).__name__}: {exc}')
        return
    ctx.check('out-of-domain rejected', False, f'accepted-invalid:{t}.{name}', case, repr(r)[:200])


REJECTS = {
    ('time_signature', 'denominator'): [0, -4, 3, 6, 12, 2 ** 60 + 1, 2 ** 52 + 1, 2 ** 64 - 1,
                                        2 ** 255 - 1, 2 ** 255 + 2 ** 254, 2 ** 256, 2 ** 300, 4.0,
                                        '4', None, fractions.Fraction(4), [4], 2 ** 20 + 1, 2 ** 31 - 1,
                                        2 ** 53 + 1, 2 ** 100 + 1, 2 ** 200 + 2 ** 100],
    ('time_signature', 'numerator'): [-1, 256, 1.0, '4', None],
    ('time_signature', 'clocks_per_click'): [-1, 256, 24.0, None],
    ('time_signature', 'notated_32nd_notes_per_beat'): [-1, 256, 8.0, None],
    ('set_tempo', 'tempo'): [-1, 2 ** 24, 2 ** 24 + 5, 1.5, 500000.0, '1', None, [1], 2 ** 64],
    ('sequence_number', 'number'): [-1, 65536, 1.0, '1', None, 2 ** 31],
    ('channel_prefix', 'channel'): [-1, 256, 1.0, None, '0'],
    ('midi_port', 'port'): [-1, 256, 0.0, None, '0'],
    ('key_signature', 'key'): ['H', 'c', '', None, 5, 'Cm#', 'cb', 'C ', 'Hm', 'Fb', 'E#', b'C', 0]
    + [(sf, mi) for sf in range(-7, 8) for mi in (0, 1)] + [[0, 0], (0,), (0, 0, 0), ('C',), -7, 7, 1.0, 'C\x00', ' C', 'CM',
                                                             'c#m', 'AM', 'Am ', True],
    ('smpte_offset', 'frame_rate'): [23, '24', 29.98, None, 0, 31, 60],
    ('smpte_offset', 'hours'): [-1, 256, 1.0, None, '1'],
    ('smpte_offset', 'minutes'): [-1, 60, 255, 1.0, None],
    ('smpte_offset', 'seconds'): [-1, 60, 255, 1.5, None],
    ('smpte_offset', 'frames'): [-1, 256, 1.0, None],
    ('smpte_offset', 'sub_frames'): [-1, 100, 255, 1.0, None],
    ('text', 'text'): [5, None, b'abc', ['a'], 1.5],
    ('copyright', 'text'): [5, None, b'abc'],
    ('track_name', 'name'): [5, None, b'abc'],
    ('instrument_name', 'name'): [0, None],
    ('lyrics', 'text'): [0, None],
    ('marker', 'text'): [0, None],
    ('cue_marker', 'text'): [0, None],
    ('device_name', 'name'): [0, None],
}
BAD_TIMES = ['1', None, [1], 1j]


class MyInt(int):
    pass


def integral_types(ctx):
    """Integral values that are not exactly int (int subclass, IntEnum): same domains as int."""
    import enum
    n = 0
    E = enum.IntEnum('E', {'TEMPO_OVER': 2 ** 24, 'CH_OVER': 300, 'NUM_OVER': 70000, 'MIN_OVER': 60, 'NEG': -1,
                           'DEN_BAD': 6, 'DEN_OVER': 2 ** 256, 'OK3': 3, 'OK4': 4})
    bad = [('set_tempo', 'tempo', MyInt(2 ** 24)), ('set_tempo', 'tempo', E.TEMPO_OVER), ('set_tempo', 'tempo', MyInt(-1)),
           ('channel_prefix', 'channel', MyInt(300)), ('channel_prefix', 'channel', E.CH_OVER), ('midi_port', 'port', E.NEG),
           ('sequence_number', 'number', E.NUM_OVER), ('sequence_number', 'number', MyInt(65536)),
           ('smpte_offset', 'minutes', E.MIN_OVER), ('smpte_offset', 'sub_frames', MyInt(100)),
           ('time_signature', 'denominator', E.DEN_BAD), ('time_signature', 'denominator', MyInt(0)),
           ('time_signature', 'denominator', E.DEN_OVER), ('time_signature', 'numerator', MyInt(256))]
    for t, name, v in bad:
        for entry in ('ctor', 'copy', 'setattr'):
            judge_reject(ctx, t, name, v, entry)
            n += 1
    good = [('set_tempo', {'tempo': MyInt(500)}), ('channel_prefix', {'channel': E.OK3}), ('time_signature', {'denominator': E.OK4}),
            ('sequence_number', {'number': MyInt(65535)}), ('midi_port', {'port': MyInt(0)})]
    for t, a in good:
        judge_message(ctx, t, {k: int(v) for k, v in a.items()})
        try:
            m = MetaMessage(t, **a)
            ctx.check('documented value accepted', m.bytes() == rmeta.encode(t, {k: int(v) for k, v in a.items()}),
                      f'integral-type-bytes:{t}', {'kind': 'integral', 'type': t}, m.bytes())
        except Exception as exc:
            ctx.check('documented value accepted', False, f'integral-type-rejected:{t}', {'kind': 'integral', 'type': t}, repr(exc))
        n += 1
    return n


def rejections(ctx):
    n = 0
    for (t, name), pool in REJECTS.items():
        for v in pool:
            for entry in ('ctor', 'copy', 'setattr'):
                judge_reject(ctx, t, name, v, entry)
                n += 1
    for t in rmeta.SPECS:
        for v in BAD_TIMES:
            for entry in ('ctor', 'copy', 'setattr'):
                judge_reject(ctx, t, 'time', v, entry)
                n += 1
        for entry in ('ctor', 'copy', 'setattr'):
            judge_reject(ctx, t, 'bogus', 1, entry)
            other = 'tempo' if t != 'set_tempo' else 'key'
            judge_reject(ctx, t, other, 'C' if other == 'key' else 1, entry)
            n += 2
    return n


TEXT_LENGTHS = [0, 1, 127, 128, 129, 255, 256, 16383, 16384]


def text_of(n, style, rng):
    if style == 'ascii':
        return ''.join(chr(32 + (i * 7) % 95) for i in range(n))
    if style == 'high':
        return ''.join(chr(128 + (i * 11) % 128) for i in range(n))
    return ''.join(chr(rng.randrange(256)) for _ in range(n))


def history(ctx, seed):
    """encode / assign / encode on one object (stale encodings)."""
    from .. import genfile
    rng = random.Random(seed)
    t = rng.choice([n for n in rmeta.SPECS if n not in ('end_of_track',)])
    a = genfile.rand_meta_attrs(rng, t)
    m = MetaMessage(t, **a)
    case = lambda: {'kind': 'history', 'seed': seed}  # noqa: E731
    for i in range(6):
        if rng.random() < 0.7:
            m.bytes()
        a2 = genfile.rand_meta_attrs(rng, t)
        name = rng.choice(list(a2))
        a[name] = a2[name]
        setattr(m, name, a2[name])
        ref = rmeta.encode(t, a)
        b = m.bytes()
        ctx.check('history: bytes after assignment == reference', b == ref, f'stale-encoding:{t}', case,
                  lambda: {'step': i, 'attr': name, 'got': b[:12], 'ref': ref[:12]})
        d = MetaMessage.from_bytes(b)
        ctx.check('from_bytes(bytes) == message', d == m, f'history-decode:{t}', case, repr(d)[:160])
        c = m.copy()
        ctx.check('history: bytes after assignment == reference', c.bytes() == ref, f'copy-encoding:{t}',
                  case, None)


def other_charsets(ctx):
    """Text meta messages under an explicitly selected charset (meta_charset context):
    payload == text.encode(charset), decoding gives the text back."""
    from mido.midifiles.meta import meta_charset
    n = 0
    for cs in ('utf-8', 'utf-16', 'utf-16-le', 'shift_jis', 'cp1252', 'utf-32'):
        for text in ('', 'a', 'abc', 'caf\xe9', '\u3042' if cs in ('utf-8', 'utf-16', 'utf-16-le', 'shift_jis', 'utf-32') else 'z',
                     'A' * 200):
            case = {'kind': 'charset', 'charset': cs, 'text': text[:20]}
            try:
                payload = list(text.encode(cs))
            except UnicodeError:
                continue
            try:
                with meta_charset(cs):
                    m = MetaMessage('text', text=text)
                    b = m.bytes()
                    d = MetaMessage.from_bytes(b)
                ctx.check('bytes == FF type VLQ(len) payload (reference)', b == [0xFF, 1] + rmeta.vlq(len(payload)) + payload,
                          f'charset-bytes:{cs}', case, b[:16])
                ctx.check('from_bytes(bytes) == message', d == m, f'charset-from_bytes:{cs}', case, repr(d)[:100])
            except Exception as exc:
                ctx.fail('from_bytes(bytes) == message', f'charset:{type(exc).__name__}', case, f'{type(exc).__name__}: {exc}')
            n += 1
    return n


def through_file_cases(ctx):
    """Reading them from a track: a meta message of every type - plain, frozen, and as a user's subclass - sits in a
    track of a file saved under the file's charset (default and others), after another message, after an end_of_track in
    mid-track that carries a delta; the file is saved, read back with the same charset, and the message that comes back
    equals the original (its delta grown by what the removed end_of_track carried)."""
    import io
    import mido
    from mido.frozen import freeze_message
    from .. import genfile
    rng = random.Random(f'{ctx.seed}:through-file')
    n = 0
    for cs in ('latin1', 'utf-8', 'cp1252', 'utf-16-le', 'shift_jis'):
        for t in list(rmeta.SPECS):
            if t == 'end_of_track':
                continue
            for dress in ('plain', 'frozen', 'after-mid-eot', 'frozen-after-mid-eot', 'encoded-before', 'frozen-encoded-before'):
                a = genfile.rand_meta_attrs(rng, t)
                if t in rmeta.TEXT_TYPES:
                    name = rmeta.SPECS[t][1][0]
                    a = {name: rng.choice(('caf\xe9 \xfc', 'plain', '', '\xa3\xa5' * 70))}
                    try:
                        if a[name].encode(cs).decode(cs) != a[name]:      # (shift_jis: the yen sign comes back as a backslash)
                            raise UnicodeError
                    except UnicodeError:
                        a = {name: 'ascii only'}
                    if cs == 'shift_jis' and rng.random() < 0.5:
                        a = {name: '\u3042\u30a2'}
                if t == 'sequencer_specific':
                    a = {'data': tuple(a['data'])}
                case = {'kind': 'through-file', 'charset': cs, 'type': t, 'attrs': {k: repr(v) for k, v in a.items()}, 'dress': dress}
                try:
                    m = MetaMessage(t, time=3, **a)
                    inside = freeze_message(m) if dress.startswith('frozen') else m
                    if dress.endswith('encoded-before'):
                        # the message object has been encoded, printed and hashed outside the file (default charset) before
                        for f in (lambda: inside.bytes(), lambda: inside.hex(), lambda: str(inside), lambda: hash(inside)):
                            try:
                                f()
                            except (UnicodeError, TypeError):
                                pass
                    head = [mido.Message('note_on', note=1, time=2)]
                    if dress.endswith('after-mid-eot'):
                        head.append(MetaMessage('end_of_track', time=5))
                    mid = mido.MidiFile(charset=cs)
                    mid.tracks.append(mido.MidiTrack(head + [inside, MetaMessage('end_of_track', time=1)]))
                    buf = io.BytesIO()
                    mid.save(file=buf)
                    back = mido.MidiFile(file=io.BytesIO(buf.getvalue()), charset=cs)
                    want = m.copy(time=8 if dress.endswith('after-mid-eot') else 3)
                    got = back.tracks[0][1] if len(back.tracks[0]) == 3 else None
                    ctx.check('track reader == message', got == want and type(got) is MetaMessage and inside == m,
                              f'through-file:{dress}:{cs}', case, lambda: {'got': repr(got)[:160], 'want': repr(want)[:160]})
                    # and the bytes in the file are the reference encoding under that charset
                    ref = [0xFF, rmeta.TYPE_BYTE[t]] + rmeta.vlq(len(rmeta.payload(t, a, cs))) + list(rmeta.payload(t, a, cs))
                    ctx.check('bytes == FF type VLQ(len) payload (reference)', bytes(ref) in buf.getvalue(),
                              f'through-file-bytes:{dress}:{cs}', case, None)
                except Exception as exc:
                    ctx.fail('track reader == message', f'through-file:{type(exc).__name__}:{dress}', case, f'{type(exc).__name__}: {exc}')
                n += 1
    # text of any length up to the reader's one-million-byte message limit: written, and read back
    for t, nbytes in (('text', 999995), ('lyrics', 999996), ('marker', 1000000), ('sequencer_specific', 1000000), ('track_name', 999999)):
        case = {'kind': 'through-file', 'type': t, 'payload_bytes': nbytes, 'dress': 'at-the-limit', 'charset': 'latin1'}
        try:
            if t == 'sequencer_specific':
                m = MetaMessage(t, data=tuple(i % 256 for i in range(nbytes)), time=1)
            else:
                m = MetaMessage(t, **{rmeta.SPECS[t][1][0]: ('abcdefghij' * (nbytes // 10 + 1))[:nbytes]}, time=1)
            mid = mido.MidiFile()
            mid.tracks.append(mido.MidiTrack([m]))
            buf = io.BytesIO()
            mid.save(file=buf)
            back = mido.MidiFile(file=io.BytesIO(buf.getvalue()))
            ctx.check('track reader == message', back.tracks[0][0] == m, 'through-file:at-the-limit', case, repr(back.tracks[0][0])[:80])
        except Exception as exc:
            ctx.fail('track reader == message', f'through-file:at-the-limit:{type(exc).__name__}', case, f'{type(exc).__name__}: {exc}'[:200])
        n += 1
    return n


def sequencer_specific(ctx):
    """F12 (known finding): data is stored as given, neither validated nor normalised."""
    n = 0
    for data in ((), (1,), (0, 255, 128), tuple(range(256))):
        judge_message(ctx, 'sequencer_specific', {'data': data}, delta=3)       # tuples round-trip
        n += 1
    for data, what in (([1, 2], 'list data'), ([300], 'item 300'), ('abc', 'str data'), ([-1], 'item -1')):
        case = {'kind': 'seqspec', 'data': repr(data)}
        try:
            m = MetaMessage('sequencer_specific', data=data)
            b = m.bytes()
            ok_items = all(type(x) is int and 0 <= x <= 255 for x in b)
            same = ok_items and MetaMessage.from_bytes(b) == m
            ctx.check('from_bytes(bytes) == message', same, K_SEQ, case, f'{what}: not preserved / not a byte')
        except OKREJ:
            ctx.count('out-of-domain rejected')
        except Exception as exc:
            ctx.fail('from_bytes(bytes) == message', K_SEQ, case, f'{type(exc).__name__}: {exc}')
        n += 1
    # whatever container the data came in: encoding does not touch the message - encoding twice gives the
    # same bytes (the reference's), the data is what it was, and messages created later are not affected
    for data in ([1, 2, 3], [], (4, 5), bytearray(b'\x07\x08'), None):
        case = {'kind': 'seqspec', 'data': repr(data), 'what': 'encode twice'}
        try:
            m = MetaMessage('sequencer_specific', time=2) if data is None else MetaMessage('sequencer_specific', data=data, time=2)
            before = list(m.data)
            ref = rmeta.encode('sequencer_specific', {'data': tuple(before)})
            b1, b2 = m.bytes(), m.bytes()
            fresh = MetaMessage('sequencer_specific')
            ctx.check('bytes == FF type VLQ(len) payload (reference)', list(b1) == list(ref) and list(b2) == list(ref)
                      and list(m.data) == before and list(fresh.data) == [] and list(fresh.bytes()) == [0xFF, 0x7F, 0],
                      'seqspec-encoding-touches-the-message', case,
                      lambda: {'first': list(b1)[:12], 'second': list(b2)[:12], 'data_after': list(m.data)[:12],
                               'fresh_default_data': list(fresh.data)[:12]})
        except Exception as exc:
            ctx.fail('bytes == FF type VLQ(len) payload (reference)', f'seqspec-encode-twice:{type(exc).__name__}', case,
                     f'{type(exc).__name__}: {exc}')
        n += 1
    # default
    case = {'kind': 'seqspec', 'data': 'default'}
    m = MetaMessage('sequencer_specific')
    ctx.check('from_bytes(bytes) == message', MetaMessage.from_bytes(m.bytes()) == m, K_SEQ, case,
              'default data [] decodes as ()')
    return n + 1


def unknown_meta(ctx, rng):
    n = 0
    for tb in [b for b in range(128) if b not in rmeta.BY_BYTE][::3] + [0x80, 0xFF]:
        for ln in (0, 1, 127, 128, 300):
            data = tuple(rng.randrange(256) for _ in range(ln))
            case = {'kind': 'unknown', 'type_byte': tb, 'len': ln}
            m = UnknownMetaMessage(tb, data, time=4)
            ref = [0xFF, tb] + rmeta.vlq(ln) + list(data)
            b = m.bytes()
            ctx.check('bytes == FF type VLQ(len) payload (reference)', b == ref, 'unknown-bytes', case, b[:10])
            try:
                d = MetaMessage.from_bytes(b)
                ctx.check('from_bytes(bytes) == message', d == m.copy(time=0)
                          and type(d) is UnknownMetaMessage, 'unknown-from_bytes', case, repr(d)[:120])
                back = MidiFile(file=io.BytesIO(one_event_file(b, 4)))
                ctx.check('track reader == message', back.tracks[0][0] == m, 'unknown-reader', case,
                          repr(back.tracks[0][0])[:120])
            except Exception as exc:
                ctx.fail('from_bytes(bytes) == message', f'unknown-raised:{type(exc).__name__}', case,
                         f'{type(exc).__name__}: {exc}')
            n += 1
    return n


def malformed_from_bytes(ctx):
    n = 0
    for b in ([], [0xFF], [0xFF, 0x01], [0x90, 1, 2], [0xFF, 0x01, 0x05, 1, 2], [0xFF, 0x01, 0x01],
              [0xFF, 0x01, 0x81], [0xFF, 0x01, 0x81, 0x00, 1], [0xFF, 0x51, 0x03, 1, 2, 3, 4]):
        case = {'kind': 'malformed', 'bytes': b}
        try:
            r = MetaMessage.from_bytes(list(b))
            ctx.check('malformed bytes rejected', False, 'malformed-accepted', case, repr(r))
        except (ValueError, IndexError) as exc:
            # IndexError on an empty list: the statement does not cover malformed input; logged only
            ctx.count('malformed bytes rejected')
        except Exception as exc:
            ctx.count('malformed bytes rejected')
        n += 1
    return n


def run(ctx):
    rng = ctx.rng
    sh, N = ctx.shard, ctx.nshards
    n = 0
    # sequence numbers: all 65 536, sharded
    for v in range(sh, 65536, N):
        judge_message(ctx, 'sequence_number', {'number': v}, via_reader=(v % 16 < 2 or v > 65500),
                      delta=v % 300)
        n += 1
    # denominators, keys, channel/port: all, sharded
    k = 0
    for e in range(256):
        if e % N == sh:
            judge_message(ctx, 'time_signature', {'denominator': 2 ** e, 'numerator': e,
                                                  'clocks_per_click': 255 - e,
                                                  'notated_32nd_notes_per_beat': (e * 7) % 256}, delta=e)
            judge_message(ctx, 'channel_prefix', {'channel': e})
            judge_message(ctx, 'midi_port', {'port': e}, delta=128)
            k += 3
    for i, key in enumerate(sorted(rmeta.KEYS)):
        if i % N == sh:
            judge_message(ctx, 'key_signature', {'key': key}, delta=i)
            k += 1
    n += k
    # smpte grid
    g = 0
    for rate in (24, 25, 29.97, 30):
        for hours in range(256):
            if hours % N != sh:
                continue
            for mi in (0, 59):
                for se in (0, 59):
                    for fr in (0, 255):
                        for sf in (0, 99):
                            judge_message(ctx, 'smpte_offset',
                                          {'frame_rate': rate, 'hours': hours, 'minutes': mi,
                                           'seconds': se, 'frames': fr, 'sub_frames': sf},
                                          via_reader=(mi == 0 and fr == 0))
                            g += 1
    n += g
    ctx.extra('smpte_grid_cases', g)
    # tempo
    tempos = [0, 1, 255, 256, 65535, 65536, 500000, 16777215]
    for j in range(200 if ctx.tier == 'quick' else 20000):
        tempos.append(rng.randrange(2 ** 24))
    for v in tempos:
        judge_message(ctx, 'set_tempo', {'tempo': v}, delta=v % 1000)
        n += 1
    if ctx.tier == 'thorough':
        # all 16 777 216 tempos
        for v in range(sh, 2 ** 24, N):
            judge_message(ctx, 'set_tempo', {'tempo': v}, via_reader=False)
        n += len(range(sh, 2 ** 24, N))
        ctx.extra('tempos_enumerated', len(range(sh, 2 ** 24, N)))
    # texts
    for i, t in enumerate(rmeta.TEXT_TYPES):
        attr = rmeta.SPECS[t][1][0]
        for j, ln in enumerate(TEXT_LENGTHS):
            if (i * len(TEXT_LENGTHS) + j) % N != sh:
                continue
            for style in ('ascii', 'high', 'random'):
                judge_message(ctx, t, {attr: text_of(ln, style, rng)}, delta=ln % 200)
                n += 1
    if sh == 4 % N:
        # texts whose encoding starts like a byte-order mark or another charset's signature
        for text in ('\xef\xbb\xbfabc', '\xef\xbb\xbf', '\xff\xfea\x00', '\xfe\xff\x00a', '\xef\xbb\xbf\xe9', '+ADw-', '\x1b$B',
                     '\x00\x00\xfe\xff', '\xff\xfe\x00\x00', 'caf\xc3\xa9', '=?utf-8?q?x?='):
            for t in ('text', 'track_name', 'lyrics'):
                judge_message(ctx, t, {rmeta.SPECS[t][1][0]: text}, delta=1)
                n += 1
    if sh == 3 % N:
        for ln in (999999, 1000000):
            judge_message(ctx, 'text', {'text': 'x' * ln})
            n += 1
        ctx.extra('million_byte_texts', 2)
    judge_message(ctx, 'end_of_track', {}, delta=5)
    n += 1
    if sh == 0:
        n += rejections(ctx)
        n += integral_types(ctx)
        n += sequencer_specific(ctx)
        n += exotic_int_cases(ctx)
        n += subclass_cases(ctx)
    if sh == 2 % N:
        n += vlq_helper_cases(ctx)
        n += other_charsets(ctx)
        n += through_file_cases(ctx)
        n += unknown_meta(ctx, rng)
        n += malformed_from_bytes(ctx)
        # unknown type names: logged only
        for bad in ('bogus', '', None, 5, 'note_on', 'unknown_meta'):
            try:
                MetaMessage(bad)
                ctx.count('unknown type name accepted (logged)')
            except Exception as exc:
                ctx.extra('unknown_type_name_exceptions', {type(exc).__name__: 1})
    for j in range(60 if ctx.tier == 'quick' else 6000):
        history(ctx, f'{ctx.seed}:{sh}:h{j}')
        n += 1
    if sh == 1 % N:
        from .. import customspec
        customspec.scenario(ctx, 'track reader == message', 'from_bytes(bytes) == message',
                            'bytes == FF type VLQ(len) payload (reference)')
        n += 1
    if sh == 6 % N:
        # a sample again after other (often failing, or result-editing) calls elsewhere in mido
        from .. import gen
        for pi, (name, thunk) in enumerate(gen.perturbations()):
            gen.run_quietly(thunk)
            judge_message(ctx, 'text', {'text': text_of((0, 127, 128, 300, 16384)[pi % 5], 'high', rng)}, delta=(0, 128, 960)[pi % 3])
            judge_message(ctx, 'set_tempo', {'tempo': 500000 + pi}, delta=16384)
            judge_message(ctx, 'sequencer_specific', {'data': tuple(range(pi % 7))}, delta=1)
            n += 3
    ctx.nontrivial(None, n)
    from .. import coldstart
    n += coldstart.phase(ctx, cold_jobs(), 'from_bytes(bytes) == message', offset=5)
    ctx.count('cases', n)
    ctx.exhaustive = True
    ctx.put_sample({'type': 'time_signature', 'denominator': '2**' + str(sh + 16), 'checked': 'bytes/from_bytes/reader'})
    ctx.put_sample({'type': 'smpte_offset', 'frame_rate': 29.97, 'hours': sh, 'minutes': 59, 'seconds': 0,
                    'frames': 255, 'sub_frames': 99})
    ctx.put_sample({'type': 'text', 'len': 128, 'style': 'high'})


def vlq_helper_cases(ctx):
    """encode_variable_int / decode_variable_int are inverse on 0 .. 2**28-1 (all 1- and 2-byte values, every
    boundary and a sample of the 3- and 4-byte ones) and agree with the reference; from_bytes copes with
    payload lengths that need three length bytes."""
    from mido.midifiles.meta import decode_variable_int, encode_variable_int
    n = 0
    values = list(range(0, 16384 + 3)) + [2 ** k + d for k in range(14, 28) for d in (-1, 0, 1)] + \
        [32768, 40000, 49151, 49152, 65535, 65536, 81919, 81920, 100000, 1000000, 2 ** 21 - 1, 2 ** 21, 2 ** 28 - 1] + \
        [(i * 2654435761) % (2 ** 28) for i in range(1, 400)]
    bad = None
    for v in values:
        enc = encode_variable_int(v)
        if list(enc) != list(rmeta.vlq(v)) or decode_variable_int(list(enc)) != v:
            bad = {'value': v, 'encoded': list(enc), 'reference': list(rmeta.vlq(v)), 'decoded_back': decode_variable_int(list(enc))}
            break
        n += 1
    ctx.check('bytes == FF type VLQ(len) payload (reference)', bad is None, 'variable-length-helpers', {'kind': 'vlq-helpers'}, bad)
    for ln in (16385, 32768, 40000, 49152, 65536, 81920, 100000):
        for t, attr, val in (('text', 'text', 'x' * ln), ('sequencer_specific', 'data', tuple(i % 256 for i in range(ln)))):
            judge_message(ctx, t, {attr: val}, via_reader=(ln in (32768, 65536)), delta=1)
            n += 1
    return n


def exotic_int_cases(ctx):
    """Integer attributes given as bool / int subclass / IntEnum member / numpy-like Integral: same bytes
    as with plain ints, and decoding gives the plain message."""
    n = 0
    table = [('set_tempo', {'tempo': 500001}), ('set_tempo', {'tempo': 1}), ('sequence_number', {'number': 513}),
             ('sequence_number', {'number': 1}), ('channel_prefix', {'channel': 1}), ('midi_port', {'port': 0}),
             ('time_signature', {'numerator': 3, 'denominator': 8, 'clocks_per_click': 24, 'notated_32nd_notes_per_beat': 8}),
             ('smpte_offset', {'frame_rate': 25, 'hours': 1, 'minutes': 59, 'seconds': 0, 'frames': 24, 'sub_frames': 99}),
             ('sequencer_specific', {'data': (1, 0, 255)})]
    for t, a in table:
        plain = MetaMessage(t, time=3, **a)
        ref = rmeta.encode(t, a)
        for k in range(4):
            kw = {}
            for name, v in a.items():
                if name == 'data':
                    kw[name] = tuple(gen_mod.exotic_ints(x)[k % 2] for x in v)
                elif name == 'frame_rate':
                    kw[name] = v
                else:
                    vs = gen_mod.exotic_ints(v)
                    kw[name] = vs[k % len(vs)]
            case = {'kind': 'exotic-ints', 'type': t, 'attrs': {n_: repr(v) for n_, v in kw.items()}}
            try:
                m = MetaMessage(t, time=gen_mod.exotic_ints(3)[k % 2], **kw)
                b = m.bytes()
                ctx.check('bytes == FF type VLQ(len) payload (reference)', list(b) == list(ref), f'exotic-ints-bytes:{t}', case,
                          lambda: {'got': [repr(x) for x in b][:10], 'ref': list(ref)[:10]})
                d = MetaMessage.from_bytes([int(x) for x in b])
                ctx.check('from_bytes(bytes) == message', d == plain.copy(time=0) and d == m.copy(time=0), f'exotic-ints-decode:{t}', case,
                          lambda: repr(d)[:160])
                mid = MidiFile()
                mid.tracks.append(MidiTrack([m]))
                buf = io.BytesIO()
                mid.save(file=buf)
                back = MidiFile(file=io.BytesIO(buf.getvalue())).tracks[0][0]
                ctx.check('track reader == message', back == plain, f'exotic-ints-file:{t}', case, lambda: repr(back)[:160])
            except Exception as exc:
                ctx.fail('bytes == FF type VLQ(len) payload (reference)', f'exotic-ints:{t}:{type(exc).__name__}', case,
                         f'{type(exc).__name__}: {exc}')
            n += 1
    return n


class Tempo(MetaMessage):
    """A user's convenience subclass with its own constructor signature."""

    def __init__(self, bpm=120):
        MetaMessage.__init__(self, 'set_tempo', tempo=int(round(60000000 / bpm)))


class Guarded(MetaMessage):
    """A user's subclass that refuses attribute assignment after construction."""

    def __setattr__(self, name, value):
        raise AttributeError('read-only')


def subclass_cases(ctx):
    """from_bytes() called through a subclass (the library's frozen class, user classes with their own
    constructor or a guarded __setattr__) decodes like MetaMessage.from_bytes(); instances of subclasses
    encode like the base class."""
    from mido.frozen import FrozenMetaMessage, freeze_message
    n = 0
    table = [('set_tempo', {'tempo': 123456}), ('text', {'text': 'abc'}), ('key_signature', {'key': 'Bbm'}), ('end_of_track', {}),
             ('sequence_number', {'number': 7}), ('time_signature', {'numerator': 6, 'denominator': 8, 'clocks_per_click': 24,
                                                                   'notated_32nd_notes_per_beat': 8})]
    for t, a in table:
        plain = MetaMessage(t, **a)
        b = plain.bytes()
        for cls in (FrozenMetaMessage, Tempo, Guarded):
            case = {'kind': 'subclass', 'type': t, 'via': cls.__name__}
            try:
                d = cls.from_bytes(list(b))
                ctx.check('from_bytes(bytes) == message', d == plain and vars(d) == vars(plain), f'subclass-from_bytes:{cls.__name__}', case,
                          lambda: repr(d)[:160])
            except Exception as exc:
                ctx.fail('from_bytes(bytes) == message', f'subclass-from_bytes:{cls.__name__}:{type(exc).__name__}', case,
                         f'{type(exc).__name__}: {exc}')
            n += 1
        fz = freeze_message(plain)
        ctx.check('bytes == FF type VLQ(len) payload (reference)', list(fz.bytes()) == list(b) == list(rmeta.encode(t, a)),
                  'subclass-bytes:frozen', {'kind': 'subclass', 'type': t, 'via': 'frozen.bytes'}, list(fz.bytes())[:10])
        n += 1
    tp = Tempo(100)
    ctx.check('bytes == FF type VLQ(len) payload (reference)', list(tp.bytes()) == list(rmeta.encode('set_tempo', {'tempo': 600000})),
              'subclass-bytes:user', {'kind': 'subclass', 'type': 'set_tempo', 'via': 'Tempo(100).bytes'}, list(tp.bytes()))
    return n + 1


def cold_jobs():
    """Cold start: the first meta-message calls of a fresh interpreter, made by two threads."""
    from ..coldstart import msg_want

    def enc(t, a, raw):
        return {'fn': 'meta_bytes', 'type': t, 'attrs': a, 'want': raw}

    def dec(t, a, raw):
        return {'fn': 'meta_from_bytes', 'arg': raw, 'want': msg_want(t, a, 'MetaMessage')}
    tempo = ('set_tempo', {'tempo': 1}, [255, 81, 3, 0, 0, 1])
    key = ('key_signature', {'key': 'F#m'}, [255, 89, 2, 3, 1])
    ts = ('time_signature', {'numerator': 3, 'denominator': 8, 'clocks_per_click': 24, 'notated_32nd_notes_per_beat': 8},
          [255, 88, 4, 3, 3, 24, 8])
    text = ('text', {'text': 'ab\xe9'}, [255, 1, 3, 97, 98, 233])
    seq = ('sequence_number', {'number': 513}, [255, 0, 2, 2, 1])
    eot = ('end_of_track', {}, [255, 47, 0])
    others = [dec(*key), enc(*key), dec(*ts), enc(*ts), dec(*text), enc(*text), dec(*seq), enc(*eot), dec(*tempo)]
    mods = ['mido.midifiles.meta', 'mido.messages.checks']
    return [{'modules': mods, 'jobs': [first, others], 'k': 1}
            for first in ([dec(*tempo)], [enc(*tempo)], [dec(*key), enc(*ts)], [enc(*text), dec(*eot)])]


def replay(ctx, case):
    k = case['kind']
    if k == 'exotic-ints':
        exotic_int_cases(ctx)
        return
    if k == 'vlq-helpers':
        vlq_helper_cases(ctx)
        return
    if k == 'subclass':
        subclass_cases(ctx)
        return
    if k == 'cold':
        from .. import coldstart
        coldstart.replay(ctx, case, 'from_bytes(bytes) == message')
        return
    if k == 'msg':
        a = dict(case['attrs'])
        for kk, v in list(a.items()):
            if isinstance(v, list) and v and v[0] == 'str':
                a[kk] = 'x' * v[1]
            elif isinstance(v, list):
                a[kk] = tuple(v)
        judge_message(ctx, case['type'], a, delta=case.get('delta', 0))
    elif k == 'reject':
        rejections(ctx)
    elif k == 'history':
        history(ctx, case['seed'])
    elif k == 'through-file':
        through_file_cases(ctx)
    elif k == 'charset':
        other_charsets(ctx)
    elif k == 'seqspec':
        sequencer_specific(ctx)
    elif k == 'unknown':
        unknown_meta(ctx, ctx.rng)
    else:
        malformed_from_bytes(ctx)
