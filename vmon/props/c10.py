"""C10 - Ports deliver each message exactly once and in order under concurrent use.

Recorded client-boundary histories (call / return / exception of send, receive,
poll, iter_pending) plus the wire log of a byte-wise device double, produced
under a deterministic line-granularity thread scheduler (sys.monitoring): every
schedule with a bounded number of preemptions of small programs is enumerated,
larger numbers are sampled with seeded random-walk and PCT schedules.  An
offline checker decides each history: no exception, exactly-once, integrity and
copy semantics, per-sender FIFO, no empty answer while a message is certainly
queued, wire contiguity.
"""
import collections
import random

import mido
import mido.backends._parser_queue
import mido.parser
import mido.ports
import mido.sockets
import mido.tokenizer
from mido import Message
from mido.backends._parser_queue import ParserQueue
from mido.ports import EchoPort, IOPort, MultiPort

from .. import doubles
from ..doubles import Wire, WireIn, WireOut, WirePort, msg_tag
from ..mon import lines, sched

ID = 'C10'
ANCHORS = ['mido.ports', 'mido.backends._parser_queue']
LEVEL = 'exploration'
RULE = ('18 programs of 3-4 threads (1-2 senders, 1-2 receivers) over WirePort loopback, EchoPort, '
        'IOPort(WireIn, WireOut), MultiPort fan-out and fan-in, two iter_pending consumers, '
        'ParserQueue with two producers and with two pollers, a SocketPort pair over socketpair(); every yield point is a line of mido/ports.py, parser.py, tokenizer.py, '
        'backends/_parser_queue.py or of the device double, a lock operation or a sleep(). All '
        'schedules with <= 1 preemption (each preemption tried with every other runnable thread) '
        'are enumerated (quick; <= 2 on the candidate lines of ports.py/_parser_queue.py/doubles in '
        'thorough) + seeded random-walk and PCT(d=3) schedules. A schedule is distinct by its '
        'run-length encoded thread trace; non-trivial when it contains at least one context '
        'switch inside an operation (every schedule with a preemption is). Besides: call-by-call interleavings '
        'of senders with a receiver that mixes receive/poll/iter_pending (seeded sequences), and real threads blocked '
        'in ParserQueue.get() with seeded pauses between the statements of get()')
ASSUMPTIONS = [
    'pre-emption happens at line boundaries of the monitored files (CPython may also switch inside a line): for backends/_parser_queue.py one program additionally yields at every bytecode instruction (sys.monitoring INSTRUCTION events); messages/*.py is not instrumented, so Message.copy() is atomic here',
    'ports lock with the lock object they create themselves: while a schedule runs, RLock() inside mido.ports and ParserQueue returns the real RLock wrapped in a scheduler-aware object (same semantics, incl. re-entrancy and try-acquire); the harness never reads or replaces port._lock',
    'ordering is judged per receiver thread and per sender only; no order is demanded between different members of a MultiPort or across receivers',
    'the native backends (rtmidi callbacks etc.) are out of reach; device ports are modelled by byte-wise doubles shaped like sockets.py/portmidi.py',
]
DECIDING = ['no call raises', 'exactly once (nothing lost, duplicated, invented)',
            'received == sent snapshot, not the same object', 'per-sender FIFO per receiver',
            'no empty answer while certainly queued', 'wire bytes contiguous']
TIMEOUT = {'quick': 600, 'thorough': 5400}
MODULES = [mido.ports, mido.parser, mido.tokenizer, mido.backends._parser_queue, mido.sockets, doubles]
CANDIDATE_FILES = ('ports.py', '_parser_queue.py', 'doubles.py', 'sockets.py')
_codes = None


def codes():
    global _codes
    if _codes is None:
        _codes = lines.code_objects(MODULES)
    return _codes


def nshards(tier):
    return 16


RT_TYPES = ('clock', 'start', 'continue', 'stop')


class UserNoteOn(Message):
    """An application's Message subclass with its own constructor signature."""

    def __init__(self, note, velocity=64, channel=0):
        Message.__init__(self, 'note_on', note=note, velocity=velocity, channel=channel)


def make_msg(s, q, kind):
    if kind == 5:
        return UserNoteOn(q, 100, s)
    if kind == 3:
        return Message(RT_TYPES[q])      # a real-time message: identified by its type, sent once
    if kind == 4:
        # a long sysex: crosses any internal block size of a few KiB
        return Message('sysex', data=(s, q) + tuple((i * 7) % 128 for i in range(2500)))
    if kind == 0:
        return Message('note_on', channel=s, note=q, velocity=100)
    if kind == 1:
        return Message('sysex', data=(s, q, s, q, s, q))
    return Message('program_change', channel=s, program=q)


def mutate_after_send(m):
    if m.type == 'note_on':
        m.velocity = 1
    elif m.type == 'sysex':
        m.data += (99,)
    else:
        m.time = 77


class Recorder:
    """History of client-boundary events, stamped with the scheduler step."""

    def __init__(self, sc):
        self.sc = sc
        self.events = []
        self.sent = {}        # tag -> (snapshot, original object)

    def call(self, tid, op, port, tag=None):
        self.events.append((self.sc.step, tid, 'call', op, port, tag))

    def ret(self, tid, op, port, msg):
        self.events.append((self.sc.step, tid, 'ret', op, port, msg))

    def exc(self, tid, op, port, exc):
        self.events.append((self.sc.step, tid, 'exc', op, port, f'{type(exc).__name__}: {exc}'))


def sender(rec, tid, port, pname, s, seqs, kinds):
    def body():
        for q, kind in zip(seqs, kinds):
            m = make_msg(s, q, kind)
            tag = msg_tag(m)
            snap = type(m).__new__(type(m))          # the recorder's own snapshot (no library call)
            vars(snap).update(vars(m))
            rec.sent[tag] = (snap, m, pname)
            rec.call(tid, 'send', pname, tag)
            try:
                port.send(m)
            except sched.SchedAbort:
                raise
            except Exception as exc:
                rec.exc(tid, 'send', pname, exc)
                continue
            rec.ret(tid, 'send', pname, tag)
            mutate_after_send(m)
    return body


def receiver(rec, tid, port, pname, plan):
    """plan: list of ('poll', attempts, max_ok) | ('receive', n) | ('iter_pending',)"""
    def body():
        for step in plan:
            if step[0] == 'poll':
                ok = 0
                for _ in range(step[1]):
                    rec.call(tid, 'poll', pname)
                    try:
                        m = port.poll()
                    except sched.SchedAbort:
                        raise
                    except Exception as exc:
                        rec.exc(tid, 'poll', pname, exc)
                        continue
                    rec.ret(tid, 'poll', pname, m)
                    if m is not None:
                        ok += 1
                        if ok >= step[2]:
                            break
            elif step[0] == 'receive':
                for _ in range(step[1]):
                    rec.call(tid, 'receive', pname)
                    try:
                        m = port.receive()
                    except sched.SchedAbort:
                        raise
                    except Exception as exc:
                        rec.exc(tid, 'receive', pname, exc)
                        continue
                    rec.ret(tid, 'receive', pname, m)
            elif step[0] == 'iterate':
                # "for msg in port": receive() in a loop; the consumer leaves after step[1] messages
                got = 0
                rec.call(tid, 'receive', pname)
                try:
                    for m in port:
                        rec.ret(tid, 'receive', pname, m)
                        got += 1
                        if got >= step[1]:
                            break
                        rec.call(tid, 'receive', pname)
                except sched.SchedAbort:
                    raise
                except Exception as exc:
                    rec.exc(tid, 'receive', pname, exc)
            elif step[0] == 'iter_pending_first':
                # take one message from iter_pending() and abandon the generator
                rec.call(tid, 'iter_pending', pname)
                try:
                    g = port.iter_pending()
                    m = next(g, None)
                    rec.ret(tid, 'iter_pending', pname, m)
                    if hasattr(g, 'close'):
                        g.close()
                except sched.SchedAbort:
                    raise
                except Exception as exc:
                    rec.exc(tid, 'iter_pending', pname, exc)
            else:
                rec.call(tid, 'iter_pending', pname)
                try:
                    for m in port.iter_pending():
                        rec.ret(tid, 'iter_pending', pname, m)
                        rec.call(tid, 'iter_pending', pname)
                    rec.ret(tid, 'iter_pending', pname, None)
                except sched.SchedAbort:
                    raise
                except Exception as exc:
                    rec.exc(tid, 'iter_pending', pname, exc)
    return body


class Program:
    """One concurrent program: ports, thread bodies, where each sent message
    must arrive, and how to drain after the threads are done."""
    name = '?'
    synchronous = True      # a returned send is immediately visible to a poll on the receive side

    def build(self, sc, rec):
        raise NotImplementedError

    stress = False

    def wrap(self, sc, port, name):
        """Nothing to do: while a schedule runs, every RLock the ports module (or ParserQueue)
        creates - whenever it creates it - is a scheduler-aware lock (see LockShim), so the port's
        _lock attribute is never touched by the harness."""
        return port

    def wraplock(self, sc, lock, name):
        return lock


class P1Wire(Program):
    name = 'P1-wireport-loopback'

    def build(self, sc, rec):
        self.wire = Wire()
        p = self.wrap(sc, WirePort('w', wire=self.wire), 'w')
        self.ports = {'w': p}
        self.wires = [self.wire]
        self.route = lambda pname: ['w']
        return [sender(rec, 0, p, 'w', 0, (0, 1), (0, 1)), sender(rec, 1, p, 'w', 1, (0, 1, 1), (3, 1, 3)),
                receiver(rec, 2, p, 'w', [('poll', 3, 9)])]


class P2Echo(Program):
    name = 'P2-echoport'

    def build(self, sc, rec):
        p = self.wrap(sc, EchoPort('e'), 'e')
        self.ports = {'e': p}
        self.wires = []
        self.route = lambda pname: ['e']
        return [sender(rec, 0, p, 'e', 0, (0, 1, 2), (0, 5, 1)), receiver(rec, 1, p, 'e', [('poll', 3, 9)]),
                receiver(rec, 2, p, 'e', [('poll', 2, 9)])]


class P3IOPort(Program):
    name = 'P3-ioport-over-wire'

    def build(self, sc, rec):
        self.wire = Wire()
        i = self.wrap(sc, WireIn('in', wire=self.wire), 'in')
        o = self.wrap(sc, WireOut('out', wire=self.wire), 'out')
        p = IOPort(i, o)
        p._lock = self.wraplock(sc, p._lock, 'io')
        self.ports = {'io': p}
        self.keep = (i, o)
        self.wires = [self.wire]
        self.route = lambda pname: ['io']
        return [sender(rec, 0, p, 'io', 0, (0, 1), (0, 1)), sender(rec, 1, p, 'io', 1, (2, 0), (3, 2)),
                receiver(rec, 2, p, 'io', [('poll', 3, 2)]), receiver(rec, 3, p, 'io', [('receive', 1)])]


class P4Fanout(Program):
    name = 'P4a-multiport-fanout'

    def build(self, sc, rec):
        e0 = self.wrap(sc, EchoPort('e0'), 'e0')
        e1 = self.wrap(sc, EchoPort('e1'), 'e1')
        m = self.wrap(sc, MultiPort(p for p in (e0, e1)), 'multi')       # the members come from a one-shot iterable
        self.ports = {'e0': e0, 'e1': e1}
        self.keep = (m,)
        self.wires = []
        self.route = lambda pname: ['e0', 'e1']
        return [sender(rec, 0, m, 'multi', 0, (0, 1), (5, 1)), receiver(rec, 1, e0, 'e0', [('poll', 3, 9)]),
                receiver(rec, 2, e1, 'e1', [('poll', 2, 9), ('iter_pending',)])]


class P4Fanin(Program):
    name = 'P4b-multiport-fanin'

    def build(self, sc, rec):
        e0 = self.wrap(sc, EchoPort('e0'), 'e0')
        e1 = self.wrap(sc, EchoPort('e1'), 'e1')
        m = self.wrap(sc, MultiPort(iter([e0, e1])), 'multi')           # ... here too
        self.ports = {'multi': m}
        self.keep = (e0, e1)
        self.wires = []
        self.route = lambda pname: ['multi']
        return [sender(rec, 0, e0, 'e0', 0, (0, 1), (0, 1)), sender(rec, 1, e1, 'e1', 1, (0, 1), (2, 0)),
                receiver(rec, 2, m, 'multi', [('poll', 3, 2)]), receiver(rec, 3, m, 'multi', [('receive', 1)])]


class P5IterPending(Program):
    name = 'P5-two-iter_pending'

    def build(self, sc, rec):
        self.wire = Wire()
        p = self.wrap(sc, WirePort('w', wire=self.wire), 'w')
        self.ports = {'w': p}
        self.wires = [self.wire]
        self.route = lambda pname: ['w']
        return [sender(rec, 0, p, 'w', 0, (0, 1, 2), (0, 1, 2)),
                receiver(rec, 1, p, 'w', [('iter_pending_first',), ('iter_pending',)]),
                receiver(rec, 2, p, 'w', [('iter_pending',)] * 2)]


class QueuePort:
    """Adapter so that ParserQueue fits the same recorder (put_bytes = send)."""

    def __init__(self, q):
        self.q = q

    def send(self, m):
        self.q.put_bytes(m.bytes())

    def poll(self):
        return self.q.poll()

    def iter_pending(self):
        return self.q.iterpoll()


class P6ParserQueue(Program):
    name = 'P6-parserqueue'

    def build(self, sc, rec):
        q = ParserQueue()
        q._parser_lock = self.wraplock(sc, q._parser_lock, 'pq')
        p = QueuePort(q)
        self.ports = {'q': p}
        self.wires = []
        self.route = lambda pname: ['q']
        self.bytes_only = True
        return [sender(rec, 0, p, 'q', 0, (0, 1), (0, 1)), sender(rec, 1, p, 'q', 1, (0, 1), (1, 2)),
                receiver(rec, 2, p, 'q', [('poll', 3, 9), ('iter_pending',)])]


class P6bParserQueuePollers(Program):
    name = 'P6b-parserqueue-two-pollers'

    def build(self, sc, rec):
        q = ParserQueue()
        q._parser_lock = self.wraplock(sc, q._parser_lock, 'pq')
        p = QueuePort(q)
        self.ports = {'q': p}
        self.wires = []
        self.route = lambda pname: ['q']
        return [sender(rec, 0, p, 'q', 0, (0, 1, 2), (0, 1, 2)), receiver(rec, 1, p, 'q', [('poll', 3, 9)]),
                receiver(rec, 2, p, 'q', [('poll', 2, 9), ('iter_pending',)])]


class P6dTwoQueues(Program):
    """Two separate ParserQueues (two input ports), each with its own producer: nothing may cross."""
    name = 'P6d-two-parserqueues'

    def build(self, sc, rec):
        qa, qb = ParserQueue(), ParserQueue()
        pa, pb = QueuePort(qa), QueuePort(qb)
        self.ports = {'qa': pa, 'qb': pb}
        self.wires = []
        self.route = lambda pname: [pname]
        return [sender(rec, 0, pa, 'qa', 0, (0, 1), (1, 0)), sender(rec, 1, pb, 'qb', 1, (0, 1), (0, 1)),
                receiver(rec, 2, pa, 'qa', [('poll', 2, 9)]), receiver(rec, 3, pb, 'qb', [('poll', 2, 9)])]


class P6eInstr(Program):
    """The two-poller ParserQueue program again, with every BYTECODE INSTRUCTION of _parser_queue.py
    as a yield point (pre-emption inside a source line)."""
    name = 'P6e-parserqueue-instruction-granularity'
    instr_files = ('_parser_queue.py',)
    active_files = ('_parser_queue.py',)

    def build(self, sc, rec):
        q = ParserQueue()
        p = QueuePort(q)
        self.ports = {'q': p}
        self.wires = []
        self.route = lambda pname: ['q']
        return [sender(rec, 0, p, 'q', 0, (0,), (0,)), receiver(rec, 1, p, 'q', [('poll', 2, 9)]),
                receiver(rec, 2, p, 'q', [('poll', 2, 9)])]


class ObjectQueuePort(QueuePort):
    """Producers that hand over message objects (ParserQueue.put - what a backend's callback thread does with an
    already decoded message) rather than bytes."""
    def send(self, m):
        self.q.put(m.copy())


class P6fPutObjects(Program):
    """Two producers put() message objects, a third feeds bytes; one poller."""
    name = 'P6f-parserqueue-put-objects'

    def build(self, sc, rec):
        q = ParserQueue()
        q._parser_lock = self.wraplock(sc, q._parser_lock, 'pq')
        p, pb = ObjectQueuePort(q), QueuePort(q)
        self.ports = {'q': p}
        self.keep = (pb,)
        self.wires = []
        self.route = lambda pname: ['q']
        return [sender(rec, 0, p, 'q', 0, (0, 1), (0, 1)), sender(rec, 1, p, 'q', 1, (0, 1), (1, 0)),
                sender(rec, 2, pb, 'q', 2, (0,), (2,)), receiver(rec, 3, p, 'q', [('poll', 3, 9), ('iter_pending',)])]


class P6cParserQueueLong(Program):
    """Two producers, one of them hands over a 2.5 KB sysex in one put_bytes() call.  Only the lines of
    _parser_queue.py yield here (the tokenizer would add ~10 steps per byte)."""
    name = 'P6c-parserqueue-long-message'
    active_files = ('_parser_queue.py',)

    def build(self, sc, rec):
        q = ParserQueue()
        q._parser_lock = self.wraplock(sc, q._parser_lock, 'pq')
        p = QueuePort(q)
        self.ports = {'q': p}
        self.wires = []
        self.route = lambda pname: ['q']
        return [sender(rec, 0, p, 'q', 0, (0, 1), (4, 0)), sender(rec, 1, p, 'q', 1, (0, 1), (0, 2)),
                receiver(rec, 2, p, 'q', [('poll', 2, 9)])]


class P8ParseAll(Program):
    """Two threads call the module-level parse_all()/parse() on their own data; nothing is shared."""
    name = 'P8-parse_all-in-two-threads'
    synchronous = False

    def build(self, sc, rec):
        self.ports = {}
        self.wires = []
        self.route = lambda pname: []
        self.results = {}

        def worker(tid, s):
            def body():
                msgs = [make_msg(s, q, k) for q, k in ((0, 0), (1, 1), (2, 2))]
                stream = [b for m in msgs for b in m.bytes()]
                rec.call(tid, 'parse_all', 'none')
                try:
                    got = mido.parse_all(stream)
                    first = mido.parse(stream)
                except sched.SchedAbort:
                    raise
                except Exception as exc:
                    rec.exc(tid, 'parse_all', 'none', exc)
                    return
                rec.ret(tid, 'parse_all', 'none', None)
                self.results[tid] = (got == msgs and first == msgs[0], [m.hex() for m in got])
            return body
        return [worker(0, 0), worker(1, 1)]

    def extra_check(self, ctx, case):
        bad = {t: r[1] for t, r in self.results.items() if not r[0]}
        ctx.check('received == sent snapshot, not the same object', not bad and len(self.results) == 2,
                  f'{self.name}:wrong-result', case, bad)


class P9PanicVsSend(Program):
    """reset()/panic() from one thread while another sends: the device must see whole messages."""
    name = 'P9-panic-and-reset-vs-send'

    def build(self, sc, rec):
        self.wire = Wire()
        p = self.wrap(sc, WirePort('w', wire=self.wire), 'w')
        self.ports = {'w': p}
        self.wires = [self.wire]
        self.route = lambda pname: ['w']

        def helper():
            for control, fn in ((120, p.panic), (123, None)):
                pass
            # register what panic() is going to send
            for ch in range(16):
                m = Message('control_change', channel=ch, control=120)
                rec.sent[msg_tag(m)] = (m.copy(), m, 'w')
            rec.call(0, 'panic', 'w')
            try:
                p.panic()
            except sched.SchedAbort:
                raise
            except Exception as exc:
                rec.exc(0, 'panic', 'w', exc)
                return
            for ch in range(16):
                rec.events.append((rec.sc.step, 0, 'ret', 'send', 'w', ('cc120', ch)))
        return [helper, sender(rec, 1, p, 'w', 1, (0, 1), (0, 1)), receiver(rec, 2, p, 'w', [('poll', 2, 9)])]


class P7SocketPair(Program):
    name = 'P7-socketport-pair'

    def build(self, sc, rec):
        import socket
        from mido.sockets import SocketPort
        a, b = socket.socketpair()
        pa = self.wrap(sc, SocketPort('a', 1, conn=a), 'sa')
        pb = self.wrap(sc, SocketPort('b', 1, conn=b), 'sb')
        self.ports = {'b': pb}
        self.keep = (pa,)
        self.wires = []
        self.route = lambda pname: ['b']
        self.cleanup = lambda: (pa.close(), pb.close())
        return [sender(rec, 0, pa, 'a', 0, (0, 1), (0, 1)), sender(rec, 1, pa, 'a', 1, (0, 1), (2, 3)),
                receiver(rec, 2, pb, 'b', [('poll', 3, 2)]), receiver(rec, 3, pb, 'b', [('poll', 2, 9), ('iter_pending',)])]


class P1bSharedStateDevice(Program):
    name = 'P1b-device-with-shared-buffer'

    def build(self, sc, rec):
        self.wire = Wire()
        p = self.wrap(sc, doubles.SharedStatePort('w', wire=self.wire), 'w')
        self.ports = {'w': p}
        self.wires = [self.wire]
        self.route = lambda pname: ['w']
        return [sender(rec, 0, p, 'w', 0, (0, 1), (0, 1)), sender(rec, 1, p, 'w', 1, (0,), (2,)),
                receiver(rec, 2, p, 'w', [('poll', 3, 9)])]


class P3bIOPortFailingDevice(Program):
    """An IOPort whose output device refuses some writes: the send() that hit the refusal raises, every
    send() that returned normally is delivered exactly once."""
    name = 'P3b-ioport-device-refuses-writes'
    light = True          # a sequential fault: all single pre-emptions and a few sampled schedules are plenty
    expected_exceptions = ('OSError',)

    def build(self, sc, rec):
        self.wire = Wire()
        i = self.wrap(sc, WireIn('in', wire=self.wire), 'in')
        o = self.wrap(sc, WireOut('out', wire=self.wire, fail_on=(2, 4)), 'out')
        p = IOPort(i, o)
        self.ports = {'io': p}
        self.keep = (i, o)
        self.wires = [self.wire]
        self.route = lambda pname: ['io']
        return [sender(rec, 0, p, 'io', 0, (0, 1, 2), (0, 1, 0)), sender(rec, 1, p, 'io', 1, (0, 1), (3, 2)),
                receiver(rec, 2, p, 'io', [('poll', 3, 9)])]


class P4dFanoutMemberCloses(Program):
    """A MultiPort over three ports; the middle one is closed between two sends: the other two still get
    every message exactly once."""
    name = 'P4d-multiport-fanout-member-closes'
    light = True

    def build(self, sc, rec):
        a, b, c = (self.wrap(sc, EchoPort(n), n) for n in 'abc')
        m = self.wrap(sc, MultiPort([a, b, c]), 'multi')
        self.ports = {'a': a, 'c': c}
        self.keep = (m, b)
        self.wires = []
        self.route = lambda pname: ['a', 'c']

        first = sender(rec, 0, m, 'multi', 0, (0, 1), (0, 1))
        second = sender(rec, 0, m, 'multi', 0, (2, 3), (0, 1))

        def send_close_send():
            # the member is closed by the sending thread itself, between two sends (closing a member WHILE
            # another thread is inside send() is not part of the property)
            first()
            b.close()
            second()
        return [send_close_send, receiver(rec, 1, c, 'c', [('poll', 2, 9)]), receiver(rec, 2, a, 'a', [('poll', 1, 9)])]


class P4cFaninTwoReceivers(Program):
    """Two receivers on one MultiPort, one source: whatever one receiver leaves queued in the MultiPort
    must not be overtaken by what the other one polls later (per-sender FIFO per receiver)."""
    name = 'P4c-multiport-fanin-two-receivers'
    k2_samples = 30

    def build(self, sc, rec):
        e0 = self.wrap(sc, EchoPort('e0'), 'e0')
        m = self.wrap(sc, MultiPort([e0]), 'multi')
        self.ports = {'multi': m}
        self.keep = (e0,)
        self.wires = []
        self.route = lambda pname: ['multi']
        return [receiver(rec, 0, m, 'multi', [('poll', 3, 9)]), sender(rec, 1, e0, 'e0', 0, (0, 1, 2), (0, 0, 0)),
                receiver(rec, 2, m, 'multi', [('poll', 2, 1)])]


class P2bIterators(Program):
    """Two consumers that iterate over the port (for msg in port) and leave after their share."""
    name = 'P2b-ioport-iterating-receivers'

    def build(self, sc, rec):
        self.wire = Wire()
        i = self.wrap(sc, WireIn('in', wire=self.wire), 'in')
        o = self.wrap(sc, WireOut('out', wire=self.wire), 'out')
        p = IOPort(i, o)
        p._lock = self.wraplock(sc, p._lock, 'io')
        self.ports = {'io': p}
        self.keep = (i, o)
        self.wires = [self.wire]
        self.route = lambda pname: ['io']
        return [sender(rec, 0, p, 'io', 0, (0, 1, 2), (0, 1, 3)),
                receiver(rec, 1, p, 'io', [('iterate', 2)]), receiver(rec, 2, p, 'io', [('iterate', 1)])]


PROGRAMS = [P1Wire, P2Echo, P3IOPort, P4Fanout, P4Fanin, P5IterPending, P6ParserQueue, P6bParserQueuePollers,
            P7SocketPair, P6cParserQueueLong, P8ParseAll, P9PanicVsSend, P6dTwoQueues, P6eInstr, P4cFaninTwoReceivers,
            P3bIOPortFailingDevice, P4dFanoutMemberCloses, P1bSharedStateDevice, P2bIterators, P6fPutObjects]


class LockShim:
    """Stands in for the `threading` module inside mido.ports while a schedule runs: RLock() gives a
    real RLock wrapped in a SchedLock, everything else is the real module."""

    def __init__(self, sc, real):
        self._sc, self._real = sc, real

    def RLock(self):
        # creating a lock is an operation like any other: when a scheduled thread does it (a lock made on first use
        # rather than in the constructor), another thread may run first
        tid = self._sc._tid()
        if tid is not None:
            self._sc.yield_point(tid, None, None, True)
        return sched.SchedLock(self._sc, self._real.RLock(), 'port-lock')

    def __getattr__(self, name):
        return getattr(self._real, name)


def run_schedule(prog_cls, strategy, max_steps=6000):
    """One execution.  Returns (scheduler, recorder, program)."""
    sc = sched.Scheduler(codes(), strategy, max_steps=getattr(prog_cls, 'max_steps', max_steps),
                         candidate_files=CANDIDATE_FILES, active_files=getattr(prog_cls, 'active_files', None),
                         instr_files=getattr(prog_cls, 'instr_files', None))
    rec = Recorder(sc)
    prog = prog_cls()
    orig_sleep = mido.ports.sleep
    orig_random = mido.ports.random
    orig_threading = mido.ports.threading
    orig_rlock = mido.backends._parser_queue.RLock
    mido.ports.sleep = sc.sleep
    mido.ports.random = random.Random(12345)
    mido.ports.threading = LockShim(sc, orig_threading)
    mido.backends._parser_queue.RLock = mido.ports.threading.RLock
    try:
        bodies = prog.build(sc, rec)
        sc.run(bodies, wall_timeout=10.0)
    finally:
        mido.ports.sleep = orig_sleep
        mido.ports.random = orig_random
        mido.ports.threading = orig_threading
        mido.backends._parser_queue.RLock = orig_rlock
    # quiescent drain by the main thread
    if not sc.aborted:
        for pname, port in prog.ports.items():
            for _ in range(len(rec.sent) + 3):
                rec.call(9, 'drain', pname)
                try:
                    m = port.poll()
                except Exception as exc:
                    rec.exc(9, 'drain', pname, exc)
                    break
                rec.ret(9, 'drain', pname, m)
                if m is None:
                    break
    if hasattr(prog, 'cleanup'):
        prog.cleanup()
    # keep doubles from sending resets etc. on __del__
    for port in list(prog.ports.values()) + list(getattr(prog, 'keep', ())):
        if hasattr(port, 'closed'):
            port.closed = True
    return sc, rec, prog


def check_history(ctx, sc, rec, prog, case):
    """Offline checker over one recorded history."""
    pname = prog.name
    if sc.aborted or sc.errors:
        why = sc.aborted or repr(sc.errors[:2])
        if sc.aborted in ('step limit',) or (sc.aborted or '').startswith('deadlock'):
            ctx.check('terminates within the step bound', False, f'{pname}:{sc.aborted.split(":")[0]}', case,
                      {'aborted': sc.aborted, 'steps': sc.step, 'tail': [e[:5] for e in rec.events[-6:]]})
        else:
            ctx.undecided(f'{pname}: scheduler problem {why}')
        return
    ctx.count('terminates within the step bound')
    expected = getattr(prog, 'expected_exceptions', ())
    excs = [e for e in rec.events if e[2] == 'exc' and e[5].split(':')[0] not in expected]
    ctx.check('no call raises', not excs, f'{pname}:{excs[0][3]}-raised:{excs[0][5].split(":")[0]}' if excs else '',
              case, lambda: [list(e[:5]) + [e[5]] for e in excs[:3]])
    # what was received where
    got = collections.Counter()
    per_receiver = collections.defaultdict(list)
    bad_integrity = []
    for (step, tid, ev, op, port, m) in rec.events:
        if ev == 'ret' and op != 'send' and m is not None:
            if isinstance(m, tuple):      # yield_ports
                m = m[1]
            try:
                tag = msg_tag(m)
            except Exception:
                tag = ('?', repr(m))
            got[(port, tag)] += 1
            per_receiver[(tid, port)].append(tag)
            snap = rec.sent.get(tag)
            if snap is None:
                bad_integrity.append(('invented', port, repr(m)))
            else:
                if m != snap[0] or m is snap[1]:
                    bad_integrity.append(('differs' if m != snap[0] else 'same-object', port, repr(m), repr(snap[0])))
    sent_ok = [e[5] for e in rec.events if e[2] == 'ret' and e[3] == 'send']
    want = collections.Counter()
    for tag in sent_ok:
        for dest in prog.route(rec.sent[tag][2]):
            want[(dest, tag)] += 1
    if not excs:
        lost = want - got
        extra = got - want
        ctx.check('exactly once (nothing lost, duplicated, invented)', not lost and not extra,
                  f'{pname}:' + ('lost' if lost else 'duplicated-or-invented'), case,
                  lambda: {'lost': [list(map(str, k)) for k in lost][:4], 'extra': [list(map(str, k)) for k in extra][:4]})
    ctx.check('received == sent snapshot, not the same object', not bad_integrity,
              f'{pname}:{bad_integrity[0][0]}' if bad_integrity else '', case, lambda: bad_integrity[:3])
    # per-sender FIFO per receiver
    bad = None
    for (tid, port), tags in per_receiver.items():
        last = {}
        for (s, q) in tags:
            if s in last and isinstance(q, int) and isinstance(last[s], int) and q < last[s]:
                bad = {'receiver': tid, 'port': port, 'sequence': [list(map(str, t)) for t in tags]}
            last[s] = q
    ctx.check('per-sender FIFO per receiver', bad is None, f'{pname}:reordered', case, bad)
    # empty answer while a message was certainly queued
    if prog.synchronous:
        bad = None
        obtained_call = {}      # (port, tag) -> step at which the receive op that obtained it was called
        open_call = {}
        for (step, tid, ev, op, port, m) in rec.events:
            if op == 'send':
                continue
            if ev == 'call':
                open_call[(tid, port)] = step
            elif ev == 'ret' and m is not None:
                mm = m[1] if isinstance(m, tuple) else m
                obtained_call.setdefault((port, msg_tag(mm)), open_call.get((tid, port), step))
        send_ret = {}
        for (step, tid, ev, op, port, m) in rec.events:
            if op == 'send' and ev == 'ret':
                send_ret[m] = step
        for idx, (step, tid, ev, op, port, m) in enumerate(rec.events):
            if ev == 'ret' and op in ('poll', 'drain') and m is None:
                c = open_call.get((tid, port))
                # find this op's own call step
                cstep = None
                for (s2, t2, e2, o2, p2, m2) in reversed(rec.events[:idx]):
                    if t2 == tid and p2 == port and e2 == 'call' and o2 == op:
                        cstep = s2
                        break
                for tag, sret in send_ret.items():
                    for dest in prog.route(rec.sent[tag][2]):
                        if dest != port:
                            continue
                        oc = obtained_call.get((port, tag))
                        if sret < cstep and oc is not None and oc > step:
                            bad = {'poll_by': tid, 'port': port, 'called_at': cstep, 'returned_None_at': step,
                                   'message': list(map(str, tag)), 'send_returned_at': sret, 'obtained_by_call_at': oc}
        ctx.check('no empty answer while certainly queued', bad is None, f'{pname}:empty-answer', case, bad)
    # wire contiguity
    for w in prog.wires:
        seen = {}
        bad = None
        prev = None
        for tag, b in w.log:
            if tag != prev and tag in seen:
                bad = {'tag': list(map(str, tag)), 'wire': [[list(map(str, t)), x] for t, x in w.log][:40]}
                break
            seen.setdefault(tag, []).append(b)
            prev = tag
        if bad is None:
            for tag, bs in seen.items():
                snap = rec.sent.get(tag)
                if snap is None or bs != snap[0].bytes():
                    bad = {'tag': list(map(str, tag)), 'bytes': bs}
        ctx.check('wire bytes contiguous', bad is None, f'{pname}:wire-interleaved', case, bad)
    if hasattr(prog, 'extra_check'):
        prog.extra_check(ctx, case)


class FreeClock:
    """Logical clock for free-running mode: one atomic counter."""

    def __init__(self):
        import itertools
        self._c = itertools.count(1)
        self.aborted = None
        self.errors = []
        self.trace = []
        self.contention = 0
        self.sleeps = 0
        self.switch_sites = ()

    @property
    def step(self):
        return next(self._c)


class YieldInjector:
    """LINE callback for free-running stress: seeded sleep(0) / short sleeps
    so that the OS scheduler switches threads inside mido code."""

    def __init__(self, seed, p=0.08):
        self.rng = random.Random(seed)
        self.p = p
        self.n = 0

    def _line_cb(self, code, line):
        r = self.rng.random()
        if r < self.p:
            self.n += 1
            import time as _t
            _t.sleep(0 if r > self.p / 8 else 0.00002)
        return None


def stress_run(prog_cls, seed):
    import sys as _sys
    import threading as _th
    import time as _t
    clock = FreeClock()
    rec = Recorder(clock)
    prog = prog_cls()
    prog.stress = True
    inj = YieldInjector(seed)
    orig_sleep = mido.ports.sleep
    orig_random = mido.ports.random
    mido.ports.sleep = lambda: _t.sleep(0.0001)
    mido.ports.random = random.Random(seed)
    old_si = _sys.getswitchinterval()
    sched.install(codes())
    try:
        bodies = prog.build(None, rec)

        def guard(i, body):
            def run():
                try:
                    body()
                except BaseException as exc:
                    clock.errors.append((i, type(exc).__name__, repr(exc)))
            return run
        ths = [_th.Thread(target=guard(i, b), daemon=True) for i, b in enumerate(bodies)]
        _sys.setswitchinterval(1e-6)
        sched.CURRENT = inj
        for t in ths:
            t.start()
        for t in ths:
            t.join(20.0)
        if any(t.is_alive() for t in ths):
            clock.aborted = 'step limit'          # a thread never finished
    finally:
        sched.CURRENT = None
        _sys.setswitchinterval(old_si)
        mido.ports.sleep = orig_sleep
        mido.ports.random = orig_random
    if not clock.aborted:
        for pname, port in prog.ports.items():
            for _ in range(len(rec.sent) + 3):
                rec.call(9, 'drain', pname)
                try:
                    m = port.poll()
                except Exception as exc:
                    rec.exc(9, 'drain', pname, exc)
                    break
                rec.ret(9, 'drain', pname, m)
                if m is None:
                    break
    if hasattr(prog, 'cleanup'):
        prog.cleanup()
    for port in list(prog.ports.values()) + list(getattr(prog, 'keep', ())):
        if hasattr(port, 'closed'):
            port.closed = True
    return clock, rec, prog, inj.n


def stress_phase(ctx, budget_s):
    import time as _t
    t_end = _t.time() + budget_s
    n = 0
    injected = 0
    while _t.time() < t_end:
        for pi, prog_cls in enumerate(PROGRAMS):
            seed = f'{ctx.seed}:{ctx.shard}:stress:{n}'
            clock, rec, prog, k = stress_run(prog_cls, seed)
            injected += k
            hist = [list(e[:5]) + [repr(e[5])[:60]] for e in rec.events]
            check_history(ctx, clock, rec, prog,
                          lambda: {'kind': 'stress', 'program': pi, 'seed': seed, 'history': hist[:80]})
            ctx.nontrivial(('stress', seed))
            n += 1
            if clock.aborted:
                return n
    ctx.extra('stress_runs', n)
    ctx.extra('stress_yields_injected', injected)
    return n


class ConsumerDelays:
    """LINE callback (installed on the queue's module): seeded pauses of up to a few milliseconds in the consumer threads
    only, on the lines of get() - a consumer may be held between any two statements of its get() while the producer and
    the other consumers run."""

    def __init__(self, seed):
        self.rng = random.Random(seed)
        self.n = 0

    def _line_cb(self, code, line):
        import threading as _th
        import time as _t
        if _th.current_thread().name.startswith('vmon-consumer') and code.co_name == 'get':
            r = self.rng.random()
            if r < 0.5:
                self.n += 1
                _t.sleep(r * 0.008)
        return None


def blocking_get_case(ctx, nconsumers, nmsgs, delays_seed=None):
    """Real threads blocked in ParserQueue.get(): one put_bytes() call that completes several
    messages must wake enough of them.  Verdict by state, not by time: a consumer still blocked
    while a message sits in the queue (10 s after the call) is a lost wake-up.  With delays_seed the consumers
    are paused at random between the statements of get() (ConsumerDelays), so that the producer's call lands
    inside a consumer's get() as well as before it.  Public API only: the queue is whatever ParserQueue is."""
    import sys as _sys
    import threading as _th
    import time as _t
    q = ParserQueue()
    got = []
    lock = _th.Lock()

    errors = []

    def consumer():
        try:
            m = q.get()
        except BaseException as exc:      # a blocking get() has no reason to raise
            with lock:
                errors.append(f'{type(exc).__name__}: {exc}')
            return
        with lock:
            got.append(m)

    def inside_get(th):
        fr = _sys._current_frames().get(th.ident)
        while fr is not None:
            if fr.f_code.co_name == 'get' and fr.f_code.co_filename.endswith('_parser_queue.py'):
                return True
            fr = fr.f_back
        return False
    inj = None
    if delays_seed is not None:
        inj = ConsumerDelays(delays_seed)
        sched.install(codes())
        sched.CURRENT = inj
    try:
        ths = [_th.Thread(target=consumer, daemon=True, name=f'vmon-consumer-{i}') for i in range(nconsumers)]
        for t in ths:
            t.start()
        t_end = _t.time() + 5
        while _t.time() < t_end and not all(inside_get(t) for t in ths):
            _t.sleep(0.001)
        if delays_seed is None:
            _t.sleep(0.02)          # (inside get(), and by now waiting there)
        msgs = [make_msg(0, i, i % 3) for i in range(nmsgs)]
        if delays_seed is not None and nmsgs > 1 and random.Random(delays_seed).random() < 0.5:
            for m in msgs:
                q.put_bytes(m.bytes())          # one call per message
        else:
            q.put_bytes([b for m in msgs for b in m.bytes()])
        t_end = _t.time() + 10
        while _t.time() < t_end and len(got) + len(errors) < min(nconsumers, nmsgs):
            _t.sleep(0.002)
    finally:
        if inj is not None:
            sched.CURRENT = None
    case = {'kind': 'blocking-get', 'consumers': nconsumers, 'messages': nmsgs, 'delays_seed': delays_seed}
    blocked = sum(1 for t in ths if t.is_alive())
    left = list(q.iterpoll())
    pending = len(left)
    want_blocked = max(0, nconsumers - nmsgs)
    ctx.check('no empty answer while certainly queued', not (blocked > want_blocked and pending > 0),
              'parserqueue:get-blocked-with-message-pending', case, {'blocked_consumers': blocked, 'pending': pending})
    ctx.check('no call raises', not errors, 'parserqueue:blocking-get-raised', case, errors[:2])
    ctx.check('no empty answer while certainly queued', len(got) + len(errors) >= min(nconsumers, nmsgs) or blocked > want_blocked,
              'parserqueue:blocking-get-returned-nothing', case, {'received_by_blocked_consumers': len(got), 'messages': nmsgs})
    ctx.check('exactly once (nothing lost, duplicated, invented)',
              sorted([m.hex() for m in got] + [m.hex() for m in left]) == sorted(m.hex() for m in msgs)
              if blocked == want_blocked else True, 'parserqueue:get-lost', case, len(got))
    for _ in range(blocked):
        q.put(None)            # release the remaining consumers


class StopProgram(Exception):
    pass


def explore_program(ctx, pi, prog_cls, k, shard_filter, n_random, n_pct, tier):
    """Bounded-preemption enumeration (sharded by first preemption) + sampling."""
    distinct = set()
    stats = collections.Counter()

    def one(strategy, label, extra):
        sc, rec, prog = run_schedule(prog_cls, strategy)
        if sc.aborted == 'wall clock watchdog':
            # a thread is stuck outside the scheduler's control (e.g. on a real lock taken by the
            # code under test across a yield point): give up on this program, never a verdict
            raise StopProgram(f'{prog_cls.name}: a schedule did not finish within the wall-clock watchdog')
        case = lambda: {'kind': 'schedule', 'program': pi, 'strategy': label, **extra}  # noqa: E731
        check_history(ctx, sc, rec, prog, case)
        distinct.add(hash(sc.trace_key()))
        stats['schedules'] += 1
        stats['steps'] += sc.step
        stats['context_switches'] += len(sc.trace) - 1
        stats['lock_waits'] += sc.contention
        stats['sleeps'] += sc.sleeps
        ctx.extra('switch_sites', {f'{s[0][0]}:{s[0][1]}' for s in sc.switch_sites})
        return sc

    # base run: learn the alternatives
    base = sched.Preempt(())
    sc0 = one(base, 'preempt', {'points': []})
    first = [(step, t) for step, others in base.alts for t in others]
    ctx.extra('steps_in_base_run', {prog_cls.name: sc0.step})
    ctx.extra('single_preemption_schedules', {prog_cls.name: len(first)})
    for j, pt in enumerate(first):
        if not shard_filter(j):
            continue
        st = sched.Preempt((pt,))
        one(st, 'preempt', {'points': [list(pt)]})
        if k >= 2 and not getattr(prog_cls, 'light', False):
            seconds = [(step, t) for step, others in st.alts for t in others]
            if tier == 'quick':
                seconds = seconds[::max(1, len(seconds) // getattr(prog_cls, 'k2_samples', 6))]      # a thin slice of the 2-preemption space
            for pt2 in seconds:
                one(sched.Preempt((pt, pt2)), 'preempt', {'points': [list(pt), list(pt2)]})
    scale = min(1.0, 350.0 / max(sc0.step, 1))        # long programs: fewer sampled schedules
    if getattr(prog_cls, 'light', False):
        scale *= 0.25
    n_random = max(5, int(n_random * scale))
    n_pct = max(3, int(n_pct * scale))
    for j in range(n_random):
        seed = f'{ctx.seed}:{ctx.shard}:{pi}:r{j}'
        one(sched.RandomWalk(random.Random(seed), p=random.Random(seed + 'p').choice((0.03, 0.1, 0.3))),
            'random', {'seed': seed})
    for j in range(n_pct):
        seed = f'{ctx.seed}:{ctx.shard}:{pi}:p{j}'
        one(sched.PCT(random.Random(seed), 4, depth=3, nsteps=max(50, sc0.step)), 'pct', {'seed': seed, 'nsteps': max(50, sc0.step)})
    return distinct, stats


def helper_argument_cases(ctx):
    """multi_receive / multi_iter_pending / multi_send work on the caller's collection of ports: another
    thread may be walking that very list (multi_send does), so they must leave it as it is - same
    ports, same order - and deliver every pending message exactly once."""
    from mido.ports import multi_iter_pending, multi_receive, multi_send
    n = 0
    saved = random.getstate()
    try:
        for seed in range(12):
            for nports in (2, 3, 5):
                for kind in (list, tuple):
                    random.seed(seed)
                    ports = [EchoPort(f'h{i}') for i in range(nports)]
                    coll = kind(ports)
                    case = {'kind': 'helper-args', 'seed': seed, 'ports': nports, 'collection': kind.__name__}
                    try:
                        multi_send(coll, make_msg(0, 0, 0))
                        ok_send = all(len(p._messages) == 1 for p in ports) and list(coll) == ports
                        got1 = list(multi_receive(coll, block=False))
                        same1 = list(coll) == ports and all(a is b for a, b in zip(coll, ports))
                        multi_send(coll, make_msg(0, 1, 0))
                        got2 = list(multi_iter_pending(coll))
                        same2 = list(coll) == ports and all(a is b for a, b in zip(coll, ports))
                        got3 = [pm for pm in multi_receive(coll, yield_ports=True, block=False)]
                        ctx.check('exactly once (nothing lost, duplicated, invented)',
                                  ok_send and len(got1) == nports and len(got2) == nports and not got3,
                                  'helpers:delivery', case, {'first': len(got1), 'second': len(got2), 'third': len(got3)})
                        ctx.check("helpers leave the caller's port collection alone", same1 and same2, 'helpers:argument-reordered',
                                  case, lambda: {'before': [p.name for p in ports], 'after': [p.name for p in coll]})
                    except Exception as exc:
                        ctx.check('no call raises', False, f'helpers:{type(exc).__name__}', case, f'{type(exc).__name__}: {exc}')
                    n += 1
    finally:
        random.setstate(saved)
    return n


def nested_wrapper_cases(ctx):
    """Wrappers over wrappers: an IOPort whose input side is a MultiPort (with and without yield_ports), a MultiPort of
    IOPorts, a MultiPort of MultiPorts.  What was sent on a member comes out of the outermost wrapper exactly once, intact -
    with yield_ports as the (port, message) pair the MultiPort made - by receive, poll and iter_pending, whether the
    message was already pending in the inner wrapper or still in the member."""
    n = 0
    for yield_ports in (False, True):
        for how in ('receive', 'poll', 'iter_pending', 'receive-after-inner-poll'):
            for shape in ('ioport-over-multi', 'multi-of-ioports', 'multi-of-multis'):
                case = {'kind': 'nested-wrappers', 'yield_ports': yield_ports, 'how': how, 'shape': shape}
                try:
                    e = [EchoPort(f'n{i}') for i in range(3)]
                    if shape == 'ioport-over-multi':
                        inner = MultiPort(e, yield_ports=yield_ports)
                        outer = IOPort(inner, EchoPort('out'))
                    elif shape == 'multi-of-ioports':
                        if yield_ports:
                            continue
                        inner = None
                        outer = MultiPort([IOPort(x, EchoPort('o')) for x in e])
                    else:
                        inner = MultiPort(e[:2], yield_ports=yield_ports)
                        outer = MultiPort([inner, MultiPort(e[2:], yield_ports=yield_ports)])
                    sent = []
                    for i, port in enumerate(e):
                        m = make_msg(i, 0, 0)
                        port.send(m)
                        sent.append((port, msg_tag(m)))
                    got = []
                    if how == 'receive-after-inner-poll' and inner is not None:
                        first = inner.poll()             # moves everything into the inner wrapper's own queue, hands out one
                        got.append(first)
                    for _ in range(8):
                        if how.startswith('receive'):
                            x = outer.receive(block=False)
                        elif how == 'poll':
                            x = outer.poll()
                        else:
                            x = next(iter(outer.iter_pending()), None)
                        if x is not None:
                            got.append(x)

                    def flat(x):
                        while isinstance(x, tuple):          # (port, message) pairs, possibly nested once more
                            x = x[1]
                        return x
                    tags = sorted(msg_tag(flat(x)) for x in got if isinstance(flat(x), Message))
                    ok = len(got) == 3 and tags == sorted(t for _, t in sent)
                    if yield_ports and shape == 'ioport-over-multi':
                        ok = ok and all(isinstance(x, tuple) and len(x) == 2 and x[0] in e and isinstance(x[1], Message) and
                                        (x[0], msg_tag(x[1])) in sent for x in got)
                    elif not yield_ports:
                        ok = ok and all(isinstance(x, Message) for x in got)
                    ctx.check('exactly once (nothing lost, duplicated, invented)', ok, 'nested-wrappers:delivery', case,
                              lambda: {'got': [repr(x)[:70] for x in got]})
                    for port in e:
                        port.closed = True
                except Exception as exc:
                    ctx.check('no call raises', False, f'nested-wrappers:{type(exc).__name__}', case, f'{type(exc).__name__}: {exc}')
                n += 1
    return n


def short_lived_wrapper_cases(ctx):
    """A sender broadcasts through a MultiPort (or talks through an IOPort) it makes for the occasion and forgets again.  The
    ports it wrapped belong to the program: they stay open, what was sent is received, the next sender can use them."""
    import gc
    n = 0
    for wrapper in ('multiport', 'multiport-generator-arg'):      # (an IOPort owns the pair it wraps and closes it: not judged)
        for rounds in (1, 3):
            case = {'kind': 'short-lived-wrapper', 'wrapper': wrapper, 'rounds': rounds}
            try:
                e0, e1 = EchoPort('s0'), EchoPort('s1')
                sent = []
                for r in range(rounds):
                    m = make_msg(r, 0, 0)

                    def talk():
                        if wrapper == 'multiport':
                            MultiPort([e0, e1]).send(m)
                        elif wrapper == 'multiport-generator-arg':
                            MultiPort(p for p in (e0, e1)).send(m)
                        else:
                            IOPort(e0, e1).send(m)          # output side is e1
                    talk()
                    gc.collect()
                    sent.append(msg_tag(m))
                    ctx.check('no call raises', not e0.closed and not e1.closed, 'short-lived-wrapper:members-closed', case,
                              {'round': r, 'closed': [e0.closed, e1.closed]})
                got1 = [msg_tag(x) for x in e1.iter_pending()]
                got0 = [msg_tag(e0.receive(block=False))] if wrapper != 'ioport' else []
                ctx.check('exactly once (nothing lost, duplicated, invented)', got1 == sent and (wrapper == 'ioport' or got0 == sent[:1]),
                          'short-lived-wrapper:delivery', case, lambda: {'e0': got0, 'e1': got1, 'sent': sent})
                e0.closed = e1.closed = True
            except Exception as exc:
                ctx.check('no call raises', False, f'short-lived-wrapper:{type(exc).__name__}', case, f'{type(exc).__name__}: {exc}')
            n += 1
    return n


def mixed_call_cases(ctx, count, only=None):
    """The degenerate interleavings - senders and the receiver taking turns, call by call - with the receiver switching
    between receive(block=False), poll() and iter_pending() (fully or partly consumed) as it pleases: each message
    exactly once, each sender's messages in the order sent.  A port that keeps messages in more than one place
    (MultiPort prefetches from its members into its own queue) has to drain them in the same order whichever
    call asks."""
    n = 0
    for j in range(count):
        seed = f'{ctx.seed}:{ctx.shard}:mixed:{j}'
        ptype = ('multi-2', 'multi-3', 'echo', 'ioport', 'multi-1')[j % 5]
        if only is not None:
            seed, ptype = only
        rng = random.Random(seed)
        case = {'kind': 'mixed-calls', 'seed': seed, 'ptype': ptype}
        if ptype.startswith('multi'):
            # (members may well carry the same name - or none: a name is a label, not an identity)
            naming = rng.choice((lambda i: f'm{i}', lambda i: 'member', lambda i: None, lambda i: ''))
            members = [EchoPort(naming(i)) for i in range(int(ptype[-1]))]
            port = MultiPort(members)
            outs = members
        elif ptype == 'echo':
            port = EchoPort('e')
            outs = [port, port]
        else:
            e = EchoPort('e')
            port = IOPort(e, e)
            outs = [port, e]
        nxt = [0] * len(outs)
        got, log = [], []
        try:
            for step in range(rng.randrange(4, 30)):
                op = rng.choice(('send', 'send', 'send', 'receive', 'poll', 'iter', 'iter-one', 'iter-two'))
                log.append(op)
                if op == 'send':
                    s = rng.randrange(len(outs))
                    outs[s].send(make_msg(s, nxt[s], rng.choice((0, 1, 2))))
                    nxt[s] += 1
                elif op == 'receive':
                    m = port.receive(block=False)
                    got.append(m) if m is not None else None
                elif op == 'poll':
                    m = port.poll()
                    got.append(m) if m is not None else None
                else:
                    limit = {'iter': 10 ** 9, 'iter-one': 1, 'iter-two': 2}[op]
                    for m in port.iter_pending():
                        got.append(m)
                        limit -= 1
                        if limit <= 0:
                            break
            got.extend(port.iter_pending())
            tags = [msg_tag(m) for m in got]
            per = {s: [q for (s2, q) in tags if s2 == s] for s in range(len(outs))}
            ok = all(per[s] == list(range(nxt[s])) for s in range(len(outs))) and len(tags) == sum(nxt)
            ctx.check('per-sender FIFO per receiver' if sorted(tags) == sorted((s, q) for s in range(len(outs)) for q in range(nxt[s]))
                      else 'exactly once (nothing lost, duplicated, invented)', ok, f'mixed-calls:{ptype}', case,
                      lambda: {'received': tags[:30], 'calls': log[:40]})
        except Exception as exc:
            ctx.check('no call raises', False, f'mixed-calls:{type(exc).__name__}', case, f'{type(exc).__name__}: {exc}')
        n += 1
    return n


def burst_cases(ctx):
    """The senders get far ahead of the receiver: thousands of messages are delivered (by two threads, through put()
    and put_bytes()) before the first one is read.  A queue port has no documented capacity: every message comes out,
    each sender's in order."""
    import threading as _th
    n = 0
    for per_sender in (700, 3000):
        case = {'kind': 'burst', 'per_sender': per_sender}
        q = ParserQueue()
        errors = []

        def feeder(s):
            try:
                for i in range(per_sender):
                    m = Message('sysex', data=(s, i % 128, (i // 128) % 128))
                    if s == 0:
                        q.put(m)
                    else:
                        q.put_bytes(m.bytes())
            except BaseException as exc:
                errors.append(f'{type(exc).__name__}: {exc}')
        import warnings
        with warnings.catch_warnings(record=True) as caught:
            warnings.simplefilter('always')
            ths = [_th.Thread(target=feeder, args=(s,), daemon=True) for s in (0, 1)]
            for t in ths:
                t.start()
            for t in ths:
                t.join(60)
        stuck = [t for t in ths if t.is_alive()]
        got = []
        if not stuck:
            got = [q.poll(), q.get()] + list(q.iterpoll())
        tags = [(m.data[0], m.data[1] + 128 * m.data[2]) for m in got if m is not None]
        per = {s: [i for (s2, i) in tags if s2 == s] for s in (0, 1)}
        ctx.check('no call raises', not errors and not stuck, 'burst:put-raised-or-blocked', case, {'errors': errors[:2], 'blocked_senders': len(stuck)})
        ctx.check('exactly once (nothing lost, duplicated, invented)', all(per[s] == list(range(per_sender)) for s in (0, 1)),
                  'burst:lost', case, {'received': {s: len(v) for s, v in per.items()}, 'sent_each': per_sender,
                                       'warnings': [str(w.message)[:80] for w in caught][:2]})
        n += 1
    return n


def big_message_over_socket_cases(ctx):
    """A message larger than what the connection takes at once (a small send buffer, a receiver that reads in its own
    time), followed by short ones, from one and from two sender threads: every message arrives once and whole."""
    import socket as _s
    import threading as _th
    import time as _t
    from mido.sockets import SocketPort
    n = 0
    for size, nsenders in ((100000, 1), (30000, 2), (300000, 1)):
        case = {'kind': 'socket-big-message', 'size': size, 'senders': nsenders}
        a, b = _s.socketpair()
        try:
            a.setsockopt(_s.SOL_SOCKET, _s.SO_SNDBUF, 4096)
            b.setsockopt(_s.SOL_SOCKET, _s.SO_RCVBUF, 4096)
        except OSError:
            pass
        out, inp = SocketPort('out', 1, conn=a), SocketPort('in', 1, conn=b)
        errors, got = [], []
        done = _th.Event()

        def sender(s):
            try:
                out.send(Message('sysex', data=(s, 0) + tuple((i * 7 + s) % 128 for i in range(size))))
                for q in range(1, 4):
                    out.send(Message('note_on', channel=s, note=q, velocity=100))
            except BaseException as exc:
                errors.append(f'send: {type(exc).__name__}: {exc}')

        def receiver():
            try:
                t_end = _t.time() + 30
                while _t.time() < t_end and len(got) < 4 * nsenders:
                    m = inp.poll()
                    if m is None:
                        _t.sleep(0.001)
                    else:
                        got.append(m)
            except BaseException as exc:
                errors.append(f'receive: {type(exc).__name__}: {exc}')
            done.set()
        ths = [_th.Thread(target=sender, args=(s,), daemon=True) for s in range(nsenders)] + [_th.Thread(target=receiver, daemon=True)]
        for t in ths:
            t.start()
        done.wait(40)
        for t in ths:
            t.join(5)
        want = {s: [(s, 0)] + [(s, q) for q in range(1, 4)] for s in range(nsenders)}
        per = {s: [msg_tag(m) for m in got if msg_tag(m)[0] == s] for s in range(nsenders)}
        whole = all(m.type != 'sysex' or (len(m.data) == size + 2 and all(m.data[2 + i] == (i * 7 + m.data[0]) % 128 for i in range(0, size, 997)))
                    for m in got)
        ctx.check('no call raises', not errors, 'socket-big-message:raised', case, errors[:2])
        ctx.check('exactly once (nothing lost, duplicated, invented)', per == want and len(got) == 4 * nsenders, 'socket-big-message:lost', case,
                  lambda: {'received': {s: v for s, v in per.items()}, 'total': len(got)})
        ctx.check('received == sent snapshot, not the same object', whole, 'socket-big-message:corrupted', case, None)
        for p_ in (out, inp):
            try:
                p_.close()
            except Exception:
                pass
        n += 1
    return n


def run(ctx):
    sh, N = ctx.shard, ctx.nshards
    total = collections.Counter()
    alld = set()
    k = 2
    for pi, prog_cls in enumerate(PROGRAMS):
        nr = (1500 if ctx.tier == 'quick' else 100000) // N
        npct = (500 if ctx.tier == 'quick' else 30000) // N
        try:
            d, st = explore_program(ctx, pi, prog_cls, k, lambda j: j % N == sh, nr, npct, ctx.tier)
        except StopProgram as exc:
            ctx.undecided(str(exc))
            continue
        for h in d:
            ctx.nontrivial(h ^ (pi << 60))
        total.update(st)
        ctx.extra('schedules_per_program', {prog_cls.name: st['schedules']})
    if sh == 1 % N:
        for nc, nm in ((2, 2), (2, 3), (3, 2), (1, 1), (3, 5)):
            blocking_get_case(ctx, nc, nm)
            ctx.nontrivial(('blocking-get', nc, nm))
    for j in range(6 if ctx.tier == 'quick' else 200):
        nc, nm = ((2, 2), (2, 3), (3, 3), (3, 2))[j % 4]
        blocking_get_case(ctx, nc, nm, delays_seed=f'{ctx.seed}:{sh}:bg{j}')
        ctx.nontrivial(('blocking-get-delays', sh, j))
    sched.uninstall()
    nstress = 0
    if sh == 2 % N:
        k_ = helper_argument_cases(ctx) + nested_wrapper_cases(ctx) + short_lived_wrapper_cases(ctx)
        ctx.nontrivial(None, k_)
        ctx.extra('helper_argument_cases', k_)
        nstress += k_
    if sh == 4 % N:
        k_ = big_message_over_socket_cases(ctx)
        ctx.nontrivial(None, k_)
        nstress += k_
    if sh == 3 % N:
        k_ = burst_cases(ctx)
        ctx.nontrivial(None, k_)
        nstress += k_
    k_ = mixed_call_cases(ctx, 300 if ctx.tier == 'quick' else 20000)
    ctx.nontrivial(None, k_)
    ctx.extra('mixed_call_sequences', k_)
    nstress += k_
    if ctx.tier == 'thorough':
        nstress += stress_phase(ctx, 25.0)
    ctx.count('cases', total['schedules'] + nstress)
    ctx.extra('scheduler_steps', total['steps'])
    ctx.extra('context_switches', total['context_switches'])
    ctx.extra('lock_wait_events', total['lock_waits'])
    ctx.extra('sleep_yields', total['sleeps'])
    ctx.extra('max_preemptions_enumerated', 'all with <= 1; ' + ('all with <= 2 on candidate lines' if ctx.tier == 'thorough' else 'a slice of <= 2'))
    sched.uninstall()
    if sh == 0:
        ctx.put_sample({'program': 'P3-ioport-over-wire', 'threads': ['sender0: send x2', 'sender1: send x2',
                                                                         'receiver: poll x3', 'receiver: receive()'],
                        'schedule': 'Preempt at (step, thread)'})


def replay(ctx, case):
    if case.get('kind') == 'nested-wrappers':
        nested_wrapper_cases(ctx)
        return
    if case.get('kind') == 'short-lived-wrapper':
        short_lived_wrapper_cases(ctx)
        return
    if case.get('kind') == 'socket-big-message':
        big_message_over_socket_cases(ctx)
        return
    if case.get('kind') == 'burst':
        burst_cases(ctx)
        return
    if case.get('kind') == 'mixed-calls':
        mixed_call_cases(ctx, 1, only=(case['seed'], case['ptype']))
        return
    if case.get('kind') == 'helper-args':
        helper_argument_cases(ctx)
        return
    if case.get('kind') == 'blocking-get':
        for _ in range(1 if case.get('delays_seed') is None else 20):       # (pauses are seeded, the OS scheduler is not)
            blocking_get_case(ctx, case['consumers'], case['messages'], case.get('delays_seed'))
            if ctx.violations:
                break
        sched.uninstall()
        return
    prog_cls = PROGRAMS[case['program']]
    if case.get('kind') == 'stress':
        print('free-running stress histories are not replayable; the recorded history is the witness:')
        for e in case.get('history', []):
            print('  ', e)
        for _ in range(200):
            clock, rec, prog, k = stress_run(prog_cls, case['seed'])
            check_history(ctx, clock, rec, prog, case)
            if ctx.violations:
                break
        sched.uninstall()
        return
    if case['strategy'] == 'preempt':
        st = sched.Preempt(tuple(tuple(p) for p in case['points']))
    elif case['strategy'] == 'random':
        seed = case['seed']
        st = sched.RandomWalk(random.Random(seed), p=random.Random(seed + 'p').choice((0.03, 0.1, 0.3)))
    else:
        st = sched.PCT(random.Random(case['seed']), 4, depth=3, nsteps=case['nsteps'])
    sc, rec, prog = run_schedule(prog_cls, st)
    check_history(ctx, sc, rec, prog, case)
    sched.uninstall()
    print('trace:', sc.trace[:60])
    for e in rec.events:
        print('  ', e[:5], repr(e[5])[:80])
