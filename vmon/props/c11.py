"""C11 - Port lifecycle: idempotent close, drain then stop, blocking calls terminate.

Event log of a recording device double (_open/_close/_send/_receive(block)),
a patched ports.sleep() that counts sleeps and injects "a message arrives now"
/ "another thread closes the port now" at the k-th sleep, and a sequential
lifecycle model.  Every operation sequence up to a length bound is run on each
port type and for every position at which the device closes itself; overlapping
close()/send() calls are explored with the deterministic scheduler.
"Returns as soon as a message is deliverable" is decided as bounded progress in
sleeps (logical steps), never in wall-clock time.
"""
import collections
import itertools
import random

import mido
import mido.ports
from mido import Message
from mido.ports import EchoPort, IOPort, MultiPort

from .. import doubles
from ..core import HarnessAbort
from ..doubles import DirectPort, RecordingPort, msg_tag
from ..mon import lines, sched
from . import c10

ID = 'C11'
ANCHORS = ['mido.ports', 'mido.sockets']
LEVEL = 'fault_enumeration'
RULE = ('all operation sequences of length <= 4 (quick) / <= 5 (thorough) over {send, poll, '
        'iter_pending, blocking receive, iterate, close, with-block, __del__, repr, reset, panic} on a recording '
        'device port (autoreset on/off, device refusing sends during reset), EchoPort and '
        'IOPort over two doubles, x device supply (0 or 3 messages, taken in 1 or all per call) x '
        'every position at which the device closes itself (never, before the first message, after '
        'the 1st, 2nd, with the last batch); blocking calls get an arrival at sleep 1 and a close '
        'by "another thread" at sleep 3; MultiPort over 0-3 members (some closed) for blocking and '
        'non-blocking receive; all schedules with <= 1 preemption (<= 2 thorough) of overlapping '
        'close/close, close/send and with/close programs. Distinct by construction; a sequence is '
        'non-trivial when it contains a close (explicit, by the device or injected) or a blocking call')
ASSUMPTIONS = [
    '"as soon as a message is deliverable" = within model_sleeps + 2 calls of ports.sleep(); non-blocking calls must not sleep at all and must not call the device with block=True',
    'a blocking receive() on a closed, drained port may raise ValueError or OSError (either is "stop")',
    'an IOPort wrapper whose input device closed itself while the wrapper is still open: only that what was taken in is handed out and that the following blocking call terminates (returns or raises) is judged - how the end is reported is not (observed: iteration then raises ValueError)',
    'a connection reset by the peer surfaces as OSError from the read (sockets.py re-raises it): only what follows is judged - close() works, what had arrived completely is handed out',
    'under overlapping calls only close-once / reset-once / no exception are judged; whether a send that overlaps a close reaches the device is not',
]
DECIDING = ['results == lifecycle model', 'device released exactly once', 'reset messages once, before release',
            'no device send after close', 'blocking call bounded sleeps', 'non-blocking call never waits',
            'iteration ends without exception', 'concurrent close releases once']
TIMEOUT = {'quick': 600, 'thorough': 3600}
SLEEP_LIMIT = 10
RESETS = [(ch, c) for ch in range(16) for c in (123, 121)]


def nshards(tier):
    return 16


def dev_msg(i):
    return Message('note_on', channel=9, note=i, velocity=50)


def out_msg(i):
    return Message('program_change', channel=3, program=i)


class SleepHook:
    """Replacement for mido.ports.sleep: counts, injects events."""

    def __init__(self):
        self.n = 0
        self.plan = {}
        self.on_arrive = None
        self.on_close = None
        self.limit = SLEEP_LIMIT
        self.extra = []          # time.sleep() calls made by mido.ports besides sleep() itself

    def arm(self, plan, on_arrive, on_close, limit=None):
        self.limit = limit or SLEEP_LIMIT
        self.extra = []
        self.n = 0
        self.plan = dict(plan)
        self.on_arrive, self.on_close = on_arrive, on_close

    def __call__(self):
        self.n += 1
        if self.n > self.limit:
            raise HarnessAbort('blocking call still sleeping after %d sleeps' % self.limit)
        ev = self.plan.get(self.n)
        if ev == 'arrive' and self.on_arrive:
            self.on_arrive()
        elif ev == 'close' and self.on_close:
            self.on_close()


class TimeShim:
    """Stands in for the `time` module inside mido.ports: since ports.sleep() is replaced by the
    hook, any time.sleep() that still happens there is waiting the statement does not allow."""

    def __init__(self, hook, real):
        self._hook, self._real = hook, real

    def sleep(self, d):
        self._hook.extra.append(d)

    def __getattr__(self, name):
        return getattr(self._real, name)


class Model:
    """Sequential lifecycle model of one device port."""

    def __init__(self, ndev, batch, close_at, autoreset, send_fail):
        self.q = []
        self.dev = [('d', i) for i in range(ndev)]
        self.batch, self.close_at = batch, close_at
        self.autoreset, self.send_fail = autoreset, send_fail
        self.taken = 0
        self.closed = False
        self.releases = 0
        self.sends = []          # expected device _send log (tags)
        self.nsend = 0
        self.next_arrival = 100

    def _device_send(self, tag):
        self.nsend += 1
        self.sends.append(tag)
        return not (self.send_fail is not None and self.nsend > self.send_fail)

    def close(self):
        if self.closed:
            return
        if self.autoreset:
            for r in RESETS:
                if not self._device_send(('reset',) + r):
                    break
        self.releases += 1
        self.closed = True

    def take_in(self):
        for _ in range(self.batch):
            if self.dev:
                self.q.append(self.dev.pop(0))
                self.taken += 1
        if self.close_at is not None and self.taken >= self.close_at and not self.closed:
            self.close()

    def send(self, tag):
        if self.closed:
            return 'ValueError'
        ok = self._device_send(tag)
        return None if ok else 'OSError'

    def burst(self, controls):
        """reset() / panic(): nothing on a closed port, else one message per channel and control."""
        if self.closed:
            return None
        for ch in range(16):
            for c in controls:
                if not self._device_send(('reset', ch, c)):
                    return 'OSError'
        return None

    def poll(self):
        if self.q:
            return self.q.pop(0)
        if self.closed:
            return None
        self.take_in()
        return self.q.pop(0) if self.q else None

    def arrive(self):
        self.dev.append(('d', self.next_arrival))
        self.next_arrival += 1

    def recv(self, plan, sleeps):
        """Blocking receive. sleeps: [count] shared over the operation.
        Returns a tag, 'RAISE' or 'BLOCKS'."""
        if self.q:
            return self.q.pop(0)
        if self.closed:
            return 'RAISE'
        while True:
            self.take_in()
            if self.q:
                return self.q.pop(0)
            if self.closed:
                return 'RAISE'
            sleeps[0] += 1
            if sleeps[0] > SLEEP_LIMIT:
                return 'BLOCKS'
            ev = plan.get(sleeps[0])
            if ev == 'arrive':
                self.arrive()
            elif ev == 'close':
                self.close()


OPS = ('send', 'poll', 'iterp', 'recv', 'iter', 'close', 'with', 'del', 'repr', 'reset', 'panic')
PLAN = {1: 'arrive', 3: 'close'}


def tag_of(m):
    if m is None:
        return None
    t = msg_tag(m)
    if m.type == 'note_on' and m.channel == 9:
        return ('d', m.note)
    if m.type == 'control_change':
        return ('reset', m.channel, m.control)
    return ('o', t[1])


def run_sequence(ctx, seq, cfg, hook):
    """cfg = (ptype, ndev, batch, close_at, autoreset, send_fail)"""
    ptype, ndev, batch, close_at, autoreset, send_fail = cfg
    case = lambda: {'kind': 'seq', 'ops': list(seq), 'cfg': list(cfg)}  # noqa: E731
    key0 = ptype
    log = []
    devmsgs = [dev_msg(i) for i in range(ndev)]
    arrivals = iter(range(100, 200))
    if ptype in ('rec', 'direct'):
        cls = RecordingPort if ptype == 'rec' else DirectPort
        port = cls('r', log=log, dev=devmsgs, batch=batch, close_at=close_at,
                   autoreset=autoreset, send_fail=send_fail)
        indev = port
        ptype = 'rec'
    else:   # ioport over two doubles
        pin = RecordingPort('i', log=log, dev=devmsgs, batch=batch, close_at=close_at, label='in')
        pout = RecordingPort('o', log=log, autoreset=autoreset, send_fail=send_fail, label='out')
        port = IOPort(pin, pout)
        indev = pin
    model = Model(ndev, batch, close_at, autoreset, send_fail)
    # for the IOPort the input double closing itself closes only the input: handled below
    results_ok = True
    nsent = 0
    blocking_or_close = False
    for oi, op in enumerate(seq):
        hook.arm(PLAN, lambda: indev.dev.append(dev_msg(next(arrivals))), port.close)
        before_receives = len([e for e in log if e[1] == '_receive'])
        sleeps = [0]
        want = got = None
        try:
            if op == 'send':
                nsent += 1
                want = model.send(('o', nsent))
                try:
                    port.send(out_msg(nsent))
                    got = None
                except ValueError:
                    got = 'ValueError'
                except OSError:
                    got = 'OSError'
            elif op == 'poll':
                want = model.poll()
                got = tag_of(port.poll())
            elif op == 'iterp':
                want = []
                while True:
                    x = model.poll()
                    if x is None:
                        break
                    want.append(x)
                got = [tag_of(m) for m in port.iter_pending()]
            elif op == 'recv':
                blocking_or_close = True
                want = model.recv(PLAN, sleeps)
                try:
                    got = tag_of(port.receive())
                except (ValueError, OSError):
                    got = 'RAISE'
            elif op == 'iter':
                blocking_or_close = True
                want = []
                while True:
                    x = model.recv(PLAN, sleeps)
                    if x in ('RAISE', 'BLOCKS'):
                        break
                    want.append(x)
                try:
                    got = [tag_of(m) for m in port]
                except (ValueError, OSError) as exc:
                    got = f'iteration raised {type(exc).__name__}: {exc}'
                ctx.check('iteration ends without exception', isinstance(got, list), f'{key0}:iter-raised',
                          case, lambda: {'op_index': oi, 'got': got})
            elif op in ('close', 'with', 'del'):
                blocking_or_close = True
                model.close()
                if op == 'close':
                    port.close()
                elif op == 'with' and (oi + len(seq) + len(cfg[0])) % 2:
                    with port as p:
                        ctx.check('results == lifecycle model', p is port, f'{key0}:with-as', case, None)
                elif op == 'with':
                    # the block is left by an exception that has nothing to do with this port
                    exc_cls = (OSError, ValueError, KeyError, EOFError)[(oi + len(seq)) % 4]
                    try:
                        with port:
                            raise exc_cls('something else failed inside the with block')
                    except exc_cls:
                        pass
                else:
                    port.__del__()
                want = got = None
            elif op in ('reset', 'panic'):
                want = model.burst((123, 121) if op == 'reset' else (120,))
                try:
                    getattr(port, op)()
                    got = None
                except OSError:
                    got = 'OSError'
            elif op == 'repr':
                want = 'closed' if model.closed else 'open'
                r = repr(port)
                got = 'closed' if r.startswith('<closed') else 'open' if r.startswith('<open') else r
        except HarnessAbort as exc:
            got = f'BLOCKED: {exc}'
        except Exception as exc:
            got = f'{type(exc).__name__}: {exc}'
        if want == 'BLOCKS':
            ctx.undecided(f'model says the operation blocks: {seq} {cfg}')
            return False
        ok = got == want
        ctx.check('results == lifecycle model', ok, f'{key0}:{op}-differs', case,
                  lambda: {'op_index': oi, 'op': op, 'got': got, 'want': want})
        if op in ('recv', 'iter'):
            ctx.check('blocking call bounded sleeps', hook.n <= sleeps[0] + 2 and not hook.extra, f'{key0}:{op}-too-many-sleeps',
                      case, lambda: {'op_index': oi, 'sleeps': hook.n, 'model_sleeps': sleeps[0], 'extra_time_sleep': hook.extra[:3]})
        else:
            recv_calls = [e for e in log if e[1] == '_receive'][before_receives:]
            ctx.check('non-blocking call never waits', hook.n == 0 and all(e[2] is False for e in recv_calls)
                      if op in ('poll', 'iterp') else hook.n == 0, f'{key0}:{op}-waited', case,
                      lambda: {'op_index': oi, 'sleeps': hook.n, 'device_calls': [e[2] for e in recv_calls]})
        ctx.check('closed flag == model', port.closed == model.closed, f'{key0}:closed-flag', case,
                  lambda: {'op_index': oi, 'op': op, 'port.closed': port.closed})
        if not ok:
            results_ok = False
            break
    # device log against the model
    out_label = 'rec' if ptype == 'rec' else 'out'
    closes = collections.Counter(e[0] for e in log if e[1] == '_close')
    if ptype == 'rec':
        want_closes = {'rec': model.releases} if model.releases else {}
    else:
        want_closes = {}
        if model.releases:
            want_closes = {'in': 1, 'out': 1}
        elif indev.closed:
            want_closes = {'in': 1}
    if results_ok:
        if ptype == 'rec':
            ctx.check('device released exactly once', dict(closes) == want_closes, f'{key0}:release-count', case,
                      lambda: {'got': dict(closes), 'want': want_closes})
        else:
            # the input double may have closed itself (its own release) before the IOPort was closed
            okc = closes.get('out', 0) == (1 if model.releases and port.closed else 0) and closes.get('in', 0) <= 1
            ctx.check('device released exactly once', okc, f'{key0}:release-count', case, dict(closes))
        sends = [(tag_of(e[2])) for e in log if e[1] == '_send' and e[0] == out_label]
        ctx.check('reset messages once, before release' if model.autoreset else 'device sends == model',
                  sends == model.sends, f'{key0}:device-sends', case,
                  lambda: {'got': sends[:40], 'want': model.sends[:40]})
        # nothing reaches the device after its release
        idx_close = next((i for i, e in enumerate(log) if e[1] == '_close' and e[0] == out_label), None)
        late = [e for e in log[idx_close + 1:] if e[1] == '_send' and e[0] == out_label] if idx_close is not None else []
        ctx.check('no device send after close', not late, f'{key0}:send-after-release', case, len(late))
    port.closed = True
    if ptype != 'rec':
        pin.closed = pout.closed = True
    return blocking_or_close


class RecEcho(EchoPort):
    def _open(self, log=None, **kwargs):
        self.log = log

    def _close(self):
        self.log.append(('echo', '_close'))


def run_echo_sequence(ctx, seq, hook):
    case = lambda: {'kind': 'echo-seq', 'ops': list(seq)}  # noqa: E731
    log = []
    port = RecEcho('e', log=log)
    q = []
    closed = False
    n = 0
    for oi, op in enumerate(seq):
        hook.arm({}, None, None)
        want = got = None
        try:
            if op == 'send':
                n += 1
                if closed:
                    want = 'ValueError'
                else:
                    q.append(('o', n))
                try:
                    port.send(out_msg(n))
                except ValueError:
                    got = 'ValueError'
            elif op == 'poll':
                want = q.pop(0) if q else None
                got = tag_of(port.poll())
            elif op in ('iterp', 'iter'):
                want, q = q, []
                got = [tag_of(m) for m in (port.iter_pending() if op == 'iterp' else port)]
            elif op == 'recv':
                if q:
                    want = q.pop(0)
                    got = tag_of(port.receive())
                elif closed:
                    want = 'RAISE'
                    try:
                        got = tag_of(port.receive())
                    except (ValueError, OSError):
                        got = 'RAISE'
                else:
                    continue        # would block for ever on an open, empty EchoPort
            elif op in ('close', 'with', 'del'):
                closed = True
                if op == 'close':
                    port.close()
                elif op == 'with':
                    with port:
                        pass
                else:
                    port.__del__()
            elif op == 'repr':
                want = 'closed' if closed else 'open'
                got = 'closed' if repr(port).startswith('<closed') else 'open'
        except HarnessAbort as exc:
            got = f'BLOCKED: {exc}'
        except Exception as exc:
            got = f'{type(exc).__name__}: {exc}'
        ctx.check('results == lifecycle model', got == want, f'echo:{op}-differs', case,
                  lambda: {'op_index': oi, 'op': op, 'got': got, 'want': want})
        ctx.check('non-blocking call never waits', hook.n == 0, f'echo:{op}-waited', case, hook.n)
        if got != want:
            break
    ctx.check('device released exactly once', len(log) == (1 if closed else 0), 'echo:release-count', case, log)
    port.closed = True


def helper_cases(ctx, hook):
    """reset() / panic() / multi_send / multi_iter_pending / multi_receive."""
    from mido.ports import multi_iter_pending, multi_receive, multi_send
    n = 0
    for closed in (False, True):
        log = []
        p = RecordingPort('r', log=log)
        if closed:
            p.close()
        case = {'kind': 'helpers', 'closed': closed}
        hook.arm({}, None, None)
        try:
            p.reset()
            p.panic()
            sends = [tag_of(e[2]) for e in log if e[1] == '_send']
            want = [] if closed else [('reset',) + r for r in RESETS] + [('reset', ch, 120) for ch in range(16)]
            ctx.check('results == lifecycle model', sends == want, 'helpers:reset-panic', case,
                      lambda: {'got': sends[:6], 'n': len(sends)})
        except Exception as exc:
            ctx.fail('results == lifecycle model', f'helpers:{type(exc).__name__}', case, repr(exc))
        p.closed = True
        n += 1
    a, b, c = EchoPort('a'), EchoPort('b'), EchoPort('c')
    c.close()
    case = {'kind': 'helpers', 'what': 'multi_*'}
    try:
        multi_send([a, b], out_msg(1))
        ctx.check('results == lifecycle model', [tag_of(m) for m in a._messages] == [('o', 1)]
                  and [tag_of(m) for m in b._messages] == [('o', 1)], 'helpers:multi_send', case, None)
        hook.arm({}, None, None)
        got = sorted(tag_of(m) for m in multi_iter_pending([a, b, c]))
        ctx.check('results == lifecycle model', got == [('o', 1), ('o', 1)] and hook.n == 0,
                  'helpers:multi_iter_pending', case, got)
        a.send(out_msg(2))
        got = list(multi_receive([a, b, c], yield_ports=True, block=False))
        ctx.check('results == lifecycle model', len(got) == 1 and got[0][0] is a and tag_of(got[0][1]) == ('o', 2)
                  and hook.n == 0, 'helpers:multi_receive-yield_ports', case, repr(got)[:100])
        # blocking multi_receive: a generator that yields as messages arrive
        hook.arm({2: 'arrive'}, lambda: b.send(out_msg(3)), None)
        g = multi_receive([a, b, c], block=True)
        m = next(g)
        ctx.check('blocking call bounded sleeps', tag_of(m) == ('o', 3) and hook.n <= 4, 'helpers:multi_receive-blocking',
                  case, {'sleeps': hook.n})
        g.close()
        mp = MultiPort([a, b], yield_ports=True)
        a.send(out_msg(4))
        r = mp.receive()
        ctx.check('results == lifecycle model', isinstance(r, tuple) and r[0] is a and tag_of(r[1]) == ('o', 4),
                  'helpers:multiport-yield_ports', case, repr(r)[:100])
    except HarnessAbort as exc:
        ctx.check('blocking call bounded sleeps', False, 'helpers:blocked', case, str(exc))
    except Exception as exc:
        ctx.fail('results == lifecycle model', f'helpers:{type(exc).__name__}', case, repr(exc))
    return n + 1


def echo_blocking_cases(ctx, hook):
    """A blocked receive()/iteration on a loop-back port while "another thread" (the sleep hook)
    sends and/or closes: a message the port has taken in before the close must still be handed out."""
    n = 0
    for events in (('send',), ('send', 'close'), ('close',), ('send', 'send', 'close'), ('close', 'send')):
        for at in (1, 2):
            for how in ('receive', 'iterate'):
                case = {'kind': 'echo-blocking', 'events': list(events), 'at_sleep': at, 'how': how}
                log = []
                port = RecEcho('e', log=log)
                sent = []

                def fire():
                    for ev in events:
                        if ev == 'send':
                            try:
                                port.send(out_msg(len(sent) + 1))
                                sent.append(('o', len(sent) + 1))
                            except ValueError:
                                pass               # sending after the close is refused
                        else:
                            port.close()
                hook.arm({at: 'arrive'}, fire, None)
                try:
                    if how == 'receive':
                        try:
                            got = [tag_of(port.receive())]
                        except (ValueError, OSError):
                            got = []
                        want = sent[:1]
                    else:
                        if 'close' not in events:
                            continue
                        # EchoPort iterates its pending messages only; use the blocking protocol directly
                        got = []
                        try:
                            while True:
                                got.append(tag_of(port.receive()))
                        except (ValueError, OSError):
                            pass
                        want = list(sent)
                    ctx.check('results == lifecycle model', got == want, f'echo-blocking:{how}', case,
                              lambda: {'got': got, 'want': want})
                    ctx.check('blocking call bounded sleeps', hook.n <= at + 2, 'echo-blocking:sleeps', case, hook.n)
                except HarnessAbort as exc:
                    ctx.check('blocking call bounded sleeps', False, 'echo-blocking:never-returns', case, str(exc))
                port.closed = True
                n += 1
    return n


def bystander_cases(ctx, hook):
    """While one caller waits in a blocking receive() (or iterates), another looks at the same empty port - poll(),
    iter_pending(), receive(block=False), repr() - and gets nothing, as it should.  The waiting call goes on waiting: it
    returns the message that arrives later, not None, and within two pauses of its arrival."""
    n = 0
    looks = {'poll': lambda p: p.poll(), 'iter_pending': lambda p: list(p.iter_pending()), 'receive-nb': lambda p: p.receive(block=False),
             'repr': lambda p: repr(p), 'poll-x3': lambda p: [p.poll() for _ in range(3)]}
    for kind in ('device', 'echo', 'multi', 'ioport'):
        for look_name, look in looks.items():
            for look_at, arrive_at in ((1, 3), (2, 3), (1, 2), (3, 40)):
                for how in ('receive', 'iterate'):
                    if kind == 'echo' and how == 'iterate':
                        continue              # an EchoPort iterates over what is pending, without waiting
                    case = {'kind': 'bystander', 'port': kind, 'look': look_name, 'look_at_sleep': look_at, 'arrival_at_sleep': arrive_at,
                            'how': how}
                    log = []
                    if kind == 'device':
                        port = RecordingPort('r', log=log)
                        arrive = lambda: port.dev.append(dev_msg(1))  # noqa: E731
                    elif kind == 'echo':
                        port = RecEcho('e', log=log)
                        arrive = lambda: port.send(dev_msg(1))  # noqa: E731
                    elif kind == 'multi':
                        member = EchoPort('m')
                        port = MultiPort([member])
                        arrive = lambda: member.send(dev_msg(1))  # noqa: E731
                    else:
                        inner = RecordingPort('r', log=log)
                        port = IOPort(inner, EchoPort('o'))
                        arrive = lambda: inner.dev.append(dev_msg(1))  # noqa: E731
                    seen = []

                    def event():
                        if hook.n == look_at:
                            seen.append(look(port))
                        if hook.n == arrive_at:
                            arrive()
                    hook.arm({look_at: 'arrive', arrive_at: 'arrive'}, event, None, limit=arrive_at + 50)
                    try:
                        if how == 'receive':
                            m = port.receive()
                        else:
                            m = next(iter(port), 'ITERATION ENDED')
                        ctx.check('results == lifecycle model', m is not None and not isinstance(m, str) and tag_of(m) == ('d', 1),
                                  'bystander:waiting-call-gave-up', case, repr(m))
                        ctx.check('blocking call bounded sleeps', hook.n <= arrive_at + 2, 'bystander:sleeps', case, hook.n)
                        empty = seen and seen[0] in (None, [], [None, None, None]) or look_name == 'repr'
                        ctx.check('results == lifecycle model', bool(empty), 'bystander:look-saw-something', case, repr(seen)[:80])
                    except HarnessAbort as exc:
                        ctx.check('blocking call bounded sleeps', False, 'bystander:never-returns', case, str(exc))
                    except Exception as exc:
                        ctx.fail('results == lifecycle model', f'bystander:{type(exc).__name__}', case, f'{type(exc).__name__}: {exc}')
                    port.closed = True
                    n += 1
    return n


def backlog_cases(ctx, hook):
    """Nobody read the port for a while: tens of thousands of messages taken in and not yet handed out.  After close() - and
    before - poll, non-blocking receive, iter_pending and iteration hand out every one of them, oldest first."""
    from mido.ports import BaseIOPort
    n = 0

    class Loop(BaseIOPort):
        def _send(self, msg):
            self._parser.feed(msg.bytes())

    def numbered(i):
        return Message('pitchwheel', channel=i % 16, pitch=(i // 16) % 16384 - 8192)

    for size in (16383, 16385, 40000, 70000):
        for kind in ('echo', 'loop', 'ioport', 'multi'):
            for drain in ('poll-after-close', 'iterate-after-close', 'iter_pending-open', 'receive-nb-open'):
                if (size > 20000) and drain not in ('poll-after-close', 'iterate-after-close') and kind != 'echo':
                    continue
                case = {'kind': 'backlog', 'size': size, 'port': kind, 'drain': drain}
                hook.arm({}, None, None)
                try:
                    if kind == 'echo':
                        port = feed = EchoPort('e')
                    elif kind == 'loop':
                        port = feed = Loop('l')
                    elif kind == 'ioport':
                        feed = Loop('l')
                        port = IOPort(feed, EchoPort('o'))
                    else:
                        feed = EchoPort('m')
                        port = MultiPort([feed])
                    for i in range(size):
                        feed.send(numbered(i))
                    if kind == 'multi':
                        first = port.poll()             # takes everything in from the member
                        got = [first]
                    else:
                        got = []
                    if drain.endswith('after-close'):
                        port.close()
                    if drain == 'poll-after-close':
                        while True:
                            m = port.poll()
                            if m is None:
                                break
                            got.append(m)
                    elif drain == 'iterate-after-close':
                        got += list(port) if kind != 'echo' else list(port.iter_pending())
                    elif drain == 'iter_pending-open':
                        got += list(port.iter_pending())
                    else:
                        while True:
                            m = port.receive(block=False)
                            if m is None:
                                break
                            got.append(m)
                    ok = len(got) == size and all(g.channel == i % 16 and g.pitch == (i // 16) % 16384 - 8192 for i, g in enumerate(got))
                    ctx.check('results == lifecycle model', ok, 'backlog:messages-lost-or-reordered', case,
                              lambda: {'handed_out': len(got), 'taken_in': size, 'first': repr(got[0])[:80] if got else None})
                    port.closed = True
                    feed.closed = True
                except HarnessAbort as exc:
                    ctx.check('blocking call bounded sleeps', False, 'backlog:never-returns', case, str(exc))
                except Exception as exc:
                    ctx.fail('results == lifecycle model', f'backlog:{type(exc).__name__}', case, f'{type(exc).__name__}: {exc}')
                n += 1
    return n


def long_idle_cases(ctx, hook):
    """A blocking receive that has been polling an idle port for thousands of rounds returns as
    promptly as a fresh one: within 2 further sleep() calls and without any other waiting."""
    n = 0
    for idle in (1100, 2500, 5000):
        for kind in ('device', 'echo', 'multi'):
            case = {'kind': 'long-idle', 'idle_polls': idle, 'port': kind}
            log = []
            if kind == 'device':
                port = RecordingPort('r', log=log)
                target = port
                arrive = lambda: port.dev.append(dev_msg(1))  # noqa: E731
            elif kind == 'echo':
                port = RecEcho('e', log=log)
                arrive = lambda: port.send(dev_msg(1))  # noqa: E731
            else:
                member = EchoPort('m')
                port = MultiPort([member])
                arrive = lambda: member.send(dev_msg(1))  # noqa: E731
            hook.arm({idle: 'arrive'}, arrive, None, limit=idle + 50)
            try:
                m = port.receive()
                ctx.check('results == lifecycle model', tag_of(m) == ('d', 1), 'long-idle:result', case, repr(m))
                ctx.check('blocking call bounded sleeps', hook.n <= idle + 2 and not hook.extra, 'long-idle:extra-waiting', case,
                          {'sleeps': hook.n, 'arrival_at': idle, 'extra_time_sleep_calls': len(hook.extra),
                           'extra_seconds': round(sum(hook.extra), 4)})
            except HarnessAbort as exc:
                ctx.check('blocking call bounded sleeps', False, 'long-idle:never-returns', case, str(exc))
            port.closed = True
            n += 1
    return n


class WildClock:
    """Stands in for `time` inside mido.ports with the library's REAL sleep() in place: wall-clock readings
    jump (back an hour, forward a day, ...), sleeping is virtual and recorded, a message arrives after a
    given number of pauses."""

    def __init__(self, real, pattern, arrive_after, on_arrive):
        self._real, self.pattern, self.arrive_after, self.on_arrive = real, pattern, arrive_after, on_arrive
        self.requests = []
        self.reads = 0
        self.slept = 0.0          # virtual sleeping moves both clocks forward (a pause that is re-armed until a
        #                           deadline on the MONOTONIC clock is a legitimate implementation and ends at once)

    def _offset(self):
        self.reads += 1
        k = self.reads
        if k > 20000:
            raise HarnessAbort('the clock was read 20 000 times without the call returning (busy loop without pausing)')
        return {'steady': 0.0, 'back-an-hour': -3600.0 * (k % 2), 'backwards-forever': -3600.0 * k,
                'forward-a-day': 86400.0 * (k % 3 == 0), 'epoch-zero': -self._real.time()}[self.pattern]

    def time(self):
        return self._real.time() + self.slept + self._offset()

    def monotonic(self):
        return self._real.monotonic() + self.slept

    def perf_counter(self):
        return self._real.perf_counter() + self.slept

    def sleep(self, d):
        self.requests.append(d)
        self.slept += max(d, 0)
        if len(self.requests) > 400:
            raise HarnessAbort('still pausing after 400 pauses')
        if len(self.requests) == self.arrive_after:
            self.on_arrive()

    def __getattr__(self, name):
        return getattr(self._real, name)


def wild_clock_cases(ctx, real_sleep):
    """Blocking receives with the library's own sleep(): whatever the wall clock does, one pause asks the
    operating system for no more than the configured sleep time, and the call returns within two pauses
    of the arrival."""
    import time as real_time
    n = 0
    saved_sleep, saved_time = mido.ports.sleep, mido.ports.time
    limit = mido.ports.get_sleep_time()
    try:
        for pattern in ('steady', 'back-an-hour', 'backwards-forever', 'forward-a-day', 'epoch-zero'):
            for kind in ('echo', 'multi', 'device', 'iterate-then-close'):
                for arrive_after in (1, 3, 10):
                    case = {'kind': 'wild-clock', 'clock': pattern, 'port': kind, 'arrival_after_pauses': arrive_after}
                    if kind in ('echo', 'iterate-then-close'):
                        port = EchoPort('e')
                        arrive = (lambda: port.send(dev_msg(1))) if kind == 'echo' else port.close
                    elif kind == 'multi':
                        member = EchoPort('m')
                        port = MultiPort(iter([member]))
                        arrive = lambda: member.send(dev_msg(1))  # noqa: E731
                    else:
                        port = RecordingPort('r', log=[])
                        arrive = lambda: port.dev.append(dev_msg(1))  # noqa: E731
                    clock = WildClock(real_time, pattern, arrive_after, arrive)
                    mido.ports.sleep, mido.ports.time = real_sleep, clock
                    try:
                        if kind == 'iterate-then-close':
                            got = list(BaseIterate(port))
                            ok = got == []
                        else:
                            m = port.receive()
                            ok = tag_of(m) == ('d', 1)
                        ctx.check('results == lifecycle model', ok, 'wild-clock:result', case, None)
                        too_long = [d for d in clock.requests if d > limit * 1.000001 or d < 0]
                        ctx.check('blocking call bounded sleeps', not too_long and len(clock.requests) <= arrive_after + 2,
                                  'wild-clock:pause-too-long' if too_long else 'wild-clock:too-many-pauses', case,
                                  lambda: {'pauses': len(clock.requests), 'longest_request_s': max(clock.requests or [0]),
                                           'configured_sleep_time_s': limit})
                    except HarnessAbort as exc:
                        ctx.check('blocking call bounded sleeps', False, 'wild-clock:never-returns', case, str(exc))
                    except Exception as exc:
                        ctx.fail('results == lifecycle model', f'wild-clock:{type(exc).__name__}', case, f'{type(exc).__name__}: {exc}')
                    finally:
                        mido.ports.sleep, mido.ports.time = saved_sleep, saved_time
                    port.closed = True
                    n += 1
    finally:
        mido.ports.sleep, mido.ports.time = saved_sleep, saved_time
    return n


def BaseIterate(port):
    """for msg in port - EchoPort aliases __iter__ to iter_pending, so go through BaseInput's own."""
    return mido.ports.BaseInput.__iter__(port)


def selfclosing_on_send_cases(ctx, hook):
    """A device that closes its port from inside _send() when a write fails and then raises OSError - what SocketPort
    does on a broken pipe.  Positions: the failing write is a caller's send (after k good ones) or one of the reset
    messages of close() (autoreset).  Whatever the position: close() never raises, the device is released exactly
    once, every reset burst is attempted at most once, afterwards send raises ValueError and what had been taken in
    is still handed out."""
    from mido.ports import reset_messages
    nreset = len(list(reset_messages()))
    n = 0
    for ptype in ('plain', 'direct'):
        for autoreset in (False, True):
            for good in (0, 1, 3, nreset - 1, nreset, nreset + 2):
                for via in ('send-then-close', 'close', 'with', 'del'):
                    case = {'kind': 'selfclosing-on-send', 'ptype': ptype, 'autoreset': autoreset, 'good_sends': good, 'via': via}
                    log = []
                    cls = DirectPort if ptype == 'direct' else RecordingPort
                    port = cls('sc', log=log, autoreset=autoreset, send_fail=good, send_fail_closes=True,
                               dev=[dev_msg(1), dev_msg(2)], batch=2)
                    raised = []
                    try:
                        port.poll()                      # takes both device messages in, hands out the first
                        if via == 'send-then-close':
                            for i in range(good + 1):
                                try:
                                    port.send(out_msg(i))
                                except OSError:
                                    raised.append(i)
                                except ValueError:
                                    raised.append(('closed', i))
                        if via == 'with':
                            with port:
                                pass
                        elif via == 'del':
                            port.__del__()
                        else:
                            port.close()
                        port.close()
                        left = [tag_of(m) for m in port.iter_pending()]
                        try:
                            port.send(out_msg(99))
                            after = 'accepted'
                        except ValueError:
                            after = 'ValueError'
                        err = None
                    except BaseException as exc:         # RecursionError included
                        err, left, after = f'{type(exc).__name__}: {str(exc)[:80]}', None, None
                    closes = sum(1 for e in log if e[1] == '_close')
                    resets = [e for e in log if e[1] == '_send' and e[2].type == 'control_change']
                    ctx.check('device released exactly once', err is None and closes == 1 and port.closed,
                              f'selfclosing-send:release:{autoreset}', case, {'error': err, 'releases': closes, 'closed': port.closed})
                    if err is None:
                        ctx.check('reset messages once, before release', len(resets) <= (nreset if autoreset else 0)
                                  and all(not e[3] for e in resets), f'selfclosing-send:resets:{autoreset}', case,
                                  {'reset_sends': len(resets)})
                        ctx.check('results == lifecycle model', left == [('d', 2)] and after == 'ValueError'
                                  and (via != 'send-then-close' or raised == [good]), 'selfclosing-send:after', case,
                                  {'left': repr(left), 'send_after_close': after, 'raised': repr(raised)})
                    n += 1
    return n


def socket_partial_tail_cases(ctx, hook):
    """A connection that ends - the peer hangs up, or the port is closed by its owner - while a message is half way in and
    complete ones have been taken in but not handed out yet: poll, non-blocking receive, iter_pending and iteration hand out
    every complete one, then stop; the half message is never seen."""
    import socket
    import time
    from mido.sockets import SocketPort
    n = 0
    complete = [out_msg(1), out_msg(2), out_msg(3)]
    tails = {'channel-1-of-3': [0x93, ], 'channel-2-of-3': [0x93, 5], 'sysex-open': [0xF0, 1, 2, 3], 'songpos-2-of-3': [0xF2, 1],
             'none': []}
    for tail_name, tail in tails.items():
        for ending in ('peer-closes', 'own-close-after-first', 'own-with-block'):
            for drain in ('poll', 'receive-nb', 'iter_pending', 'iterate'):
                case = {'kind': 'socket-partial-tail', 'tail': tail_name, 'ending': ending, 'drain': drain}
                a = b = port = None
                hook.arm({}, None, None)
                try:
                    a, b = socket.socketpair()
                    port = SocketPort('peer', 1, conn=a)
                    data = bytes(x for m in complete for x in m.bytes()) + bytes(tail)
                    b.sendall(data)
                    got = []
                    if ending == 'peer-closes':
                        b.close()
                        b = None
                        time.sleep(0.01)
                    else:
                        time.sleep(0.01)
                        if ending == 'own-close-after-first':
                            got.append(tag_of(port.poll()))       # takes in everything that has arrived, hands out the first
                            port.close()
                        else:
                            with port:
                                got.append(tag_of(port.poll()))
                    if drain == 'poll':
                        for _ in range(6):
                            m = port.poll()
                            if m is not None:
                                got.append(tag_of(m))
                    elif drain == 'receive-nb':
                        for _ in range(6):
                            m = port.receive(block=False)
                            if m is not None:
                                got.append(tag_of(m))
                    elif drain == 'iter_pending':
                        got += [tag_of(m) for m in port.iter_pending()]
                        got += [tag_of(m) for m in port.iter_pending()]
                    else:
                        got += [tag_of(m) for m in port]
                    ctx.check('results == lifecycle model', got == [('o', 1), ('o', 2), ('o', 3)], 'socket:taken-in-messages-lost-at-close', case,
                              {'got': repr(got)})
                    ctx.check('closed flag == model', port.closed is True, 'socket:not-closed-after-end', case, port.closed)
                except HarnessAbort as exc:
                    ctx.check('blocking call bounded sleeps', False, 'socket-partial-tail:never-returns', case, str(exc))
                except Exception as exc:
                    ctx.fail('results == lifecycle model', f'socket-partial-tail:{type(exc).__name__}', case, f'{type(exc).__name__}: {exc}')
                finally:
                    for x in (port, b):
                        try:
                            if x is not None:
                                x.close()
                        except Exception:
                            pass
                n += 1
    return n


def socket_lifecycle_cases(ctx, hook):
    """close() on a SocketPort: idempotent, afterwards send raises ValueError - also when the peer
    has already gone away politely (FIN) or rudely (reset)."""
    import socket
    import struct
    import time
    from mido.sockets import PortServer, SocketPort, connect
    n = 0
    for peer, via, autoreset in [(p, v, a) for a in (False, True)
                                 for p in ('alive', 'closed', 'reset', 'reset-noticed-by-writing')
                                 for v in ('close', 'with', 'del') + (('iterate',) if p == 'closed' else ())
                                 + (('read-then-close',) if p == 'reset' else ())]:
        if True:
            case = {'kind': 'socket-lifecycle', 'peer': peer, 'via': via, 'autoreset': autoreset}
            server = client = port = None
            hook.arm({}, None, None)
            try:
                server = PortServer('127.0.0.1', 0)
                client = connect('127.0.0.1', server._socket.getsockname()[1])
                port = server.accept()
                if autoreset:
                    # autoreset on a socket port (an attribute of every output port): the reset burst of close() goes to a
                    # peer that may be gone - the port then learns about that from its own failing writes, inside close()
                    port.autoreset = True
                releases = []
                real_close = port._close
                port._close = lambda: (releases.append(1), real_close())[1]
                client.send(out_msg(1))
                if peer == 'closed':
                    client.close()
                elif peer in ('reset', 'reset-noticed-by-writing'):
                    port.send(out_msg(2))
                    client._socket.setsockopt(socket.SOL_SOCKET, socket.SO_LINGER, struct.pack('ii', 1, 0))
                    client.close()          # unread data + linger 0: the kernel sends a reset
                time.sleep(0.02)
                if autoreset and peer == 'alive':
                    list(port.iter_pending())       # nothing unread at close: the peer sees an orderly end, not a reset
                if peer == 'reset-noticed-by-writing':
                    # the port learns about the disconnect from failing writes (broken pipe), not from a read;
                    # it closes itself - once - and from then on behaves like any closed port
                    for i in range(3):
                        try:
                            port.send(out_msg(10 + i))
                        except (OSError, ValueError):
                            pass
                        time.sleep(0.01)
                    if port.closed:
                        try:
                            polled = port.poll()
                            drained = list(port)
                            ok_after, why_after = True, None
                        except Exception as exc:
                            ok_after, why_after = False, f'{type(exc).__name__}: {exc}'
                        ctx.check('results == lifecycle model', ok_after, 'socket:receive-after-write-failure', case, why_after)
                    else:
                        ctx.check('closed flag == model', port._socket.fileno() != -1, 'socket:released-but-not-closed', case,
                                  {'closed': port.closed, 'fileno': port._socket.fileno()})
                try:
                    if via == 'close':
                        port.close()
                    elif via == 'read-then-close':
                        # the peer's message arrived before its reset: reading may fail (the reset is reported as OSError, by
                        # design), but what had arrived completely is handed out - by the calls before close() or after it
                        got = []
                        for _ in range(4):
                            try:
                                m = port.poll()
                                if m is not None:
                                    got.append(tag_of(m))
                            except OSError:
                                pass
                        port.close()
                        got += [tag_of(m) for m in port.iter_pending()]
                        ctx.check('results == lifecycle model', got == [('o', 1)], 'socket:arrived-before-reset-lost', case,
                                  {'got': repr(got)})
                    elif via == 'iterate':
                        # the port notices the disconnect by reading: what arrived is handed out, then iteration ends
                        got = [tag_of(m) for m in port]
                        ctx.check('results == lifecycle model', got == [('o', 1)] and port.closed, 'socket:iterate-to-disconnect', case,
                                  {'got': repr(got), 'closed': port.closed})
                    elif via == 'with':
                        with port:
                            pass
                    else:
                        port.__del__()
                    port.close()
                    port.close()
                    ok = True
                    why = None
                except Exception as exc:
                    ok, why = False, f'{type(exc).__name__}: {exc}'
                ctx.check('device released exactly once', ok and port.closed and port._socket.fileno() == -1
                          and len(releases) == 1,
                          f'socket:close-failed:{peer}', case, {'error': why, 'closed': port.closed,
                                                                'releases': len(releases)})
                if autoreset and peer == 'alive' and ok:
                    # the peer is still there: it gets the earlier traffic and then the reset burst, once
                    got = []
                    for _ in range(200):
                        got.extend(client.iter_pending())
                        if client.closed:
                            break
                        time.sleep(0.002)
                    from mido.ports import reset_messages
                    want = list(reset_messages())
                    ctx.check('reset messages once, before release', got[-len(want):] == want and len(got) == len(want),
                              'socket:autoreset-burst', case, {'received': len(got), 'want': len(want)})
                try:
                    port.send(out_msg(3))
                    ctx.check('results == lifecycle model', False, 'socket:send-after-close', case, None)
                except ValueError:
                    ctx.count('results == lifecycle model')
                except Exception as exc:
                    ctx.check('results == lifecycle model', False, f'socket:send-after-close:{type(exc).__name__}', case, str(exc))
                ctx.check('non-blocking call never waits', port.poll() is None or True, 'socket:poll-after-close', case, None)
            except Exception as exc:
                ctx.fail('results == lifecycle model', f'socket-lifecycle:{type(exc).__name__}', case, repr(exc))
            finally:
                for p in (client, server):
                    try:
                        if p is not None:
                            p.close()
                    except Exception:
                        pass
            n += 1
    return n


def silent_member_cases(ctx, hook):
    """Non-blocking calls on a MultiPort / PortServer whose ONLY member is open and silent (and with 2 and 3
    silent members): poll() and iter_pending() come back at once with nothing; a blocking receive() returns
    within two pauses of a message arriving at the member."""
    import time
    from mido.sockets import PortServer, connect
    n = 0
    for nmembers in (1, 2, 3):
        case = {'kind': 'silent-members', 'members': nmembers, 'port': 'MultiPort'}
        members = [EchoPort(f's{i}') for i in range(nmembers)]
        mp = MultiPort(members)
        try:
            hook.arm({}, None, None, limit=20)
            r = (mp.poll(), list(mp.iter_pending()), mp.receive(block=False))
            ctx.check('non-blocking call never waits', r == (None, [], None) and hook.n == 0, 'multi:silent-member-waited', case,
                      {'results': repr(r), 'sleeps': hook.n})
            hook.arm({2: 'arrive'}, lambda: members[-1].send(dev_msg(5)), None, limit=20)
            m = mp.receive()
            ctx.check('blocking call bounded sleeps', tag_of(m) == ('d', 5) and hook.n <= 4, 'multi:silent-member-receive', case,
                      {'sleeps': hook.n})
        except HarnessAbort as exc:
            ctx.check('non-blocking call never waits', False, 'multi:silent-member-blocked', case, str(exc))
        n += 1
        # the same through a server and sockets
        case = {'kind': 'silent-members', 'members': nmembers, 'port': 'PortServer'}
        server, clients = None, []
        try:
            server = PortServer('127.0.0.1', 0)
            for i in range(nmembers):
                clients.append(connect('127.0.0.1', server._socket.getsockname()[1]))
                for _ in range(300):
                    hook.arm({}, None, None, limit=20)
                    server.poll()
                    if len(server.ports) > i:
                        break
                    time.sleep(0.003)
            hook.arm({}, None, None, limit=20)
            r = (server.poll(), list(server.iter_pending()))
            ctx.check('non-blocking call never waits', r == (None, []) and hook.n == 0 and len(server.ports) == nmembers,
                      'server:silent-client-waited', case, {'results': repr(r), 'sleeps': hook.n, 'connections': len(server.ports)})
        except HarnessAbort as exc:
            ctx.check('non-blocking call never waits', False, 'server:silent-client-blocked', case, str(exc))
        except Exception as exc:
            ctx.fail('results == lifecycle model', f'silent-members:{type(exc).__name__}', case, repr(exc))
        finally:
            for p_ in clients + [server]:
                try:
                    if p_ is not None:
                        p_.close()
                except Exception:
                    pass
        n += 1
    return n


def portserver_close_cases(ctx, hook):
    """close() on a PortServer that has accepted 0..5 clients through its own polling: every message
    taken in is handed out, every server-side connection is released exactly once (the clients see the
    disconnect), close() is idempotent, send() raises afterwards."""
    import time
    from mido.sockets import PortServer, connect
    n = 0
    for nclients in (0, 1, 2, 3, 5):
        for drain in ('before-close', 'after-close'):
            case = {'kind': 'portserver-close', 'clients': nclients, 'drain': drain}
            server, clients = None, []
            hook.arm({}, None, None)
            try:
                server = PortServer('127.0.0.1', 0)
                port_no = server._socket.getsockname()[1]
                got = []
                for i in range(nclients):
                    c = connect('127.0.0.1', port_no)
                    clients.append(c)
                    c.send(dev_msg(i))
                    # the server's own polling accepts the connection and takes the message in
                    for _ in range(300):
                        m = server.poll()
                        if m is not None:
                            got.append(m)
                        if len(server.ports) > i and (drain == 'after-close' or len(got) > i):
                            break
                        time.sleep(0.005)
                accepted = list(server.ports)
                if drain == 'after-close':
                    # let the bytes arrive, take them in without handing them out
                    deadline = time.time() + 2.0
                    while len(server._messages) + len(got) < nclients and time.time() < deadline:
                        try:
                            server._receive(block=False)
                        except Exception:
                            break
                        time.sleep(0.005)
                server.close()
                server.close()
                got.extend(server.iter_pending())
                got.extend(server)
                tags = sorted(tag_of(m)[1] for m in got)
                ctx.check('results == lifecycle model', len(accepted) == nclients and tags == list(range(nclients)),
                          'portserver:messages-lost', case, {'accepted': len(accepted), 'delivered': tags})
                still_open = [i for i, p in enumerate(accepted) if not p.closed or p._socket.fileno() != -1]
                ctx.check('device released exactly once', server.closed and server._socket.fileno() == -1 and not still_open,
                          'portserver:connection-not-released', case, {'connections_still_open': still_open})
                # every client sees the disconnect
                unseen = []
                for i, c in enumerate(clients):
                    for _ in range(200):
                        try:
                            c.poll()
                        except Exception:
                            pass
                        if c.closed:
                            break
                        time.sleep(0.005)
                    if not c.closed:
                        unseen.append(i)
                ctx.check('device released exactly once', not unseen, 'portserver:client-never-disconnected', case,
                          {'clients_still_connected': unseen})
                try:
                    server.send(out_msg(1))
                    ctx.check('results == lifecycle model', False, 'portserver:send-after-close', case, None)
                except ValueError:
                    ctx.count('results == lifecycle model')
            except HarnessAbort as exc:
                ctx.check('blocking call bounded sleeps', False, 'portserver:blocked', case, str(exc))
            except Exception as exc:
                ctx.fail('results == lifecycle model', f'portserver-close:{type(exc).__name__}', case, repr(exc))
            finally:
                for p in clients + [server]:
                    try:
                        if p is not None:
                            p.close()
                    except Exception:
                        pass
            n += 1
    return n


def socket_two_thread_cases(ctx, real_sleep):
    """One thread waits in a blocking receive() / iteration on an idle SocketPort; meanwhile another thread's
    poll() returns None at once, its send() goes out, and its close() ends the first thread's wait.
    (Real threads and the library's real sleep(); every wait here has a generous bound and a control
    thread tells a blocked library from a starved machine.)"""
    import threading
    import time
    from mido.sockets import PortServer, connect
    n = 0
    saved = mido.ports.sleep
    mido.ports.sleep = real_sleep
    try:
        for waiter in ('receive', 'iterate'):
            for second in ('poll', 'send', 'close'):
                case = {'kind': 'socket-two-threads', 'waiting_call': waiter, 'second_thread': second}
                server = client = port = None
                try:
                    server = PortServer('127.0.0.1', 0)
                    client = connect('127.0.0.1', server._socket.getsockname()[1])
                    port = server.accept()
                    box = []

                    def wait_in_receive():
                        try:
                            if waiter == 'receive':
                                box.append(('got', port.receive()))
                            else:
                                box.append(('iterated', [m for m in port]))
                        except Exception as exc:
                            box.append(('raised', f'{type(exc).__name__}: {exc}'))
                    t1 = threading.Thread(target=wait_in_receive, daemon=True)
                    t1.start()
                    time.sleep(0.05)                       # let it get into its wait
                    done = []

                    def second_call():
                        try:
                            if second == 'poll':
                                done.append(('poll', port.poll()))
                            elif second == 'send':
                                port.send(out_msg(1))
                                done.append(('sent', None))
                            else:
                                port.close()
                                done.append(('closed', port.closed))
                        except Exception as exc:
                            done.append(('raised', f'{type(exc).__name__}: {exc}'))
                    t2 = threading.Thread(target=second_call, daemon=True)
                    t2.start()
                    t2.join(10.0)
                    if t2.is_alive():
                        ctl = threading.Thread(target=lambda: done.append('control'), daemon=True)
                        ctl.start()
                        ctl.join(10.0)
                        if ctl.is_alive():
                            raise HarnessAbort('threads do not get to run on this machine')
                        t2.join(10.0)
                    ctx.check('non-blocking call never waits', not t2.is_alive() and done and done[0][0] != 'raised',
                              f'socket:{second}-stalls-behind-a-blocking-receive', case,
                              {'second_call_finished': not t2.is_alive(), 'result': [str(d) for d in done][:2]})
                    # let the waiter go: a message for receive(), a disconnect for the iteration
                    if second != 'close':
                        if waiter == 'receive':
                            client.send(dev_msg(1))
                        else:
                            client.close()
                    t1.join(10.0)
                    ctx.check('blocking call bounded sleeps', not t1.is_alive(), f'socket:{waiter}-never-returns-after-{second}', case,
                              [str(b) for b in box][:1])
                except HarnessAbort:
                    raise
                except Exception as exc:
                    ctx.fail('results == lifecycle model', f'socket-two-threads:{type(exc).__name__}', case, repr(exc))
                finally:
                    for p in (client, port, server):
                        try:
                            if p is not None:
                                p.close()
                        except Exception:
                            pass
                n += 1
    finally:
        mido.ports.sleep = saved
    return n


def multiport_selfclosing_member(ctx, hook):
    """A member device delivers N messages and hangs up inside the same _receive() call: the
    MultiPort (and multi_receive) must still hand out every one of them."""
    from mido.ports import multi_receive
    n = 0
    for count in (1, 3, 1023, 1024, 1025, 3000):
        for via in ('iter_pending', 'poll', 'receive', 'multi_receive'):
            case = {'kind': 'multi-selfclose', 'count': count, 'via': via}
            log = []
            dev = [Message('note_on', channel=9, note=i % 128, velocity=(i // 128) % 128) for i in range(count)]
            member = RecordingPort('m', log=log, dev=dev, batch=count, close_at=count)
            other = EchoPort('o')
            mp = MultiPort([other, member])
            hook.arm({}, None, None)
            got = []
            try:
                if via == 'iter_pending':
                    got = list(mp.iter_pending())
                    got += list(mp.iter_pending())
                elif via == 'poll':
                    while True:
                        m = mp.poll()
                        if m is None:
                            break
                        got.append(m)
                elif via == 'receive':
                    for _ in range(count):
                        got.append(mp.receive())
                else:
                    got = list(multi_receive([other, member], block=False))
                    got += list(multi_receive([other, member], block=False))
                ctx.check('results == lifecycle model', got == dev, 'multi:selfclosing-member-lost', case,
                          {'delivered': len(got), 'taken_in': count})
                ctx.check('non-blocking call never waits' if via != 'receive' else 'blocking call bounded sleeps',
                          hook.n <= (2 if via == 'receive' else 0), 'multi:selfclosing-member-slept', case, hook.n)
            except HarnessAbort as exc:
                ctx.check('blocking call bounded sleeps', False, 'multi:selfclosing-member-blocked', case,
                          {'delivered': len(got), 'why': str(exc)})
            except Exception as exc:
                ctx.fail('results == lifecycle model', f'multi:selfclosing:{type(exc).__name__}', case, repr(exc))
            member.closed = True
            n += 1
    return n


def ioport_selfclosing_input_cases(ctx, hook):
    """An IOPort wrapped around an input device that hangs up by itself (the wrapper stays open - how it reports the end
    is not judged): what the device had taken in is handed out through the wrapper, and the blocking call that follows
    *terminates* - returns or raises within a bounded number of pauses - instead of waiting for ever on a device that
    can never deliver again."""
    n = 0
    for ndev, batch, close_at in ((0, 1, 0), (1, 1, 1), (3, 1, 1), (3, 3, 3), (3, 1, 3), (2, 2, 0)):
        for via in ('receive', 'iterate', 'poll-then-receive'):
            case = {'kind': 'ioport-selfclosing-input', 'ndev': ndev, 'batch': batch, 'close_at': close_at, 'via': via}
            log = []
            dev = [dev_msg(i) for i in range(ndev)]
            pin = RecordingPort('i', log=log, dev=list(dev), batch=batch, close_at=close_at, label='in')
            autoreset = (ndev + len(via)) % 2 == 0
            pout = RecordingPort('o', log=log, label='out', autoreset=autoreset)
            port = IOPort(pin, pout)
            case['autoreset'] = autoreset
            hook.arm({}, None, None, limit=40)
            got, ended = [], None
            try:
                if via == 'iterate':
                    for m in BaseIterate(port):
                        got.append(m)
                    ended = 'iteration ended'
                else:
                    if via == 'poll-then-receive':
                        m = port.poll()
                        got.append(m) if m is not None else None
                    for _ in range(ndev + 2):
                        m = port.receive()
                        got.append(m)
                    ended = 'receive returned'
            except HarnessAbort as exc:
                ended = None
                ctx.check('blocking call bounded sleeps', False, 'ioport:selfclosing-input-blocked', case,
                          {'delivered': [tag_of(m) for m in got], 'why': str(exc)})
            except (ValueError, OSError) as exc:
                ended = f'raised {type(exc).__name__}'
            except Exception as exc:
                ended = f'raised {type(exc).__name__}'
                ctx.fail('results == lifecycle model', f'ioport:selfclosing-input:{type(exc).__name__}', case, repr(exc))
            if ended is not None:
                taken = min(ndev, max(close_at, batch) if ndev else 0)
                # every message the device had taken in before it hung up was handed out first (never more than it held)
                tags = [tag_of(m) for m in got]
                ctx.check('results == lifecycle model', tags == [('d', i) for i in range(len(tags))] and len(tags) >= min(taken, ndev)
                          and len(tags) <= ndev, 'ioport:selfclosing-input-delivery', case, {'delivered': tags, 'ended': ended})
                ctx.count('blocking call bounded sleeps')
            # closing the wrapper releases what is still open - the output device, once, after its reset burst - whatever
            # the input device did by itself; afterwards the wrapper refuses to send
            try:
                if via == 'iterate':
                    with port:
                        pass
                else:
                    port.close()
                port.close()
                releases = sum(1 for e in log if e[0] == 'out' and e[1] == '_close')
                resets = [e for e in log if e[0] == 'out' and e[1] == '_send' and e[2].type == 'control_change']
                try:
                    port.send(out_msg(1))
                    after = 'accepted'
                except ValueError:
                    after = 'ValueError'
                ctx.check('device released exactly once', releases == 1 and pout.closed and port.closed, 'ioport:output-not-released', case,
                          {'releases': releases, 'output.closed': pout.closed, 'wrapper.closed': port.closed})
                ctx.check('reset messages once, before release', len(resets) == (32 if autoreset else 0) and all(not e[3] for e in resets),
                          'ioport:reset-burst', case, len(resets))
                ctx.check('results == lifecycle model', after == 'ValueError', 'ioport:send-after-close', case, after)
            except Exception as exc:
                ctx.fail('device released exactly once', f'ioport:close:{type(exc).__name__}', case, repr(exc))
            for p_ in (port, pin, pout):
                try:
                    p_.close()
                except Exception:
                    pass
            n += 1
    return n


def small_message_cases(ctx, hook):
    """The smallest messages there are - an empty sysex (F0 F7), a clock, a note with all-zero fields - come through every
    kind of port like any other: taken in by the device, handed out by receive / poll / iteration, one by one, then the
    blocking call still terminates when the device hangs up."""
    n = 0
    smalls = [Message('sysex'), Message('clock'), Message('note_off', note=0, velocity=0), Message('sysex', data=()), Message('tune_request'),
              Message('songpos', pos=0), Message('sysex', data=(0,))]
    for ptype in ('rec', 'ioport', 'multi', 'echo'):
        for batch in (1, len(smalls)):
            for via in ('receive', 'poll', 'iterate', 'iter_pending'):
                case = {'kind': 'small-messages', 'ptype': ptype, 'batch': batch, 'via': via}
                log = []
                dev = [m.copy() for m in smalls]
                if ptype == 'echo':
                    port = EchoPort('e')
                    for m in dev:
                        port.send(m)
                    inner = []
                else:
                    pin = RecordingPort('i', log=log, dev=list(dev), batch=batch, close_at=len(dev), label='in')
                    inner = [pin]
                    port = pin if ptype == 'rec' else IOPort(pin, RecordingPort('o', log=log, label='out')) if ptype == 'ioport' \
                        else MultiPort([pin])
                hook.arm({}, None, None, limit=60)
                got = []
                try:
                    if via == 'receive':
                        for _ in dev:
                            got.append(port.receive())
                    elif via == 'poll':
                        for _ in range(len(dev) + 3):
                            m = port.poll()
                            if m is not None:
                                got.append(m)
                    elif via == 'iterate' and ptype != 'echo':
                        try:
                            for m in BaseIterate(port):
                                got.append(m)
                                if len(got) == len(dev) and ptype in ('ioport', 'multi'):
                                    break          # (these wrappers stay open: how their iteration ends is judged elsewhere)
                        except (ValueError, OSError):
                            pass
                    else:
                        for _ in range(len(dev) + 1):
                            got.extend(port.iter_pending())
                    ctx.check('results == lifecycle model', got == smalls, 'small-messages:lost-or-changed', case,
                              lambda: {'got': [m.hex() for m in got], 'want': [m.hex() for m in smalls]})
                except HarnessAbort as exc:
                    ctx.check('blocking call bounded sleeps', False, 'small-messages:blocked', case,
                              {'delivered': [m.hex() for m in got], 'why': str(exc)})
                except Exception as exc:
                    ctx.fail('results == lifecycle model', f'small-messages:{type(exc).__name__}', case, repr(exc))
                for p_ in [port] + inner:
                    try:
                        p_.close()
                    except Exception:
                        pass
                n += 1
    return n


def multiport_failing_member(ctx, hook):
    """One member's device read fails (OSError) during a polling round.  Whatever the round had
    already taken out of the healthy members has been taken in by the MultiPort: it must still be
    handed out by later calls, before or after close(), and nothing may be delivered twice."""
    n = 0
    saved = random.getstate()
    try:
        for seed in range(10):
            for k in (1, 3):
                for fails in ((1, 1), (1, 3), (2, 10 ** 6)):
                    for via in ('poll', 'iter_pending', 'receive', 'close-then-iter'):
                        for order in (0, 1):
                            case = {'kind': 'multi-failing-member', 'seed': seed, 'messages': k, 'recv_fail': list(fails),
                                    'via': via, 'order': order}
                            random.seed(seed)
                            good = EchoPort('good')
                            sent = [dev_msg(i) for i in range(k)]
                            for m in sent:
                                good.send(m)
                            bad = RecordingPort('bad', log=[], recv_fail=fails, label='bad')
                            mp = MultiPort([good, bad] if order == 0 else [bad, good])
                            got, errors = [], 0
                            hook.arm({}, None, None)
                            try:
                                for attempt in range(60):
                                    if len(got) >= k and attempt > k + 3:
                                        break
                                    try:
                                        if via == 'poll':
                                            m = mp.poll()
                                            if m is not None:
                                                got.append(m)
                                        elif via == 'iter_pending':
                                            for m in mp.iter_pending():
                                                got.append(m)
                                        elif via == 'receive':
                                            if len(got) < k:
                                                got.append(mp.receive())
                                        else:
                                            if errors and not mp.closed:
                                                mp.close()
                                            if mp.closed:
                                                got.extend(mp)
                                                break
                                            m = mp.poll()
                                            if m is not None:
                                                got.append(m)
                                    except OSError:
                                        errors += 1
                                left = list(good._messages)
                                if via == 'close-then-iter':
                                    # what the closed MultiPort never took in is still in the member
                                    ok = got + left == sent
                                else:
                                    ok = got == sent and not left
                                ctx.check('results == lifecycle model', ok, f'multi:failing-member-lost:{via}', case,
                                          lambda: {'delivered': [tag_of(x) for x in got], 'left_in_member': len(left),
                                                   'sent': k, 'read_errors': errors})
                            except HarnessAbort as exc:
                                ctx.check('blocking call bounded sleeps', False, 'multi:failing-member-blocked', case, str(exc))
                            except Exception as exc:
                                ctx.fail('results == lifecycle model', f'multi:failing-member:{type(exc).__name__}', case,
                                         f'{type(exc).__name__}: {exc}')
                            bad.closed = True
                            n += 1
    finally:
        random.setstate(saved)
    return n


def multiport_cases(ctx, hook):
    n = 0
    for nmem in (0, 1, 2, 3):
        for closed_mask in range(2 ** nmem):
            for who in range(max(nmem, 1)):
                for arrive_at in (0, 1, 2):
                    if nmem == 0 and arrive_at:
                        continue
                    case = {'kind': 'multi', 'members': nmem, 'closed_mask': closed_mask, 'who': who,
                            'arrive_at_sleep': arrive_at}
                    members = [EchoPort(f'm{i}') for i in range(nmem)]
                    for i, m in enumerate(members):
                        if closed_mask >> i & 1:
                            m.close()
                    mp = MultiPort(members)
                    open_members = [m for m in members if not m.closed]
                    try:
                        # non-blocking on an empty multiport
                        hook.arm({}, None, None)
                        r = mp.poll()
                        ctx.check('non-blocking call never waits', r is None and hook.n == 0, 'multi:poll-waited',
                                  case, {'result': repr(r), 'sleeps': hook.n})
                        ctx.check('non-blocking call never waits', list(mp.iter_pending()) == [] and hook.n == 0,
                                  'multi:iter_pending-waited', case, hook.n)
                        # send fans out to the open members only
                        mp.send(out_msg(1))
                        got = [[tag_of(x) for x in m._messages] for m in members]
                        want = [[('o', 1)] if not m.closed else [] for m in members]
                        ctx.check('results == lifecycle model', got == want, 'multi:fanout', case, got)
                        for m in open_members:
                            m._messages.clear()
                        if open_members:
                            target = open_members[who % len(open_members)]
                            msg = dev_msg(7)
                            if arrive_at == 0:
                                target.send(msg)
                                hook.arm({}, None, None)
                            else:
                                hook.arm({arrive_at: 'arrive'}, lambda: target.send(msg), None)
                            try:
                                r = mp.receive()
                                ctx.check('results == lifecycle model', r == msg, 'multi:receive-result', case, repr(r))
                            except HarnessAbort as exc:
                                ctx.check('blocking call bounded sleeps', False, 'multi:receive-never-returns', case,
                                          str(exc))
                            ctx.check('blocking call bounded sleeps', hook.n <= arrive_at + 2,
                                      'multi:receive-too-many-sleeps', case, {'sleeps': hook.n, 'arrival': arrive_at})
                            # two messages on different members: both come out, then empty
                            for i, m in enumerate(open_members):
                                m.send(dev_msg(20 + i))
                            hook.arm({}, None, None)
                            outs = sorted(tag_of(x)[1] for x in mp.iter_pending())
                            ctx.check('results == lifecycle model', outs == [20 + i for i in range(len(open_members))],
                                      'multi:iter_pending-contents', case, outs)
                            ctx.check('non-blocking call never waits', hook.n == 0, 'multi:iter_pending-waited2', case, hook.n)
                        # close is idempotent, afterwards send raises and receive stops
                        mp.close()
                        mp.close()
                        try:
                            mp.send(out_msg(2))
                            ctx.check('results == lifecycle model', False, 'multi:send-after-close', case, None)
                        except ValueError:
                            ctx.count('results == lifecycle model')
                        hook.arm({}, None, None)
                        ctx.check('results == lifecycle model', mp.poll() is None and list(mp) == [], 'multi:closed-drain',
                                  case, None)
                    except HarnessAbort as exc:
                        ctx.check('blocking call bounded sleeps', False, 'multi:blocked', case, str(exc))
                    except Exception as exc:
                        ctx.fail('results == lifecycle model', f'multi:{type(exc).__name__}', case,
                                 f'{type(exc).__name__}: {exc}')
                    n += 1
    return n


# ------------------------------------------------------- overlapping calls
class CloseProgram(c10.Program):
    synchronous = False

    def __init__(self, variant):
        self.variant = variant
        self.name = f'close-{variant}'

    def build(self, sc, rec):
        self.log = []
        p = RecordingPort('r', log=self.log, autoreset=True)
        # (the port makes its own lock through mido.ports.threading, which is the scheduler-aware stand-in while a
        # schedule runs - whenever it makes it; the harness does not touch port._lock)
        lk = vars(p).get('_lock')
        if lk is not None and not isinstance(lk, sched.SchedLock):
            p._lock = sched.SchedLock(sc, lk, 'r')
        self.port = p
        self.ports = {}
        self.wires = []
        self.results = []

        def closer():
            try:
                p.close()
            except sched.SchedAbort:
                raise
            except Exception as exc:
                self.results.append(('close-raised', repr(exc)))

        def sender():
            for i in (1, 2):
                try:
                    p.send(out_msg(i))
                    self.results.append(('sent', i))
                except sched.SchedAbort:
                    raise
                except ValueError:
                    self.results.append(('ValueError', i))
                except Exception as exc:
                    self.results.append(('send-raised', repr(exc)))

        def with_user():
            try:
                with p:
                    p.send(out_msg(5))
            except sched.SchedAbort:
                raise
            except ValueError:
                self.results.append(('ValueError', 5))
            except Exception as exc:
                self.results.append(('with-raised', repr(exc)))

        # a consumer that takes its time between two items of iter_pending() while another thread uses
        # the port: the port's lock must not stay taken while the consumer's own code runs
        self.in_consumer = False
        self.blocks = []
        self.items = []
        self.polled = []
        sc.on_block = lambda tid, owner, name: self.blocks.append((tid, owner, self.in_consumer))
        if self.variant.startswith('iterp'):
            p.dev.extend(dev_msg(i) for i in range(3))
            p.batch = 3

        def consumer():
            try:
                for m in p.iter_pending():
                    self.items.append(m)
                    self.in_consumer = True
                    for _ in range(3):
                        sc.yield_point(0, None, None, True)
                    self.in_consumer = False
            except sched.SchedAbort:
                raise
            except Exception as exc:
                self.results.append(('iter-raised', repr(exc)))

        def poller():
            for _ in range(2):
                try:
                    m = p.poll()
                    if m is not None:
                        self.polled.append(m)
                except sched.SchedAbort:
                    raise
                except Exception as exc:
                    self.results.append(('poll-raised', repr(exc)))

        return {'close-close': [closer, closer], 'close-close-close': [closer, closer, closer],
                'close-send': [closer, sender], 'with-close': [with_user, closer],
                'iterp-poll': [consumer, poller], 'iterp-send': [consumer, sender], 'iterp-close': [consumer, closer]}[self.variant]


def check_close_history(ctx, sc, prog, case):
    if sc.aborted or sc.errors:
        if sc.aborted and (sc.aborted.startswith('deadlock') or sc.aborted == 'step limit'):
            ctx.check('concurrent close releases once', False, f'{prog.name}:{sc.aborted.split(":")[0]}', case, sc.aborted)
        else:
            ctx.undecided(f'{prog.name}: scheduler problem {sc.aborted or sc.errors[:1]}')
        return
    log = prog.log
    nclose = sum(1 for e in log if e[1] == '_close')
    resets = [tag_of(e[2]) for e in log if e[1] == '_send' and e[2].type == 'control_change']
    bad = [r for r in prog.results if r[0].endswith('raised')]
    if prog.variant.startswith('iterp'):
        held = [b for b in prog.blocks if b[2]]
        ctx.check('non-blocking call never waits', not held, f'{prog.name}:lock-held-while-the-consumer-runs', case,
                  lambda: {'waits (waiting thread, lock owner, owner in its own code)': held[:3]})
        # every message exactly once, whoever got it
        while True:
            m = prog.port.poll() if not prog.port.closed else None
            if m is None:
                break
            prog.polled.append(m)
        tags = sorted(tag_of(m)[1] for m in prog.items + prog.polled)
        if not prog.port.closed or prog.variant != 'iterp-close':
            ctx.check('results == lifecycle model', tags == [0, 1, 2], f'{prog.name}:messages', case, tags)
        ctx.check('no call raises', not bad, f'{prog.name}:raised', case, bad[:2])
        if prog.variant != 'iterp-close':
            prog.port.closed = True
            return
    ctx.check('concurrent close releases once', nclose == 1 and prog.port.closed, f'{prog.name}:release-count', case,
              {'releases': nclose})
    ctx.check('reset messages once, before release', resets == [('reset',) + r for r in RESETS],
              f'{prog.name}:resets', case, lambda: {'n': len(resets)})
    ctx.check('no call raises', not bad, f'{prog.name}:raised', case, bad[:2])
    prog.port.closed = True


def run_close_schedule(prog, strategy):
    sc = sched.Scheduler(c10.codes(), strategy, max_steps=6000, candidate_files=c10.CANDIDATE_FILES)
    orig = mido.ports.sleep
    orig_threading = mido.ports.threading
    mido.ports.sleep = sc.sleep
    mido.ports.threading = c10.LockShim(sc, orig_threading)
    try:
        sc.run(prog.build(sc, None), wall_timeout=30.0)
    finally:
        mido.ports.sleep = orig
        mido.ports.threading = orig_threading
    return sc


def concurrency_part(ctx, tier, shard_filter):
    n = 0
    distinct = set()
    for vi, variant in enumerate(('close-close', 'close-send', 'with-close', 'close-close-close', 'iterp-poll', 'iterp-send', 'iterp-close')):
        base = sched.Preempt(())
        prog = CloseProgram(variant)
        sc = run_close_schedule(prog, base)
        check_close_history(ctx, sc, prog, {'kind': 'sched', 'variant': variant, 'points': []})
        first = [(s, t) for s, others in base.alts for t in others]
        n += 1
        for j, pt in enumerate(first):
            if not shard_filter(j):
                continue
            st = sched.Preempt((pt,))
            prog = CloseProgram(variant)
            sc = run_close_schedule(prog, st)
            check_close_history(ctx, sc, prog, {'kind': 'sched', 'variant': variant, 'points': [list(pt)]})
            distinct.add(hash(sc.trace_key()) ^ vi)
            n += 1
            seconds = [(s, t) for s, others in st.alts for t in others]
            if tier == 'quick':
                seconds = seconds[::max(1, len(seconds) // 4)]
            for pt2 in seconds:
                prog = CloseProgram(variant)
                sc = run_close_schedule(prog, sched.Preempt((pt, pt2)))
                check_close_history(ctx, sc, prog, {'kind': 'sched', 'variant': variant,
                                                    'points': [list(pt), list(pt2)]})
                distinct.add(hash(sc.trace_key()) ^ vi)
                n += 1
    for h in distinct:
        ctx.nontrivial(h)
    ctx.extra('close_schedules', n)
    return n


def configs():
    for ptype in ('rec', 'ioport'):
        for ndev, batch in ((0, 1), (3, 1), (3, 3)):
            close_ats = (None, 0) if ndev == 0 else (None, 0, 1, 2, 3)
            if ptype == 'ioport':
                # the wrapper stays open when only its input device closes itself; the statement
                # speaks about the port that closed, so that combination is not judged
                close_ats = (None,)
            for close_at in close_ats:
                for autoreset, send_fail in ((False, None), (True, None), (True, 5)):
                    yield (ptype, ndev, batch, close_at, autoreset, send_fail)
    # a port type that overrides send() instead of _send(), as the rtmidi backend's Output does
    for close_at in (None, 2):
        for autoreset, send_fail in ((False, None), (True, None), (True, 5)):
            yield ('direct', 3, 1, close_at, autoreset, send_fail)


def run(ctx):
    L = 4 if ctx.tier == 'quick' else 5
    hook = SleepHook()
    orig = mido.ports.sleep
    orig_time = mido.ports.time
    mido.ports.sleep = hook
    mido.ports.time = TimeShim(hook, orig_time)
    n = 0
    try:
        cfgs = list(configs())
        j = -1
        for ln in range(1, L + 1):
            for seq in itertools.product(OPS, repeat=ln):
                # a sequence is interesting only if something can be received, sent or closed
                for cfg in cfgs:
                    j += 1
                    if j % ctx.nshards != ctx.shard:
                        continue
                    # thin the grid for long sequences: each (sequence, config) pair is still distinct
                    if ln >= 4 and (hash((seq, cfg)) % (4 if ctx.tier == 'quick' else 3)) != 0:
                        continue
                    if run_sequence(ctx, seq, cfg, hook):
                        ctx.nontrivial(None)
                    n += 1
                    if n % 20011 == 1:
                        ctx.put_sample({'ops': list(seq), 'cfg': dict(zip(('port', 'device_msgs', 'batch', 'device_closes_at',
                                                                           'autoreset', 'send_fail_after'), cfg))})
        k = 0
        for ln in range(1, L + 1):
            for si, seq in enumerate(itertools.product(OPS, repeat=ln)):
                if si % ctx.nshards == ctx.shard:
                    run_echo_sequence(ctx, seq, hook)
                    k += 1
        ctx.nontrivial(None, k)
        ctx.extra('echo_sequences', k)
        n += k
        if ctx.shard == 0:
            k = multiport_cases(ctx, hook)
            ctx.nontrivial(None, k)
            ctx.extra('multiport_cases', k)
            n += k
            k = helper_cases(ctx, hook)
            ctx.nontrivial(None, k)
            n += k
            k = multiport_selfclosing_member(ctx, hook)
            ctx.nontrivial(None, k)
            n += k
            k = multiport_failing_member(ctx, hook)
            ctx.nontrivial(None, k)
            ctx.extra('multiport_failing_member_cases', k)
            n += k
        if ctx.shard == 2 % ctx.nshards:
            k = long_idle_cases(ctx, hook)
            ctx.nontrivial(None, k)
            n += k
        if ctx.shard == 7 % ctx.nshards:
            k = socket_partial_tail_cases(ctx, hook)
            ctx.nontrivial(None, k)
            ctx.extra('socket_partial_tail_cases', k)
            n += k
        if ctx.shard == 8 % ctx.nshards:
            k = backlog_cases(ctx, hook)
            ctx.nontrivial(None, k)
            ctx.extra('backlog_cases', k)
            n += k
        if ctx.shard == 6 % ctx.nshards:
            k = bystander_cases(ctx, hook)
            ctx.nontrivial(None, k)
            ctx.extra('bystander_cases', k)
            n += k
        if ctx.shard == 5 % ctx.nshards:
            k = socket_two_thread_cases(ctx, orig)
            ctx.nontrivial(None, k)
            ctx.extra('socket_two_thread_cases', k)
            n += k
        if ctx.shard == 4 % ctx.nshards:
            k = wild_clock_cases(ctx, orig)
            ctx.nontrivial(None, k)
            ctx.extra('wild_clock_cases', k)
            n += k
        if ctx.shard == 1 % ctx.nshards:
            k = socket_lifecycle_cases(ctx, hook)
            ctx.nontrivial(None, k)
            ctx.extra('socket_lifecycle_cases', k)
            n += k
            k = echo_blocking_cases(ctx, hook)
            ctx.nontrivial(None, k)
            ctx.extra('echo_blocking_cases', k)
            n += k
            k = small_message_cases(ctx, hook)
            ctx.nontrivial(None, k)
            ctx.extra('small_message_cases', k)
            n += k
            k = ioport_selfclosing_input_cases(ctx, hook)
            ctx.nontrivial(None, k)
            ctx.extra('ioport_selfclosing_input_cases', k)
            n += k
            k = selfclosing_on_send_cases(ctx, hook)
            ctx.nontrivial(None, k)
            ctx.extra('selfclosing_on_send_cases', k)
            n += k
        if ctx.shard == 6 % ctx.nshards:
            k = silent_member_cases(ctx, hook)
            ctx.nontrivial(None, k)
            n += k
        if ctx.shard == 3 % ctx.nshards:
            k = portserver_close_cases(ctx, hook)
            ctx.nontrivial(None, k)
            ctx.extra('portserver_close_cases', k)
            n += k
    finally:
        mido.ports.sleep = orig
        mido.ports.time = orig_time
    n += concurrency_part(ctx, ctx.tier, lambda j: j % ctx.nshards == ctx.shard)
    sched.uninstall()
    ctx.count('cases', n)


def replay(ctx, case):
    hook = SleepHook()
    orig = mido.ports.sleep
    mido.ports.sleep = hook
    try:
        k = case['kind']
        if k == 'seq':
            cfg = tuple(case['cfg'])
            run_sequence(ctx, tuple(case['ops']), cfg, hook)
        elif k == 'echo-seq':
            run_echo_sequence(ctx, tuple(case['ops']), hook)
        elif k == 'multi':
            multiport_cases(ctx, hook)
        elif k == 'helpers':
            helper_cases(ctx, hook)
        elif k == 'long-idle':
            mido.ports.time = TimeShim(hook, mido.ports.time)
            long_idle_cases(ctx, hook)
        elif k == 'bystander':
            bystander_cases(ctx, hook)
        elif k == 'backlog':
            backlog_cases(ctx, hook)
        elif k == 'socket-partial-tail':
            socket_partial_tail_cases(ctx, hook)
        elif k == 'socket-lifecycle':
            socket_lifecycle_cases(ctx, hook)
        elif k == 'multi-selfclose':
            multiport_selfclosing_member(ctx, hook)
        elif k == 'small-messages':
            small_message_cases(ctx, hook)
        elif k == 'ioport-selfclosing-input':
            ioport_selfclosing_input_cases(ctx, hook)
        elif k == 'selfclosing-on-send':
            selfclosing_on_send_cases(ctx, hook)
        elif k == 'echo-blocking':
            echo_blocking_cases(ctx, hook)
        elif k == 'portserver-close':
            portserver_close_cases(ctx, hook)
        elif k == 'silent-members':
            silent_member_cases(ctx, hook)
        elif k == 'wild-clock':
            wild_clock_cases(ctx, orig)
        elif k == 'socket-two-threads':
            socket_two_thread_cases(ctx, orig)
        elif k == 'multi-failing-member':
            multiport_failing_member(ctx, hook)
    finally:
        mido.ports.sleep = orig
    if case['kind'] == 'sched':
        prog = CloseProgram(case['variant'])
        sc = run_close_schedule(prog, sched.Preempt(tuple(tuple(p) for p in case['points'])))
        check_close_history(ctx, sc, prog, case)
        sched.uninstall()
