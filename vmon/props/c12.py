"""C12 - merge_tracks keeps every event at its absolute time.

Boundary monitor on merge_tracks / MidiFile.merged_track with an independent
absolute-time merge model and snapshots of the inputs; merge / edit in place /
merge again histories on the same track objects.
"""
import random

import mido
from mido import Message, MetaMessage, MidiFile, MidiTrack, UnknownMetaMessage, merge_tracks

from .. import genfile
from ..ref import smf

ID = 'C12'
ANCHORS = ['mido.midifiles.tracks']
LEVEL = 'exploration'
RULE = ('seeded track lists: 0-6 tracks x 0-40 messages of all classes (channel, system, '
        'sysex, known and unknown meta), deltas from {0 (ties), 1, 127, 128, 10**6} or exact '
        'dyadic floats, end_of_track missing / last / repeated / mid-track with non-zero '
        'deltas, plain lists and MidiTracks, skip_checks on and off (with out-of-range '
        'messages when on), through merge_tracks and MidiFile.merged_track; then up to 3 '
        'rounds of in-place edits (delta change, replacement, swap, pop+append) and re-merge. '
        'Distinct by seed; non-trivial when at least two tracks hold a non-end_of_track message '
        'or an end_of_track with non-zero delta is present')
ASSUMPTIONS = [
    'delta times are non-negative; float deltas are dyadic so that sums are exact',
    'whether result messages are copies or the input objects is not judged (inputs must be unmodified)',
]
DECIDING = ['messages and order == model', 'absolute times preserved', 'one end_of_track, last',
            'total duration == longest track', 'inputs unmodified', 're-merge after edit == model']
TIMEOUT = {'quick': 300, 'thorough': 1800}


def nshards(tier):
    return 16


def model_merge(tracks):
    items = []
    durations = [0]
    for ti, tr in enumerate(tracks):
        now = 0
        for mi, m in enumerate(tr):
            now = now + m.time
            if m.type != 'end_of_track':
                items.append((now, ti, mi, m))
        durations.append(now)
    items.sort(key=lambda x: (x[0], x[1], x[2]))
    return items, max(durations)


def snapshot(tracks):
    return [(id(tr), len(tr), [(id(m), type(m), dict(vars(m))) for m in tr]) for tr in tracks]


def same_snapshot(tracks, snap):
    if len(tracks) != len(snap):
        return False
    for tr, (i, n, ms) in zip(tracks, snap):
        if id(tr) != i or len(tr) != n:
            return False
        for m, (mid_, cls, v) in zip(tr, ms):
            if id(m) != mid_ or type(m) is not cls or vars(m) != v:
                return False
            for k in v:
                if type(vars(m)[k]) is not type(v[k]):
                    return False
    return True


def rand_tracks(rng, skip_checks, allow_huge=True):
    ntr = rng.choice((0, 1, 2, 2, 3, 4, 6))
    floats = rng.random() < 0.2
    # long pieces: every delta fits a file (< 2**28) but positions grow beyond 2**28, 2**31, 2**32; and
    # abstract tracks with astronomically large integer deltas
    huge = None if floats or not allow_huge or rng.random() > 0.15 else rng.choice(((0, 1, 2 ** 27, 200000000, 2 ** 28 - 1),
                                                                 (0, 2 ** 28 - 1, 2 ** 31, 2 ** 32 + 1, 2 ** 40, 10 ** 18)))
    # exact rational deltas (time may be any real number), and float deltas that differ only far behind the point
    fracs = None
    if not floats and not huge and allow_huge and rng.random() < 0.12:
        from fractions import Fraction
        fracs = rng.choice(((0, Fraction(1, 3), Fraction(2, 7), Fraction(1, 10 ** 12), 1),
                            (0, 2.0 ** -40, 2.0 ** -30, 1.0, 2.0 ** -20)))
    tracks = []
    for _ in range(ntr):
        eot = rng.choice(('end', 'absent', 'repeated', 'mid', 'end'))
        evs = genfile.rand_track_events(rng, nmax=rng.choice((0, 3, 12, 40)), eot=eot, small=True)
        msgs = []
        for e in evs:
            m = genfile.msg_of_event(e)
            d = rng.choice((0, 0, 0, 1, 1, 127, 128, 10 ** 6))
            if floats:
                d = rng.choice((0, 0.5, 0.25, 1.0, 3.75, 1024.125))
            if fracs:
                d = rng.choice(fracs)
            if huge:
                d = rng.choice(huge)
            if m.type == 'end_of_track':
                d = rng.choice((0, 0, 5, 1000)) if not floats else rng.choice((0, 0.5, 8.0))
                if fracs:
                    d = rng.choice(fracs)
            m.time = d
            msgs.append(m)
        if skip_checks and rng.random() < 0.3 and msgs:
            msgs.insert(rng.randrange(len(msgs)),
                        Message('note_on', note=300, velocity=-1, skip_checks=True, time=rng.choice((0, 2))))
        if rng.random() < 0.25:
            # a track recorded straight from a port holds whatever came in: clock ticks, start/stop, active sensing, a reset -
            # messages like any other to a merge (what a file can store is save()'s business)
            for _ in range(rng.randrange(1, 6)):
                rt = Message(rng.choice(('clock', 'start', 'continue', 'stop', 'active_sensing', 'reset', 'tune_request')),
                             time=rng.choice((0, 0, 1, 24)) if not floats else rng.choice((0, 0.5)))
                msgs.insert(rng.randrange(len(msgs) + 1), rt)
        if msgs and rng.random() < 0.15:
            # the same message object at several positions (a repeated bar, track * 2)
            msgs = msgs + [msgs[rng.randrange(len(msgs))] for _ in range(rng.randrange(1, 4))]
            if rng.random() < 0.3:
                msgs = msgs * 2
        if rng.random() < 0.2:
            # meta events whose values are zero or empty where the default is not
            t_, vals = rng.choice((('set_tempo', {'tempo': 0}), ('time_signature', {'numerator': 0, 'denominator': 1, 'clocks_per_click': 0,
                                                                                    'notated_32nd_notes_per_beat': 0}),
                                   ('sequencer_specific', {'data': ()}), ('text', {'text': ''}), ('key_signature', {'key': 'A'}),
                                   ('smpte_offset', {'frame_rate': 24, 'hours': 0, 'minutes': 0, 'seconds': 0, 'frames': 0, 'sub_frames': 0})))
            zero = MetaMessage(t_)
            for k_, v_ in vals.items():             # assigned after construction (as a file reader or an editor does)
                setattr(zero, k_, v_)
            zero.time = rng.choice((0, 1, 50))
            msgs.insert(rng.randrange(len(msgs) + 1), zero)
        if rng.random() < 0.15:
            # text that only exists outside latin1 (a file loaded with another charset, lyrics typed in by the user)
            msgs.insert(rng.randrange(len(msgs) + 1),
                        MetaMessage(rng.choice(('lyrics', 'text', 'marker')), skip_checks=True, time=rng.choice((0, 1, 96)),
                                    text=rng.choice(('Ωmega', '歌', 'Привет', 'ab\u20ac')))
                        if rng.random() < 0.7 else
                        MetaMessage('track_name', name=rng.choice(('Ωmega', '歌')), skip_checks=True, time=0))
        if rng.random() < 0.1:
            from mido.frozen import freeze_message
            msgs = [freeze_message(m) if rng.random() < 0.6 else m for m in msgs]
            if rng.random() < 0.6:
                # frozen messages are there to be hashed: used as keys / set members before the merge
                seen = set()
                for m in msgs:
                    try:
                        seen.add(m)
                    except TypeError:
                        pass
        tracks.append(MidiTrack(msgs) if rng.random() < 0.8 else list(msgs))
    if tracks and rng.random() < 0.2:
        # a doubled part: the same track object twice, or an equal copy of it
        i = rng.randrange(len(tracks))
        twin = tracks[i] if rng.random() < 0.5 else type(tracks[i])(m.copy() for m in tracks[i])
        tracks.insert(rng.randrange(len(tracks) + 1), twin)
    return tracks


def judge_merge(ctx, tracks, skip_checks, case, via='merge_tracks', clause='messages and order == model'):
    snap = snapshot(tracks)
    items, total = model_merge(tracks)
    try:
        if via == 'merge_tracks':
            # the three ways to say it: by keyword, by position, (for the default) not at all
            style = len(tracks) % 3
            if style == 0:
                out = merge_tracks(tracks, skip_checks=skip_checks)
            elif style == 1 or skip_checks:
                out = merge_tracks(tracks, skip_checks)
            else:
                out = merge_tracks(tracks)
        else:
            mid = MidiFile(type=1)
            mid.tracks = tracks
            out = mid.merged_track
    except ValueError as exc:
        has_invalid = any(getattr(m, 'note', 0) == 300 for tr in tracks for m in tr)
        ctx.check('no exception', has_invalid and not skip_checks, f'raised:{via}', case,
                  f'{type(exc).__name__}: {exc}')
        ctx.check('inputs unmodified', same_snapshot(tracks, snap), 'inputs-modified-on-error', case, None)
        return None
    except Exception as exc:
        ctx.check('no exception', False, f'raised:{type(exc).__name__}', case, f'{type(exc).__name__}: {exc}')
        return None
    ctx.check('inputs unmodified', same_snapshot(tracks, snap), f'inputs-modified:{via}', case, None)
    ctx.check('result is a MidiTrack', isinstance(out, MidiTrack), 'result-class', case, type(out).__name__)
    body = [m for m in out if m.type != 'end_of_track']
    n_eot = len(out) - len(body)
    ctx.check('one end_of_track, last', n_eot == 1 and out[-1].type == 'end_of_track', 'end_of_track',
              case, lambda: {'n_eot': n_eot, 'last': repr(out[-1]) if out else None})
    # contents and order
    ok = len(body) == len(items)
    where = None
    if ok:
        for i, (g, (ab, ti, mi, w)) in enumerate(zip(body, items)):
            vg = {k: v for k, v in vars(g).items() if k != 'time'}
            vw = {k: v for k, v in vars(w).items() if k != 'time'}
            if type(g) is not type(w) or vg != vw:
                ok = False
                where = {'index': i, 'got': repr(g)[:120], 'want_from': [ti, mi], 'want': repr(w)[:120]}
                break
    else:
        where = {'len_got': len(body), 'len_want': len(items)}
    ctx.check(clause, ok, f'order-or-content:{via}', case, where)
    # absolute times
    now = 0
    abs_got = []
    for m in out:
        now = now + m.time
        if m.type != 'end_of_track':
            abs_got.append(now)
    ctx.check('absolute times preserved' if clause.startswith('messages') else clause,
              abs_got == [it[0] for it in items], f'abs-times:{via}', case,
              lambda: {'got': abs_got[:12], 'want': [it[0] for it in items][:12]})
    ctx.check('total duration == longest track', now == total, f'duration:{via}', case,
              lambda: {'got': now, 'want': total})
    neg = [m.time for m in out if m.time < 0]
    ctx.check('deltas non-negative', not neg, 'negative-delta', case, neg[:3])
    return out


def edit(rng, tracks):
    """Length-preserving and length-changing edits in place."""
    cand = [tr for tr in tracks if len(tr)]
    if not cand:
        if tracks:
            tracks[0].append(Message('note_on', time=3))
        return 'append-to-empty'
    tr = rng.choice(cand)
    r = rng.random()
    i = rng.randrange(len(tr))
    if r < 0.35:
        try:
            tr[i].time = tr[i].time + rng.choice((1, 7, 100))
        except ValueError:                       # a frozen message: replace it by a thawed, shifted one
            from mido.frozen import thaw_message
            m = thaw_message(tr[i])
            m.time = m.time + 3
            tr[i] = m
        return 'delta'
    if r < 0.55:
        tr[i] = Message('program_change', program=rng.randrange(128), time=rng.choice((0, 2, 50)))
        return 'replace'
    if r < 0.7 and len(tr) > 1:
        j = rng.randrange(len(tr))
        tr[i], tr[j] = tr[j], tr[i]
        return 'swap'
    if r < 0.85:
        m = tr.pop(i)
        tr.append(m)
        return 'pop+append'
    tr.insert(i, MetaMessage('marker', text='x', time=rng.choice((0, 9))))
    return 'insert'


def big_merge_case(ctx, seed, total):
    """>= 4096 messages with many cross-track ties (a size-gated fast path would show)."""
    rng = random.Random(seed)
    ntr = rng.choice((2, 3, 5))
    tracks = []
    for ti in range(ntr):
        tr = MidiTrack()
        for i in range(total // ntr + ti):
            tr.append(Message('note_on', channel=ti, note=i % 128, velocity=(i // 128) % 128,
                              time=rng.choice((0, 0, 5, 10))))
        tracks.append(tr)
    # the classic tie: track 0 has events at 5 and 10, track 1 at 0 and 10
    tracks[0][0].time, tracks[0][1].time = 5, 5
    tracks[1][0].time, tracks[1][1].time = 0, 10
    judge_merge(ctx, tracks, rng.random() < 0.5, {'kind': 'big-merge', 'seed': seed, 'total': total})


def many_tracks_case(ctx, seed, ntracks):
    """Many tracks of a few messages each (a multitrack session exported clip by clip; some empty, some only an
    end_of_track): the cost and the depth of a merge may grow with the number of tracks, its result may not change."""
    rng = random.Random(seed)
    tracks = []
    for ti in range(ntracks):
        tr = MidiTrack()
        for i in range(rng.choice((0, 1, 1, 2, 3))):
            tr.append(Message('note_on', channel=ti % 16, note=(ti // 16) % 128, velocity=i + 1, time=rng.choice((0, 0, 1, 7, 480))))
        if rng.random() < 0.3:
            tr.append(MetaMessage('end_of_track', time=rng.choice((0, 3))))
        tracks.append(tr)
    judge_merge(ctx, tracks, rng.random() < 0.5, {'kind': 'many-tracks', 'seed': seed, 'tracks': ntracks})


def after_failed_registration_case(ctx, seed):
    """An application's add_meta_spec() call fails (its spec class is broken in one way or another); merges of files that
    have nothing to do with that event type go on as before."""
    from mido.midifiles.meta import MetaSpec, add_meta_spec

    class Unhashable(MetaSpec):
        type_byte = 0x0B          # (an unused type byte below most of the built-in ones)
        attributes = []
        defaults = []
        type = ['not', 'hashable']

    class NoTypeByte(MetaSpec):
        attributes = []
        defaults = []

    class RaisingInit(MetaSpec):
        type_byte = 0x6C

        def __init__(self):
            raise RuntimeError('driver not ready')
    failed = 0
    for bad in (Unhashable, NoTypeByte, RaisingInit, None, 5):
        try:
            add_meta_spec(bad)
        except Exception:
            failed += 1
    rng = random.Random(seed)
    try:
        tracks = rand_tracks(rng, False, allow_huge=False)
    except Exception as exc:
        ctx.fail('no exception', f'building-after-failed-registration:{type(exc).__name__}', {'kind': 'after-failed-registration', 'seed': seed}, repr(exc))
        return
    judge_merge(ctx, tracks, False, {'kind': 'after-failed-registration', 'seed': seed, 'registrations_failed': failed})


def nested_merge_case(ctx, seed):
    """The tracks handed to merge_tracks are produced lazily and call merge_tracks themselves."""
    rng = random.Random(seed)
    # (no huge integer deltas here: the groups may mix float and integer deltas, and 10**18 + 0.5 is not a float)
    groups = [rand_tracks(rng, False, allow_huge=False)[:3] for _ in range(rng.randrange(2, 4))]
    groups = [[MidiTrack(m for m in tr if getattr(m, 'note', 0) != 300) for tr in g] for g in groups]
    case = {'kind': 'nested-merge', 'seed': seed}
    try:
        inner_expected = [merge_tracks(g) for g in groups]
        want_items, want_total = model_merge(inner_expected)

        def lazy_tracks():
            for g in groups:
                yield merge_tracks(g)                  # a merge while the outer call is collecting

        def lazy_track(g):
            yield from merge_tracks(g)
        for variant in ('generator-of-merges', 'tracks-are-generators'):
            arg = lazy_tracks() if variant == 'generator-of-merges' else [lazy_track(g) for g in groups]
            out = merge_tracks(arg)
            body = [m for m in out if m.type != 'end_of_track']
            now, abs_got = 0, []
            for m in out:
                now += m.time
                if m.type != 'end_of_track':
                    abs_got.append(now)
            ok = (len(body) == len(want_items) and abs_got == [it[0] for it in want_items] and now == want_total
                  and all({k: v for k, v in vars(g).items() if k != 'time'} == {k: v for k, v in vars(w[3]).items() if k != 'time'}
                          for g, w in zip(body, want_items)))
            ctx.check('messages and order == model', ok, f'nested-merge:{variant}', case,
                      {'got': len(body), 'want': len(want_items), 'duration': [now, want_total]})
    except Exception as exc:
        ctx.fail('no exception', f'nested-merge:{type(exc).__name__}', case, repr(exc))


def merge_case(ctx, seed):
    rng = random.Random(seed)
    skip = rng.random() < 0.5
    case = lambda: {'kind': 'merge', 'seed': seed}  # noqa: E731
    try:
        tracks = rand_tracks(rng, skip)
    except Exception as exc:
        # building valid input messages failed
        ctx.fail('no exception', f'building-the-tracks:{type(exc).__name__}', case, f'{type(exc).__name__}: {exc}')
        return False
    via = 'merged_track' if (skip and rng.random() < 0.3) else 'merge_tracks'
    out = judge_merge(ctx, tracks, skip, case, via)
    if out is not None and rng.random() < 0.6:
        # what the caller does with the returned track must not influence later merges
        for m in out:
            try:
                m.time = m.time + 480
            except Exception:
                pass                                  # a frozen message in the result
        if len(out):
            out.pop()
        judge_merge(ctx, tracks, skip, lambda: {'kind': 'merge', 'seed': seed, 'after': 'result edited'}, via,
                    clause='re-merge after edit == model')
        judge_merge(ctx, [], skip, lambda: {'kind': 'merge', 'seed': seed, 'after': 'result edited, empty merge'},
                    'merge_tracks', clause='re-merge after edit == model')
    for r in range(rng.choice((0, 1, 3))):
        what = edit(rng, tracks)
        judge_merge(ctx, tracks, skip, lambda: {'kind': 'merge', 'seed': seed, 'after_edit': [r, what]},
                    via, clause='re-merge after edit == model')
    nt = sum(1 for tr in tracks if any(m.type != 'end_of_track' for m in tr)) >= 2 or \
        any(m.type == 'end_of_track' and m.time for tr in tracks for m in tr)
    return nt


HAND = [
    [],
    [[]],
    [[], []],
    [[MetaMessage('end_of_track', time=10)], [Message('note_on', time=3), Message('note_off', time=3),
                                             Message('note_on', note=2, time=3)]],
    [[Message('note_on', time=1), MetaMessage('end_of_track', time=5), Message('note_off', time=1),
      Message('note_on', note=9, time=1)], [Message('control_change', time=1)]],
    [[Message('note_on', note=1, time=0)], [Message('note_on', note=2, time=0)],
     [Message('note_on', note=3, time=0)]],
    [[MetaMessage('end_of_track', time=4), MetaMessage('end_of_track', time=4)]],
    # two equal tracks holding a chord: ties stay in track order, then in-track order
    [[Message('note_on', note=60, time=5), Message('note_on', note=64, time=0), Message('note_off', note=60, time=0)],
     [Message('note_on', note=60, time=5), Message('note_on', note=64, time=0), Message('note_off', note=60, time=0)]],
]


def run(ctx):
    n = 0
    if ctx.shard == 0:
        for hi, h in enumerate(HAND):
            for skip in (False, True):
                tracks = [MidiTrack(m.copy() for m in tr) for tr in h]
                judge_merge(ctx, tracks, skip, {'kind': 'hand', 'index': hi, 'skip': skip})
                n += 1
        ctx.nontrivial(None, n)
    nm = 400 if ctx.tier == 'quick' else 40000
    for j in range(nm):
        seed = f'{ctx.seed}:{ctx.shard}:m{j}'
        if merge_case(ctx, seed):
            ctx.nontrivial(('m', seed))
        n += 1
        if j < 2:
            try:
                tr = rand_tracks(random.Random(seed), False)
            except Exception:
                continue
            ctx.put_sample({'seed': seed, 'tracks': [[str(m)[:50] for m in t[:4]] for t in tr[:3]]})
    for j in range(20 if ctx.tier == 'quick' else 500):
        nested_merge_case(ctx, f'{ctx.seed}:{ctx.shard}:n{j}')
        ctx.nontrivial(('nested', ctx.seed, ctx.shard, j))
        n += 1
    sizes = (4095, 4096, 4097, 5000, 12000)
    for si, total in enumerate(sizes):
        if si % ctx.nshards == ctx.shard or (ctx.tier == 'thorough' and (si + 5) % ctx.nshards == ctx.shard):
            big_merge_case(ctx, f'{ctx.seed}:{ctx.shard}:big{total}', total)
            ctx.nontrivial(('big', total))
            n += 1
    if ctx.shard == 11 % ctx.nshards:
        # (leaves half a registration behind on a tree that registers non-atomically: runs last in its shard)
        for j in range(5):
            after_failed_registration_case(ctx, f'{ctx.seed}:{ctx.shard}:afr{j}')
            ctx.nontrivial(('afr', j))
            n += 1
    for si, ntr in enumerate((64, 999, 1000, 1001, 2500) + ((20000,) if ctx.tier == 'thorough' else ())):
        if (si + 7) % ctx.nshards == ctx.shard:
            many_tracks_case(ctx, f'{ctx.seed}:{ctx.shard}:many{ntr}', ntr)
            ctx.nontrivial(('many-tracks', ntr))
            n += 1
    ctx.count('cases', n)


def replay(ctx, case):
    if case['kind'] == 'after-failed-registration':
        after_failed_registration_case(ctx, case['seed'])
    elif case['kind'] == 'many-tracks':
        many_tracks_case(ctx, case['seed'], case['tracks'])
    elif case['kind'] == 'nested-merge':
        nested_merge_case(ctx, case['seed'])
    elif case['kind'] == 'big-merge':
        big_merge_case(ctx, case['seed'], case['total'])
    elif case['kind'] == 'merge':
        merge_case(ctx, case['seed'])
    else:
        h = HAND[case['index']]
        judge_merge(ctx, [MidiTrack(m.copy() for m in tr) for tr in h], case['skip'], case)
