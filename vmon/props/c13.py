"""C13 - Playback timing follows the tempo map.

Monitor on iter(MidiFile), MidiFile.length and MidiFile.play() with a virtual
clock installed as the `time` name of mido.midifiles.midifiles (sleep() calls
are recorded and advance the clock); oracle = exact rational tempo-map
integral (fractions.Fraction) and the scheduling equation
yield_time == max(scheduled_time, time_the_generator_was_resumed).
"""
import math
import random
from fractions import Fraction

import mido
import mido.midifiles.midifiles as mf
from mido import Message, MetaMessage, MidiFile, MidiTrack, second2tick, tick2second

from .c12 import model_merge

ID = 'C13'
ANCHORS = ['mido.midifiles.midifiles', 'mido.midifiles.units']
LEVEL = 'exploration'
RULE = ('seeded files: type 0/1, 1-4 tracks, ticks_per_beat from {1,2,96,480,32767,random}, '
        'deltas 0..large, set_tempo anywhere (tick 0, same tick as other messages, consecutive, '
        'tempo 0/1/16777215/random); each file is iterated, measured (length) and played on a '
        'virtual clock under 6 consumer-delay patterns x exact/over-sleeping sleep, then edited '
        '(ticks_per_beat, a tempo, a delta) and observed again; type 2 files must refuse; '
        'unit conversions sampled over tick x ticks_per_beat x tempo. Distinct by seed/pattern; '
        'a file is non-trivial when it has a set_tempo that changes the tempo before a later '
        'non-zero delta, or more than one track')
ASSUMPTIONS = [
    'float results are compared with the exact rational value with relative tolerance 1e-9 (mido accumulates floats naively); a wrong tempo, order or resolution is off by far more',
    'the virtual clock replaces the module-level name `time` in mido.midifiles.midifiles and is passed as now=; sleep(d) advances it by d (or d plus a positive oversleep)',
    'second2tick(tick2second(t)) == t is sampled for 0 <= t < 2**40',
]
DECIDING = ['cumulative seconds == tempo-map integral', 'length == last cumulative time',
            'play yields the iterated messages (meta on request)', 'never early',
            'sleep == remaining time', 'no drift: yield == max(scheduled, resumed)',
            'type 2 refuses', 'second2tick(tick2second(t)) == t', 'after edit == model']
TIMEOUT = {'quick': 300, 'thorough': 1800}
ENV_FULL = True        # cheap enough: every shard runs once in each interpreter environment (core.ENV_MODES)
REL = 1e-9


def nshards(tier):
    return 16


def close(a, exact, rel=REL):
    e = float(exact)
    return abs(a - e) <= rel * max(abs(e), 1e-300) + 1e-15


class FakeTime:
    def __init__(self, oversleep=0.0):
        self.now = 1000.0
        self.sleeps = []
        self.oversleep = oversleep

    def time(self):
        return self.now

    def sleep(self, d):
        self.sleeps.append((self.now, d))
        if d > 0:
            self.now += d + self.oversleep


def rand_file(rng):
    fmt = rng.choice((0, 1, 1, 1))
    ntr = 1 if fmt == 0 else rng.choice((1, 2, 3, 4))
    tpb = rng.choice((1, 2, 96, 480, 32767, rng.randrange(1, 32768)))
    mid = MidiFile(type=fmt, ticks_per_beat=tpb, charset=rng.choice(('latin1', 'utf-8', 'utf-8', 'shift_jis')))
    for ti in range(ntr):
        tr = MidiTrack()
        for _ in range(rng.choice((0, 1, 5, 20, 40))):
            d = rng.choice((0, 0, 1, 1, 10, 96, 480, 5000, 10 ** 6))
            if rng.random() < 0.04:
                d = 0x0FFFFFFF          # the longest delta a file can hold: a few of them and the song position passes 2**28 ticks
            r = rng.random()
            if r < 0.25:
                tempo = rng.choice((0, 1, 250000, 500000, 16777215, rng.randrange(1, 2 ** 24)))
                tr.append(MetaMessage('set_tempo', tempo=tempo, time=d))
                if rng.random() < 0.2:
                    tr.append(MetaMessage('set_tempo', tempo=rng.randrange(2 ** 24), time=0))
            elif r < 0.30:
                # (texts play no part in timing - whatever they say, in whatever script)
                tr.append(MetaMessage(rng.choice(('marker', 'text', 'lyrics')), text=rng.choice(('m', 'm', 'caf\xe9', '\u30d4\u30a2\u30ce', '\u20ac 5')), time=d))
            elif r < 0.35:
                # other meta events that musicians read as "tempo-like" but that do not change the tick length
                tr.append(rng.choice((MetaMessage('time_signature', numerator=6, denominator=8, time=d),
                                      MetaMessage('time_signature', numerator=2, denominator=2, time=d),
                                      MetaMessage('time_signature', numerator=7, denominator=16, clocks_per_click=12, time=d),
                                      MetaMessage('key_signature', key='F#m', time=d),
                                      MetaMessage('smpte_offset', frame_rate=25, hours=1, time=d))))
            elif r < 0.38:
                tr.append(Message('sysex', data=(1, 2), time=d))
            elif r < 0.42:
                # meta events of a type the library does not know, also on the tick of their predecessor
                from mido import UnknownMetaMessage
                tr.append(UnknownMetaMessage(rng.choice((0x0A, 0x60, 0x7D)), data=(1, 2), time=rng.choice((0, 0, d))))
            else:
                tr.append(Message('note_on', note=rng.randrange(128), channel=ti, time=d))
        if rng.random() < 0.7:
            tr.append(MetaMessage('end_of_track', time=rng.choice((0, 0, 100, 10 ** 5))))
        if rng.random() < 0.15:
            # frozen messages are messages too (mido.frozen) - and they get hashed
            from mido.frozen import freeze_message
            for i in range(len(tr)):
                if rng.random() < 0.5:
                    tr[i] = freeze_message(tr[i])
                    if rng.random() < 0.5:
                        hash(tr[i])
        if len(tr) > 1 and rng.random() < 0.15:
            # a repeated bar / a metronome click: the same message objects at several places of the file
            how = rng.choice(('track*3', 'track+track', 'click', 'tempo-object-twice'))
            if how == 'track*3':
                tr = tr * 3
            elif how == 'track+track':
                tr = tr + tr
            elif how == 'click':
                click = Message('note_on', note=77, channel=9, time=rng.choice((1, 24, 480)))
                for _ in range(rng.randrange(2, 6)):
                    tr.insert(rng.randrange(len(tr) + 1), click)
            else:
                tm = MetaMessage('set_tempo', tempo=rng.randrange(1, 2 ** 24), time=rng.choice((0, 7, 480)))
                tr.insert(0, tm)
                tr.insert(rng.randrange(1, len(tr) + 1), tm)
        mid.tracks.append(tr)
    if len(mid.tracks) > 1 and mid.type == 1 and rng.random() < 0.1:
        mid.tracks.append(mid.tracks[0])          # one MidiTrack object used twice
    return mid


def model_seconds(mid):
    """[(message, cumulative seconds as Fraction)], including the final end_of_track."""
    items, total = model_merge(mid.tracks)
    tpb = mid.ticks_per_beat
    tempo = 500000
    out = []
    prev = 0
    sec = Fraction(0)
    for ab, ti, mi, m in items:
        sec += Fraction((ab - prev) * tempo, 10 ** 6 * tpb)
        prev = ab
        out.append((m, sec))
        if m.type == 'set_tempo':
            tempo = m.tempo
    sec += Fraction((total - prev) * tempo, 10 ** 6 * tpb)
    out.append((MetaMessage('end_of_track'), sec))
    return out


def same_but_time(g, w):
    vg = {k: v for k, v in vars(g).items() if k != 'time'}
    vw = {k: v for k, v in vars(w).items() if k != 'time'}
    # frozen or not is not judged for the yielded copies, the values are
    return g.is_meta == w.is_meta and vg == vw


def judge_iter(ctx, mid, case, clause='cumulative seconds == tempo-map integral'):
    model = model_seconds(mid)
    try:
        got = []
        for m in mid:
            got.append(m.copy())
            # "you can safely modify them": the consumer edits what it was handed
            try:
                if m.type == 'set_tempo':
                    m.tempo = 12345
                m.time = 777.0
            except Exception:
                pass                      # a frozen message
    except Exception as exc:
        ctx.fail(clause, f'iter-raised:{type(exc).__name__}', case, f'{type(exc).__name__}: {exc}')
        return None, model
    ok = len(got) == len(model) and all(same_but_time(g, w) for g, (w, _) in zip(got, model))
    ctx.check('iteration yields the merged messages', ok, 'iter-messages', case,
              lambda: {'len_got': len(got), 'len_want': len(model)})
    if not ok:
        return None, model
    cum = 0.0
    bad = None
    prev_exact = Fraction(0)
    for i, (g, (w, exact)) in enumerate(zip(got, model)):
        cum += g.time
        if not close(cum, exact) or g.time < 0 or not close(g.time, exact - prev_exact, 1e-12):
            bad = {'index': i, 'cum_got': cum, 'cum_exact': float(exact), 'delta_got': g.time,
                   'delta_exact': float(exact - prev_exact), 'msg': repr(w)[:80]}
            break
        prev_exact = exact
    ctx.check(clause, bad is None, 'tempo-map', case, bad)
    try:
        ln = mid.length
        ctx.check('length == last cumulative time' if clause.startswith('cumul') else clause,
                  close(ln, model[-1][1]), 'length', case,
                  lambda: {'length': ln, 'exact': float(model[-1][1])})
    except Exception as exc:
        ctx.fail('length == last cumulative time', f'length-raised:{type(exc).__name__}', case,
                 f'{type(exc).__name__}: {exc}')
    return got, model


PATTERNS = ('none', 'small', 'bigger-than-next', 'bursty', 'huge-once', 'random', 'clock-steps-back')


def consumer_delay(pattern, i, rng, typical):
    if pattern == 'none':
        return 0.0
    if pattern == 'small':
        return typical * 0.01
    if pattern == 'bigger-than-next':
        return typical * 3
    if pattern == 'bursty':
        return typical * 10 if i % 7 == 3 else 0.0
    if pattern == 'huge-once':
        return typical * 1000 if i == 2 else 0.0
    if pattern == 'clock-steps-back':
        # the supplied clock is set back (NTP, a user fixing the date) to before the start of playback, twice
        return -(1000.0 + typical * 100) if i in (2, 5) else typical * 0.5
    return rng.choice((0.0, typical * 0.5, typical * 2, typical * 20))


def judge_play(ctx, mid, model, pattern, oversleep, meta_messages, seed):
    rng = random.Random(seed)
    case = lambda: {'kind': 'play', 'seed': seed, 'pattern': pattern, 'oversleep': oversleep,  # noqa: E731
                    'meta': meta_messages}
    total = float(model[-1][1])
    typical = (total / max(len(model), 1)) or 0.001
    clock = FakeTime(oversleep)
    # the supplied clock may count from zero (a stream position), from a negative value, or be huge
    # ... and its readings may be ints as long as whole seconds have passed (a counter, a test double started at 0)
    clock.now = rng.choice((1000.0, 0.0, 0.0, -50.0, 1.7e9, 0, 1000, -50, 1700000000))
    orig = mf.time
    mf.time = clock
    try:
        if rng.random() < 0.3:
            # the clock is a method of an object nobody else holds (a view on a stream position, made for this call)
            class View:
                def __init__(self, c):
                    self.c = c

                def now(self):
                    return self.c.now
            class Decoy:
                # ... and with a clock of its own supplied, play() has no business reading the system clock: here that one
                # runs three times as fast, from another epoch (sleeping still moves the supplied clock)
                sleep = clock.sleep

                def time(self):
                    return clock.now * 3 + 777.0
            mf.time = Decoy()
            gen = mid.play(meta_messages=meta_messages, now=View(clock).now)
        else:
            gen = mid.play(meta_messages=meta_messages, now=clock.time)
        # the player may be created long before it is started: playback begins at the first next()
        late = rng.choice((0, 0, 0, 3, 1000))
        clock.now += late if isinstance(clock.now, int) else float(late)
        start = clock.now
        want = [(w, c) for w, c in model if meta_messages or not w.is_meta]
        idx = 0
        resumed = clock.now
        n_sleeps_before = 0
        while True:
            resumed = clock.now
            try:
                msg = next(gen)
            except StopIteration:
                break
            y = clock.now
            if idx >= len(want):
                ctx.check('play yields the iterated messages (meta on request)', False,
                          'play-extra-message', case, repr(msg)[:100])
                break
            w, exact = want[idx]
            ctx.check('play yields the iterated messages (meta on request)', same_but_time(msg, w),
                      'play-messages', case, lambda: {'index': idx, 'got': repr(msg)[:100], 'want': repr(w)[:100]})
            sched = float(exact)
            # (readings of a clock near 1.7e9 are only exact to a quarter of a microsecond)
            tol = REL * max(sched, 1.0) + 1e-9 * max(typical, 1e-9) + 16 * math.ulp(abs(start) + abs(y))
            ctx.check('never early', (y - start) >= sched - tol, 'early', case,
                      lambda: {'index': idx, 'yielded_at': y - start, 'scheduled': sched})
            if oversleep == 0.0:
                expect = max(sched, resumed - start)
                # messages skipped in between (meta) can only wait for their own, earlier, times
                ctx.check('no drift: yield == max(scheduled, resumed)', abs((y - start) - expect) <= tol,
                          'drift', case, lambda: {'index': idx, 'yielded_at': y - start, 'scheduled': sched,
                                                  'resumed_at': resumed - start})
            idx += 1
            if msg.type == 'set_tempo':
                try:
                    msg.tempo = 54321          # the consumer's copy, not the file's tempo map
                except Exception:
                    pass
            clock.now += consumer_delay(pattern, idx, rng, typical)
        ctx.check('play yields the iterated messages (meta on request)', idx == len(want),
                  'play-missing-messages', case, {'got': idx, 'want': len(want)})
        # every sleep: positive, and equal to the remaining time of some scheduled message
        scheds = sorted({float(c) for _, c in model})
        bad = None
        for at, d in clock.sleeps:
            if not d > 0:
                bad = {'at': at - start, 'sleep': d, 'why': 'non-positive sleep'}
                break
            target = (at - start) + d
            # nearest scheduled time
            import bisect
            j = bisect.bisect_left(scheds, target)
            near = min((abs(scheds[k] - target) for k in (j - 1, j) if 0 <= k < len(scheds)), default=1e9)
            if near > REL * max(target, 1.0) + 1e-9 * max(typical, 1e-9) + 16 * math.ulp(abs(start) + abs(at)):
                bad = {'at': at - start, 'sleep': d, 'target': target, 'why': 'does not end at a scheduled time'}
                break
        ctx.check('sleep == remaining time', bad is None, 'sleep', case, bad)
        return len(clock.sleeps)
    except Exception as exc:
        ctx.fail('play yields the iterated messages (meta on request)', f'play-raised:{type(exc).__name__}',
                 case, f'{type(exc).__name__}: {exc}')
        return 0
    finally:
        mf.time = orig


def replace_in(mid, old, new):
    for tr in mid.tracks:
        for i, x in enumerate(tr):
            if x is old:
                tr[i] = new
                return


def file_case(ctx, seed, tier):
    rng = random.Random(seed)
    mid = rand_file(rng)
    case = lambda: {'kind': 'file', 'seed': seed}  # noqa: E731
    got, model = judge_iter(ctx, mid, case)
    if got is None:
        return False
    ns = 0
    pats = PATTERNS if tier == 'thorough' else rng.sample(PATTERNS, 3)
    for pattern in pats:
        for oversleep in (0.0, rng.choice((1e-4, 0.01))):
            ns += judge_play(ctx, mid, model, pattern, oversleep, rng.random() < 0.5,
                             f'{seed}:{pattern}:{oversleep}')
    ctx.extra('sleep_calls_observed', ns)
    # abandon an iteration / playback half way, then observe again
    it = iter(mid)
    for _ in range(min(3, len(model) // 2)):
        next(it)
    del it
    judge_iter(ctx, mid, lambda: {'kind': 'file', 'seed': seed, 'after': 'abandoned iteration'},
               clause='after edit == model')
    # edit and observe again (state kept from the first observation would show)
    for r in range(2):
        what = rng.choice(('tpb', 'tempo', 'delta', 'remove-tempo'))
        tempos = [m for tr in mid.tracks for m in tr if m.type == 'set_tempo']
        allm = [m for tr in mid.tracks for m in tr]
        if what == 'tpb':
            mid.ticks_per_beat = rng.choice((1, 24, 96, 960, 32767))
        elif what == 'tempo' and tempos:
            t = rng.choice(tempos)
            replace_in(mid, t, t.copy(tempo=rng.randrange(1, 2 ** 24)))
        elif what == 'delta' and allm:
            m = rng.choice(allm)
            replace_in(mid, m, m.copy(time=m.time + rng.choice((1, 100))))
        elif what == 'remove-tempo' and tempos:
            t = rng.choice(tempos)
            for tr in mid.tracks:
                if any(x is t for x in tr):
                    i = [k for k, x in enumerate(tr) if x is t][0]
                    tr[i] = MetaMessage('marker', text='was tempo', time=t.time)
                    break
        g2, m2 = judge_iter(ctx, mid, lambda: {'kind': 'file', 'seed': seed, 'after_edit': [r, what]},
                            clause='after edit == model')
        if g2 is not None and r == 0:
            judge_play(ctx, mid, m2, 'bigger-than-next', 0.0, True, f'{seed}:edit{r}')
    # non-trivial?
    tempo = 500000
    changes = False
    for w, _ in model:
        if w.type == 'set_tempo' and w.tempo != tempo:
            changes = True
    return changes or len(mid.tracks) > 1


def real_clock_case(ctx, seed):
    """play() with its default clock (time.time) and the real time.sleep: only the hard
    guarantee is judged - no message before its scheduled time - plus the sequence."""
    import time as _t
    rng = random.Random(seed)
    mid = MidiFile(ticks_per_beat=480)
    tr = MidiTrack()
    for i in range(6):
        tr.append(Message('note_on', note=i, time=rng.choice((0, 2, 5))))      # 1 tick ~ 1.04 ms
        if i == 2:
            tr.append(MetaMessage('set_tempo', tempo=250000, time=1))
    mid.tracks.append(tr)
    model = model_seconds(mid)
    want = [(w, c) for w, c in model if not w.is_meta]
    case = {'kind': 'real-clock', 'seed': seed}
    t0 = _t.time()
    got = []
    try:
        for m in mid.play():
            got.append((m, _t.time() - t0))
    except Exception as exc:
        ctx.fail('never early', f'real-clock-raised:{type(exc).__name__}', case, repr(exc))
        return
    ok = len(got) == len(want) and all(same_but_time(g, w) for (g, _), (w, _) in zip(got, want))
    ctx.check('play yields the iterated messages (meta on request)', ok, 'real-clock-messages', case, None)
    early = [(i, at, float(c)) for i, ((g, at), (w, c)) in enumerate(zip(got, want)) if at < float(c) - 0.0005]
    ctx.check('never early', not early, 'real-clock-early', case, early[:3])


def other_platform_case(ctx, platform, seed):
    """Code that is conditional on sys.platform cannot be reached here; as a substitute the same
    file cases run in a child interpreter in which sys.platform was changed BEFORE mido is
    imported.  A child that cannot even import is not judged."""
    import json
    import os
    import subprocess
    import sys
    code = (
        "import sys, json\n"
        f"sys.platform = {platform!r}\n"
        "try:\n"
        "    import mido\n"
        "    from vmon.core import Ctx\n"
        "    from vmon.props import c13\n"
        "except Exception as exc:\n"
        "    print(json.dumps({'import_failed': repr(exc)})); raise SystemExit(0)\n"
        "ctx = Ctx('C13', 'quick', 0)\n"
        f"for j in range(3): c13.file_case(ctx, {seed!r} + ':' + str(j), 'quick')\n"
        "print(json.dumps({'violations': ctx.violations[:3], 'evaluations': sum(ctx.counters.values())}))\n")
    env = dict(os.environ)
    try:
        r = subprocess.run([sys.executable, '-B', '-c', code], capture_output=True, text=True, timeout=120, env=env)
        out = json.loads(r.stdout.strip().splitlines()[-1])
    except Exception as exc:
        ctx.count('other-platform child not usable (not judged)')
        return
    if 'import_failed' in out:
        ctx.count('other-platform child not usable (not judged)')
        return
    case = {'kind': 'other-platform', 'platform': platform, 'seed': seed}
    ctx.check('after edit == model', not out['violations'], f'platform-dependent:{platform}', case,
              lambda: [[v['clause'], v['key']] for v in out['violations']])
    ctx.extra('clause_evaluations_in_other_platform_children', out['evaluations'])


def type2_cases(ctx):
    """A type 2 file refuses - however it came to be one: built as one, loaded from bytes that say so (from memory and from
    disk), or made one by assigning .type; and a file that stopped being one (type = 1) plays like any other."""
    import io
    import os
    import tempfile
    n = 0

    def tracks(ntr):
        return [MidiTrack([Message('note_on', time=5), MetaMessage('end_of_track')]) for _ in range(ntr)]

    def built(ntr):
        mid = MidiFile(type=2)
        mid.tracks.extend(tracks(ntr))
        return mid

    def loaded(ntr):
        b = io.BytesIO()
        built(ntr).save(file=b)
        return MidiFile(file=io.BytesIO(b.getvalue()))

    def loaded_from_disk(ntr):
        fd, path = tempfile.mkstemp(suffix='.mid', prefix='vmon-c13-')
        os.close(fd)
        try:
            built(ntr).save(path)
            return MidiFile(path)
        finally:
            os.remove(path)

    def assigned(ntr):
        mid = MidiFile(type=1)
        mid.tracks.extend(tracks(ntr))
        list(mid)
        mid.type = 2
        return mid

    def kw_tracks(ntr):
        return MidiFile(type=2, tracks=tracks(ntr))

    for origin, make in (('built', built), ('loaded', loaded), ('loaded-from-disk', loaded_from_disk), ('assigned', assigned),
                         ('tracks-keyword', kw_tracks)):
        for ntr in (0, 1, 3):
            mid = make(ntr)
            for what, thunk in (('iter', lambda: list(mid)), ('length', lambda: mid.length),
                                ('play', lambda: list(mid.play(now=lambda: 0.0))),
                                ('play-meta', lambda: list(mid.play(meta_messages=True, now=lambda: 0.0)))):
                case = {'kind': 'type2', 'tracks': ntr, 'what': what, 'origin': origin}
                try:
                    r = thunk()
                    ctx.check('type 2 refuses', False, f'type2-{what}-accepted', case, repr(r)[:80])
                except (TypeError, ValueError):
                    ctx.count('type 2 refuses')
                except Exception as exc:
                    ctx.check('type 2 refuses', False, f'type2-{what}-{type(exc).__name__}', case,
                              f'{type(exc).__name__}: {exc}')
                n += 1
            # ... and no longer one
            if ntr:
                mid.type = 1
                case = {'kind': 'type2', 'tracks': ntr, 'what': 'retyped-1', 'origin': origin}
                try:
                    got = [m.type for m in mid]
                    ctx.check('type 2 refuses', len(got) == ntr + 1 and mid.length > 0, 'former-type2-does-not-play', case, got)
                except Exception as exc:
                    ctx.check('type 2 refuses', False, f'former-type2-{type(exc).__name__}', case, f'{type(exc).__name__}: {exc}')
                n += 1
    return n


def unit_cases(ctx, k):
    rng = ctx.rng
    bad = 0
    for j in range(k):
        t = rng.choice((0, 1, 2 ** 31 - 1, rng.randrange(2 ** 40), rng.randrange(100000)))
        tpb = rng.choice((1, 96, 480, 32767, rng.randrange(1, 32768)))
        tempo = rng.choice((1, 500000, 16777215, rng.randrange(1, 2 ** 24)))
        case = lambda: {'kind': 'unit', 'tick': t, 'tpb': tpb, 'tempo': tempo}  # noqa: E731
        try:
            # the ways to spell the call: by position, by keyword, mixed
            style = j % 4
            if style == 0:
                s = tick2second(t, tpb, tempo)
                back = second2tick(s, tpb, tempo)
            elif style == 1:
                s = tick2second(t, tpb, tempo=tempo)
                back = second2tick(s, tpb, tempo)
            elif style == 2:
                s = tick2second(tick=t, ticks_per_beat=tpb, tempo=tempo)
                back = second2tick(second=s, ticks_per_beat=tpb, tempo=tempo)
            else:
                s = tick2second(t, ticks_per_beat=tpb, tempo=tempo)
                back = second2tick(s, tpb, tempo=tempo)
            ctx.check('second2tick(tick2second(t)) == t', back == t and type(back) is int, 'units-inverse',
                      case, lambda: {'seconds': s, 'back': back})
            ctx.check('tick2second == t*tempo/(1e6*tpb)', close(s, Fraction(t * tempo, 10 ** 6 * tpb), 1e-12),
                      'tick2second-value', case, lambda: {'got': s, 'exact': float(Fraction(t * tempo, 10 ** 6 * tpb))})
        except Exception as exc:
            ctx.fail('second2tick(tick2second(t)) == t', f'units-raised:{type(exc).__name__}', case,
                     f'{type(exc).__name__}: {exc}')
    return k


def run(ctx):
    n = 0
    nf = 60 if ctx.tier == 'quick' else 8000
    for j in range(nf):
        seed = f'{ctx.seed}:{ctx.shard}:f{j}'
        if file_case(ctx, seed, ctx.tier):
            ctx.nontrivial(('f', seed))
        n += 1
        if j == 0:
            mid = rand_file(random.Random(seed))
            ctx.put_sample({'seed': seed, 'type': mid.type, 'ticks_per_beat': mid.ticks_per_beat,
                            'tracks': [[str(m)[:48] for m in t[:4]] for t in mid.tracks[:2]],
                            'length_exact': str(model_seconds(mid)[-1][1])})
    for j in range(1 if ctx.tier == 'quick' else 10):
        real_clock_case(ctx, f'{ctx.seed}:{ctx.shard}:rc{j}')
        n += 1
    for pi, platform in enumerate(('win32', 'darwin', 'cygwin')):
        if pi % ctx.nshards == (ctx.shard + 3) % ctx.nshards:
            other_platform_case(ctx, platform, f'{ctx.seed}:{platform}')
            n += 1
    if ctx.shard == 0:
        k = type2_cases(ctx)
        ctx.nontrivial(None, k)
        n += k
    k = unit_cases(ctx, 12500 if ctx.tier == 'quick' else 320000)
    ctx.nontrivial(None, k)
    ctx.extra('unit_conversions', k)
    n += k
    import os
    if os.environ.get('VERIF_ENVMODE', 'default') in ('default', 'c-locale'):      # (the child interpreter does not inherit -O etc.)
        from .. import coldstart
        n += coldstart.phase(ctx, overlap_jobs(f'{ctx.seed}:overlap'), 'cumulative seconds == tempo-map integral', offset=6)
    ctx.count('cases', n)


def overlap_jobs(seed):
    """Two threads iterate and measure two DIFFERENT files (other resolution, other tempi) at the same time: each
    gets the times it gets when running alone (vmon.coldstart, warm mode, all schedules with <= 1 pre-emption)."""
    import io
    rng = random.Random(seed)
    files = []
    for tpb, tempi in ((96, (250000, 1000000)), (480, (500000, 333333)), (7, (1, 16777215))):
        mid = MidiFile(type=1, ticks_per_beat=tpb)
        tr = MidiTrack()
        for i in range(6):
            if i % 2 == 0:
                tr.append(MetaMessage('set_tempo', tempo=tempi[(i // 2) % 2], time=rng.choice((0, 10, 96))))
            tr.append(Message('note_on', note=i, time=rng.choice((1, 48, 480))))
        mid.tracks.append(tr)
        buf = io.BytesIO()
        mid.save(file=buf)
        files.append(buf.getvalue().hex())
    ops = [{'fn': 'timing', 'data': f, 'want': '__sequential__'} for f in files]
    mods = ['mido.midifiles.midifiles', 'mido.midifiles.units', 'mido.midifiles.tracks']
    return [{'modules': mods, 'jobs': [[ops[0]], [ops[1], ops[2]]], 'k': 1, 'fresh': False},
            {'modules': mods, 'jobs': [[ops[2]], [ops[0]]], 'k': 1, 'fresh': False, 'limit': 400}]


def replay(ctx, case):
    if case.get('kind') == 'cold':
        from .. import coldstart
        coldstart.replay(ctx, case, 'cumulative seconds == tempo-map integral')
        return
    k = case['kind']
    if k in ('file', 'play'):
        seed = case['seed'].split(':')
        file_case(ctx, ':'.join(seed[:3]), 'thorough')
    elif k == 'other-platform':
        other_platform_case(ctx, case['platform'], case['seed'])
    elif k == 'real-clock':
        real_clock_case(ctx, case['seed'])
    elif k == 'type2':
        type2_cases(ctx)
    else:
        t, tpb, tempo = case['tick'], case['tpb'], case['tempo']
        back = second2tick(tick2second(t, tpb, tempo), tpb, tempo)
        ctx.check('second2tick(tick2second(t)) == t', back == t, 'units-inverse', case, back)
