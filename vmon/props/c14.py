"""C14 - Text, dict and repr representations round-trip.

Boundary monitor on str/from_str, dict/from_dict, repr/eval and on
parse_string / parse_string_stream: round-trip equality (value and Python type
of the time), a line-numbered outcome model for streams, and the contract
"ValueError or a valid message, nothing else" for arbitrary text.
"""
import random

import mido
from mido import (Message, MetaMessage, MidiFile, MidiTrack, UnknownMetaMessage, parse_string,
                  parse_string_stream)

from .. import gen, genfile
from ..ref import midi1

ID = 'C14'
ANCHORS = ['mido.messages.strings', 'mido.messages.messages', 'mido.midifiles.tracks']
LEVEL = 'exploration'
RULE = ('messages: all 18 types x boundary attribute values (+ random) x times from {0, 1, -3, '
        '10**30, 2**53+1, 0.5, 0.1, -0.0, 1e-300, 1e300, 5e-324, ...}, sysex payloads of length '
        '0..70 000; meta messages of every known type and unknown meta; tracks of length 0, 1, 2+ '
        'and whole files through repr/eval; text lines: a grammar of unambiguously invalid '
        'classes (must raise ValueError) + token-level fuzz of valid lines (outcome must be a '
        'valid message or ValueError); streams mixing valid, invalid, blank and comment lines. '
        'Distinct by content hash; every case is non-trivial (a representation is produced by '
        'mido and parsed back by mido)')
ASSUMPTIONS = [
    'times are finite (nan/inf have no eval-able repr); duplicated attributes in a text line are not judged beyond "valid message or ValueError"',
    'eval(repr(x)) is done in a namespace holding Message, MetaMessage, UnknownMetaMessage, MidiTrack, MidiFile; files are compared by type, ticks_per_beat and tracks',
]
DECIDING = ['from_str(str(m)) == m', 'from_dict(m.dict()) == m', 'eval(repr(m)) == m',
            'eval(repr(meta)) == meta', 'eval(repr(track)) == track', 'eval(repr(file)) == file',
            'invalid text => ValueError', 'any text => ValueError or valid message',
            'stream outcome == line model']
TIMEOUT = {'quick': 300, 'thorough': 1800}
NS = {'Message': Message, 'MetaMessage': MetaMessage, 'UnknownMetaMessage': UnknownMetaMessage,
      'MidiTrack': MidiTrack, 'MidiFile': MidiFile}
TIMES = [0, 1, -3, 10 ** 30, 2 ** 53 + 1, 10 ** 18 + 1, 127, 0.5, 0.1, 2.0, -0.0, 1e-300, 1e300,
         5e-324, 123456.789, -2.5, 1e16, 3.0, 10 ** 400, -(2 ** 1024), 2 ** 1024 - 1]      # (ints beyond the float range too)


def nshards(tier):
    return 16


def eq_typed(a, b):
    return (type(a) is type(b) and a == b and type(a.time) is type(b.time)
            and repr(a.time) == repr(b.time))


def judge_message(ctx, t, a, tm, builder='ctor'):
    case = lambda: {'kind': 'msg', 'type': t, 'attrs': a if len(repr(a)) < 300 else {'data_len': len(a['data'])},  # noqa: E731
                    'time': repr(tm), 'builder': builder}
    if builder == 'ctor':
        try:
            m = Message(t, time=tm, **a)
        except Exception as exc:
            ctx.fail('from_str(str(m)) == m', f'valid-message-cannot-be-built:{type(exc).__name__}', case, f'{type(exc).__name__}: {exc}')
            return
        if (len(repr(a)) + len(repr(tm))) % 3 == 0:
            # edits that are rejected, and everyday handling, leave no trace in what the conversions show
            from .. import abuse
            abuse.failed_edits(m)
            abuse.handle(m)
    else:
        # a valid message built with skip_checks=True (values are valid, containers vary)
        kw = dict(a)
        if 'data' in kw:
            kw['data'] = {'skip-list': list, 'skip-bytes': bytes, 'skip-gen': (lambda d: (x for x in d))}[builder](kw['data'])
        m = Message(t, skip_checks=True, time=tm, **kw)
        ctx.check('from_dict(m.dict()) == m', m == Message(t, time=tm, **a), f'skip_checks-differs:{builder}', case,
                  lambda: repr(vars(m))[:120])
    try:
        s = str(m)
        back = Message.from_str(s)
        ctx.check('from_str(str(m)) == m', eq_typed(back, m), f'str:{t}', case,
                  lambda: {'str': s[:120], 'back': repr(back)[:160]})
        back = parse_string(s)
        ctx.check('from_str(str(m)) == m', eq_typed(back, m), f'parse_string:{t}', case, None)
        # "the string can span multiple lines", "extra whitespace is ignored": other whitespace between the words
        for ws in ('\n', '\t', '  ', '\r\n', ' \n ', '\n\n'):
            s2 = ws.join(s.split(' ')) if t != 'sysex' or ' ' not in s.split('data=')[-1].split(')')[0] else s.replace(' ', ws)
            for fn in (parse_string, Message.from_str):
                back = fn(ws.strip(' ') + s2 + ws if ws.strip(' ') else ' ' + s2 + ' ')
                ctx.check('from_str(str(m)) == m', eq_typed(back, m), f'whitespace-variant:{fn.__name__}:{t}', case,
                          lambda: {'text': s2[:120], 'back': repr(back)[:160]})
        # the caller edits what it got; parsing the same text again still gives m
        try:
            back.time = 4242
            for k in vars(back):
                if k in midi1.DOMAIN:
                    setattr(back, k, midi1.DOMAIN[k][0] if getattr(back, k) != midi1.DOMAIN[k][0] else midi1.DOMAIN[k][1])
            if t == 'sysex':
                back.data += (1,)
        except Exception:
            pass
        again = Message.from_str(s)
        ctx.check('from_str(str(m)) == m', eq_typed(again, m) and again is not back, f'str-stale-or-shared:{t}',
                  case, lambda: repr(again)[:160])
        ctx.check('format_as_string == str', mido.format_as_string(m) == s
                  and mido.format_as_string(m, include_time=False) + f' time={tm}' == s,
                  'format_as_string', case, None)
    except Exception as exc:
        ctx.fail('from_str(str(m)) == m', f'str-raised:{t}', case, f'{type(exc).__name__}: {exc}')
    try:
        d = m.dict()
        import copy as _copy
        d0 = _copy.deepcopy(d)
        back = Message.from_dict(d)
        ctx.check('from_dict(m.dict()) == m', eq_typed(back, m), f'dict:{t}', case,
                  lambda: {'dict': repr(d)[:160]})
        # the caller's dictionary is only read: it is what it was, and converts again to the same message
        again = Message.from_dict(d) if d == d0 else None
        ctx.check('from_dict(m.dict()) == m', d == d0 and eq_typed(again, m) and again is not back, f'dict-argument-changed:{t}', case,
                  lambda: {'dict_before': repr(d0)[:160], 'dict_after': repr(d)[:160]})
        # the dict is a snapshot: changing it does not change the message
        before = dict(vars(m))
        d['time'] = 424242
        if 'data' in d:
            ctx.check('dict() holds list data', isinstance(d['data'], list), 'dict-data-type', case, None)
            d['data'].append(1)
        for k in list(d):
            if k not in ('type', 'time', 'data'):
                d[k] = 0
        ctx.check('dict() is a snapshot', vars(m) == before, 'dict-live', case, None)
    except Exception as exc:
        ctx.fail('from_dict(m.dict()) == m', f'dict-raised:{t}', case, f'{type(exc).__name__}: {exc}')
    try:
        r = repr(m)
        back = eval(r, dict(NS))  # noqa: S307
        ctx.check('eval(repr(m)) == m', eq_typed(back, m), f'repr:{t}', case, lambda: r[:160])
    except Exception as exc:
        ctx.fail('eval(repr(m)) == m', f'repr-raised:{t}', case, f'{type(exc).__name__}: {exc}')


class TypeName(str):
    """A str subclass whose str()/format() is not its characters (what a str-Enum member does)."""

    def __str__(self):
        return 'TypeName.X'

    def __format__(self, spec):
        return 'TypeName.X'


def judge_str_subclass_type(ctx, t, a, tm):
    """The message type given as an instance of a str subclass / a str-Enum member: same conversions."""
    import enum
    plain = Message(t, time=tm, **a)
    members = [TypeName(t)]
    try:
        members.append(enum.Enum('MsgType', {'M': t}, type=str).M)
    except Exception:
        pass
    for tn in members:
        case = {'kind': 'str-subclass-type', 'type': t, 'attrs': a, 'class': type(tn).__name__}
        try:
            m = Message(tn, time=tm, **a)
            ctx.check('from_str(str(m)) == m', str(m) == str(plain) and Message.from_str(str(m)) == plain, f'str-subclass-type:str:{t}', case,
                      lambda: str(m)[:120])
            ctx.check('from_dict(m.dict()) == m', Message.from_dict(m.dict()) == plain, f'str-subclass-type:dict:{t}', case, None)
            # (repr() shows the type object's own repr - <MsgType.M: 'sysex'> for an Enum member; not judged)
        except Exception as exc:
            ctx.fail('from_str(str(m)) == m', f'str-subclass-type:{type(exc).__name__}:{t}', case, f'{type(exc).__name__}: {exc}')


def judge_frozen(ctx, m0, case):
    """The same conversions on the frozen twin of a message AFTER it has been used the way frozen
    messages are used (hashed, put in a set, looked up in a dict)."""
    import mido.frozen as fz
    ns = dict(NS)
    ns.update({k: getattr(fz, k) for k in ('FrozenMessage', 'FrozenMetaMessage', 'FrozenUnknownMetaMessage')})
    try:
        fm = fz.freeze_message(m0)
        try:
            h = hash(fm)
            table = {fm: 1}
            hit = table.get(fz.freeze_message(m0.copy())) == 1 and fm in {fm} and hash(fm) == h
        except TypeError:
            return          # unhashable contents (sequencer_specific list data: a known finding of C15)
        ctx.check('frozen twin converts like the message', hit, 'frozen:lookup', case, None)
        ctx.check('frozen twin converts like the message', vars(fm) == vars(m0), 'frozen:stray-attribute-after-hash', case,
                  lambda: sorted(set(vars(fm)) ^ set(vars(m0))))
        if isinstance(m0, Message):
            ctx.check('frozen twin converts like the message', str(fm) == str(m0) and eq_typed(Message.from_str(str(fm)), m0),
                      'frozen:str', case, lambda: str(fm)[:160])
            ctx.check('frozen twin converts like the message', fm.dict() == m0.dict() and eq_typed(Message.from_dict(fm.dict()), m0),
                      'frozen:dict', case, lambda: repr(fm.dict())[:160])
        back = eval(repr(fm), ns)  # noqa: S307
        ctx.check('frozen twin converts like the message', type(back) is type(fm) and back == fm and back == m0, 'frozen:repr', case,
                  lambda: repr(fm)[:160])
        th = fz.thaw_message(fm)
        ctx.check('frozen twin converts like the message', type(th) is type(m0) and th == m0 and vars(th) == vars(m0), 'frozen:thaw',
                  case, lambda: repr(vars(th))[:160])
    except Exception as exc:
        ctx.fail('frozen twin converts like the message', f'frozen:{type(exc).__name__}', case, f'{type(exc).__name__}: {exc}')


def safe_repr(obj, n=300):
    try:
        return repr(obj)[:n]
    except Exception as exc:
        return f'<repr raised {type(exc).__name__}: {exc}>'


def judge_repr(ctx, obj, clause, key, case):
    try:
        r = repr(obj)
        back = eval(r, dict(NS))  # noqa: S307
    except Exception as exc:
        ctx.fail(clause, f'{key}-raised', case, f'{type(exc).__name__}: {exc}')
        return
    if isinstance(obj, MidiFile):
        ok = (isinstance(back, MidiFile) and back.type == obj.type
              and back.ticks_per_beat == obj.ticks_per_beat and len(back.tracks) == len(obj.tracks)
              and all(type(x) is type(y) and list(x) == list(y) and all(eq_typed(p, q) for p, q in zip(x, y))
                      for x, y in zip(back.tracks, obj.tracks)))
    elif isinstance(obj, MidiTrack):
        ok = (type(back) is MidiTrack and len(back) == len(obj)
              and all(eq_typed(p, q) for p, q in zip(back, obj)))
    else:
        ok = eq_typed(back, obj)
    ctx.check(clause, ok, key, case, lambda: r[:200])


INVALID = [
    ('empty', ['', ' ', '\t', '\n', '   \n ']),
    ('unknown-type', ['bogus', 'note_onn channel=0', 'NOTE_ON', 'set_tempo tempo=5', '0x90 1 2', 'note', '=', 'time=0']),
    ('no-equals', ['note_on channel', 'note_on 5', 'note_on channel=0 note', 'sysex (1,2)', 'clock now']),
    ('bad-number', ['note_on channel=x', 'note_on note=', 'note_on note=1.0', 'note_on note=1e2', 'note_on note=0x10',
                    'note_on note=1,2', 'note_on velocity=None', 'pitchwheel pitch=--1', 'songpos pos=1.5',
                    'note_on time=x', 'note_on time=', 'note_on time=1,5', 'note_on time=1.2.3', 'note_on note=(1)']),
    ('unknown-attribute', ['note_on foo=1', 'note_on data=(1)', 'sysex channel=1', 'clock note=1', 'note_on skip_checks=1',
                           'note_on skip_checks=1 note=999', 'note_on self=1', 'note_on type=5', 'note_on cl=1',
                           'note_on Note=1', 'pitchwheel value=1', 'note_on =1', 'note_on args=1']),
    ('out-of-range', ['note_on note=128', 'note_on note=-1', 'note_on channel=16', 'pitchwheel pitch=8192',
                      'pitchwheel pitch=-8193', 'songpos pos=16384', 'quarter_frame frame_type=8',
                      'quarter_frame frame_value=16', 'sysex data=(128)', 'sysex data=(-1)', 'sysex data=(1,2,300)',
                      'note_on velocity=99999999999999999999', 'program_change program=128']),
    ('bad-data', ['sysex data=1,2', 'sysex data=(1,2', 'sysex data=1,2)', 'sysex data=123', 'sysex data=(1,,2)',
                  'sysex data=(,)', 'sysex data=(a)', 'sysex data=(1.0)', 'sysex data=[1,2]', 'sysex data=(1;2)',
                  'sysex data=(', 'sysex data=)', 'sysex data=', 'sysex data=((1))', 'sysex data=(1,)']),
]


def judge_invalid(ctx, text, cls):
    case = {'kind': 'invalid', 'class': cls, 'text': text}
    for fn, name in ((parse_string, 'parse_string'), (Message.from_str, 'from_str')):
        try:
            r = fn(text)
            ctx.check('invalid text => ValueError', False, f'accepted:{cls}', case, repr(r))
        except ValueError:
            ctx.count('invalid text => ValueError')
        except Exception as exc:
            ctx.check('invalid text => ValueError', False, f'{type(exc).__name__}:{cls}', case,
                      f'{name}: {type(exc).__name__}: {exc}')


TOKENS = ['=', '==', ' ', '(', ')', ',', '-', '.', '#', 'x', '1', '0', '999', 'note', 'time', 'data', 'type',
          'channel', 'skip_checks', 'self', 'None', 'True', '\t', 'e', '_', '+', '1e5', 'inf', 'nan', '()', '1_0']


def fuzz_line(rng):
    t = gen.random_type(rng)
    s = str(Message(t, **gen.random_attrs(t, rng, maxdata=4), time=rng.choice(TIMES)))
    for _ in range(rng.randrange(1, 4)):
        r = rng.random()
        i = rng.randrange(len(s) + 1)
        if r < 0.4:
            s = s[:i] + rng.choice(TOKENS) + s[i:]
        elif r < 0.7 and s:
            j = min(len(s), i + rng.randrange(1, 4))
            s = s[:i] + s[j:]
        elif r < 0.85:
            words = s.split()
            if words:
                k = rng.randrange(len(words))
                words.insert(k, words[k])        # duplicated attribute
                s = ' '.join(words)
        else:
            words = s.split()
            rng.shuffle(words)
            s = ' '.join(words)
    return s


def judge_any_text(ctx, text):
    case = lambda: {'kind': 'fuzz', 'text': text}  # noqa: E731
    try:
        r = parse_string(text)
    except ValueError:
        ctx.count('any text => ValueError or valid message')
        return None
    except Exception as exc:
        ctx.check('any text => ValueError or valid message', False, f'fuzz:{type(exc).__name__}', case,
                  f'{type(exc).__name__}: {exc}')
        return None
    why = midi1.valid(r)
    ctx.check('any text => ValueError or valid message', why is None and type(r) is Message,
              'fuzz:invalid-message', case, lambda: {'why': why, 'msg': repr(r)[:120]})
    return r


def stream_case(ctx, seed):
    rng = random.Random(seed)
    lines, model = [], []
    for i in range(rng.randrange(0, 14)):
        r = rng.random()
        n = i + 1
        if r < 0.4:
            t = gen.random_type(rng)
            m = Message(t, **gen.random_attrs(t, rng, maxdata=4), time=rng.choice(TIMES))
            pad = rng.choice(('', ' ', '\t', '  '))
            tail = rng.choice(('', '\n', ' # comment', '\r\n', '#note_on', '  # x = y'))
            lines.append(pad + str(m) + tail)
            model.append(('msg', m, n))
        elif r < 0.6:
            lines.append(rng.choice(('', '\n', '   ', '# only a comment', '  # indented comment\n', '#', '\t\n')))
        else:
            cls, pool = rng.choice(INVALID[1:])
            lines.append(rng.choice(pool) + rng.choice(('', '\n', ' # c')))
            model.append(('err', None, n))
    case = lambda: {'kind': 'stream', 'seed': seed, 'lines': lines}  # noqa: E731
    src = rng.choice(('list', 'gen', 'tuple'))
    stream = lines if src == 'list' else tuple(lines) if src == 'tuple' else (x for x in lines)
    try:
        got = list(parse_string_stream(stream))
    except Exception as exc:
        ctx.check('stream outcome == line model', False, f'stream-died:{type(exc).__name__}', case,
                  f'{type(exc).__name__}: {exc}')
        return
    ok = len(got) == len(model)
    why = {'len_got': len(got), 'len_want': len(model)}
    objs = [id(g[0]) for g in got if g[0] is not None]
    ctx.check('stream messages are distinct objects', len(set(objs)) == len(objs), 'stream-shared-object', case, None)
    if ok:
        for (g_msg, g_err), (kind, m, n) in zip(got, model):
            if kind == 'msg':
                if not (g_err is None and g_msg is not None and eq_typed(g_msg, m)):
                    ok, why = False, {'line': n, 'got': [repr(g_msg)[:100], g_err], 'want': repr(m)[:100]}
                    break
            else:
                if not (g_msg is None and isinstance(g_err, str) and g_err.startswith(f'line {n}: ')):
                    ok, why = False, {'line': n, 'got': [repr(g_msg)[:100], g_err], 'want': f'(None, "line {n}: ...")'}
                    break
    ctx.check('stream outcome == line model', ok, 'stream-model', case, why)


def meta_objects(rng, k):
    out = []
    for _ in range(k):
        ev = genfile.rand_meta_event(rng, small=True, allow_eot=True)
        m = genfile.msg_of_event(ev)
        m.time = rng.choice(TIMES)
        out.append(m)
    out.append(MetaMessage('text', text='quote\' " \\ \n\t\x00\xff€', time=0.5))
    for txt in ('{Intro}', 'verse {}', '{0}', 'a } b', '{{chorus}}', '%s %d', '{', '\\{x\\}'):
        if rng.random() < 0.5:
            out.append(MetaMessage(rng.choice(('lyrics', 'marker', 'text', 'copyright')), text=txt))
        else:
            out.append(MetaMessage(rng.choice(('track_name', 'instrument_name', 'device_name')), name=txt, time=1))
    # built with no arguments at all, and with the time only: the defaults are values like any other
    from ..ref import meta as _rmeta
    for t in _rmeta.SPECS:
        out.append(MetaMessage(t))
        if rng.random() < 0.3:
            out.append(MetaMessage(t, time=rng.choice(TIMES)))
    out.append(UnknownMetaMessage(0x60, time=3))
    out.append(UnknownMetaMessage(0x7E, (1, 2, 255), time=-0.0))
    return out


def run(ctx):
    rng = ctx.rng
    n = 0
    # messages
    for ti, t in enumerate(midi1.TYPES):
        sets = list(gen.boundary_attr_sets(t, rng, extra_random=6))
        for ai, a in enumerate(sets):
            if (ti + ai) % ctx.nshards != ctx.shard:
                continue
            for tm in (TIMES if (ai % 5 == 0) else (TIMES[(ai + ti) % len(TIMES)], TIMES[(ai * 7 + 3) % len(TIMES)])):
                judge_message(ctx, t, a, tm)
                if ai % 3 == 0:
                    judge_frozen(ctx, Message(t, time=tm, **a), {'kind': 'frozen', 'type': t, 'attrs': a, 'time': repr(tm)})
                if ai % 4 == 1:
                    judge_str_subclass_type(ctx, t, a, tm)
                if t == 'sysex' or ai % 4 == 0:
                    judge_message(ctx, t, a, tm, builder=('skip-list', 'skip-bytes', 'skip-gen')[(ai + ti) % 3])
                ctx.nontrivial((t, tuple(sorted(a.items())), repr(tm)))
                n += 1
    if ctx.shard == 1 % ctx.nshards:
        for ln in gen.SYSEX_LENGTHS:
            judge_message(ctx, 'sysex', {'data': gen.sysex_payload(ln, 'ramp', rng)}, 3)
            ctx.nontrivial(('sysexlen', ln))
            n += 1
    # meta / tracks / files
    nm = 12 if ctx.tier == 'quick' else 600
    for j in range(nm):
        for m in meta_objects(rng, 6):
            judge_repr(ctx, m, 'eval(repr(meta)) == meta', f'meta-repr:{m.type}',
                       lambda: {'kind': 'meta', 'repr': safe_repr(m, 200)})
            judge_frozen(ctx, m, {'kind': 'frozen-meta', 'repr': safe_repr(m, 200)})
            ctx.nontrivial(('meta', safe_repr(m)))
            n += 1
        for ln in (0, 1, 1, 2, 3, rng.randrange(4, 12)):
            evs = [genfile.rand_channel_event(rng, None, True) if rng.random() < 0.6 else
                   genfile.rand_meta_event(rng, True, True) if rng.random() < 0.7 else
                   genfile.rand_sysex_event(rng, True) for _ in range(ln)]
            tr = MidiTrack(genfile.msg_of_event(e) for e in evs)
            for m in tr:
                if rng.random() < 0.3:
                    m.time = rng.choice(TIMES)
            judge_repr(ctx, tr, 'eval(repr(track)) == track', f'track-repr:len{min(ln, 2)}',
                       lambda: {'kind': 'track', 'len': ln, 'repr': safe_repr(tr)})
            ctx.nontrivial(('track', safe_repr(tr)))
            n += 1
        fmt, div, tracks = genfile.rand_file_events(rng, ('end', 'absent'), small=True, nmax=6)
        mid = genfile.midifile_of(fmt, div, tracks, charset=rng.choice(('latin1', 'latin1', 'utf-8', 'cp1250', 'shift_jis')))
        if rng.random() < 0.3:
            mid.debug, mid.clip = True, True          # other constructor options must not break the repr either
        if rng.random() < 0.3:
            mid.tracks.append(MidiTrack([Message('note_on', time=1.5)]))
        if rng.random() < 0.5:
            mid.tracks.append(MidiTrack([MetaMessage('track_name', name=rng.choice(('{Intro}', 'verse {}', '{0}', 'a } b',
                                                                                     '{{chorus}}', '%(x)s'))),
                                         MetaMessage('lyrics', text='la {la}', time=3)]))
        judge_repr(ctx, mid, 'eval(repr(file)) == file', f'file-repr:tracks{min(len(mid.tracks), 2)}',
                   lambda: {'kind': 'file', 'repr': safe_repr(mid)})
        # where a message comes from makes no difference: the ones the library hands out itself - the merged track, an
        # iteration over the file (times in seconds), merge_tracks(), a file that was saved and read back, a copy, a
        # thawed frozen message - convert like any other
        try:
            import io as _io
            from mido.midifiles.tracks import merge_tracks as _merge
            handed = [('merged_track', m) for m in mid.merged_track]
            handed += [('merge_tracks', m) for m in _merge(mid.tracks, skip_checks=(j % 2 == 0))]
            if mid.type != 2 and all(isinstance(x.time, int) and x.time >= 0 for tr_ in mid.tracks for x in tr_):
                handed += [('iteration', m) for m in mid]
                buf = _io.BytesIO()
                mid.save(file=buf)
                handed += [('read-back', m) for tr_ in MidiFile(file=_io.BytesIO(buf.getvalue()), charset=mid.charset).tracks for m in tr_]
            handed += [('copy', m.copy(time=m.time)) for tr_ in mid.tracks for m in tr_]
        except Exception as exc:
            handed = []
            ctx.extra('provenance_skipped', {type(exc).__name__: 1})
        for src, m in handed[:60]:
            judge_repr(ctx, m, 'eval(repr(meta)) == meta' if m.is_meta else 'eval(repr(m)) == m', f'handed-out:{src}:{"meta" if m.is_meta else "msg"}',
                       lambda: {'kind': 'file', 'from': src, 'repr': safe_repr(m, 200)})
            if not m.is_meta:
                try:
                    ok = Message.from_str(str(m)) == m and Message.from_dict(m.dict()) == m
                except Exception as exc:
                    ok = False
                ctx.check('from_str(str(m)) == m', ok, f'handed-out:{src}:str', lambda: {'kind': 'file', 'from': src, 'repr': safe_repr(m, 200)}, None)
            n += 1
        ctx.nontrivial(('file', safe_repr(mid)))
        n += 1
    # invalid text classes
    if ctx.shard == 0:
        for cls, pool in INVALID:
            for text in pool:
                judge_invalid(ctx, text, cls)
                ctx.nontrivial(('inv', text))
                n += 1
                if cls != 'empty':
                    for deco in ('  %s', '%s  ', '%s\n'):
                        judge_invalid(ctx, deco % text, cls)
                        n += 1
    # fuzz
    nf = 1500 if ctx.tier == 'quick' else 400000
    accepted = 0
    for j in range(nf):
        text = fuzz_line(rng)
        r = judge_any_text(ctx, text)
        accepted += r is not None
        ctx.nontrivial(('fuzz', text))
        n += 1
        if j < 2:
            ctx.put_sample({'fuzzed_line': text, 'outcome': 'message' if r is not None else 'ValueError'})
    ctx.extra('fuzz_lines_accepted', accepted)
    ctx.extra('fuzz_lines', nf)
    ns = 150 if ctx.tier == 'quick' else 40000
    for j in range(ns):
        seed = f'{ctx.seed}:{ctx.shard}:s{j}'
        stream_case(ctx, seed)
        ctx.nontrivial(('stream', seed))
        n += 1
    if ctx.shard == 2 % ctx.nshards:
        from .. import customspec
        customspec.scenario(ctx, 'eval(repr(file)) == file', 'eval(repr(meta)) == meta', 'eval(repr(meta)) == meta')
        n += 1
    from .. import coldstart
    n += coldstart.phase(ctx, cold_jobs(), 'from_str(str(m)) == m', offset=5)
    ctx.count('cases', n)


def cold_jobs():
    """Cold start: the first text conversions of a fresh interpreter, made by two threads."""
    from ..coldstart import msg_want

    def fs(text, t, a, time=0):
        return {'fn': 'from_str', 'arg': text, 'want': msg_want(t, a, time=time)}

    def st(t, a, text):
        return {'fn': 'str', 'type': t, 'attrs': a, 'want': text}
    pw = fs('pitchwheel channel=2 pitch=-5 time=1.5', 'pitchwheel', {'channel': 2, 'pitch': -5}, 1.5)
    sx = fs('sysex data=(1,2) time=0', 'sysex', {'data': [1, 2]})
    no = fs('note_on note=60 time=3', 'note_on', {'channel': 0, 'note': 60, 'velocity': 64}, 3)
    spw = st('pitchwheel', {'channel': 2, 'pitch': -5}, 'pitchwheel channel=2 pitch=-5 time=0')
    ssx = st('sysex', {'data': [1, 2]}, 'sysex data=(1,2) time=0')
    sck = st('clock', {}, 'clock time=0')
    others = [sx, spw, no, ssx, pw, sck, fs('songpos pos=7', 'songpos', {'pos': 7})]
    mods = ['mido.messages.strings', 'mido.messages.messages', 'mido.messages.checks', 'mido.messages.specs']
    return [{'modules': mods, 'jobs': [first, others], 'k': 1} for first in ([pw], [ssx], [sx, sck], [spw, no])]


def replay(ctx, case):
    k = case['kind']
    if k == 'cold':
        from .. import coldstart
        coldstart.replay(ctx, case, 'from_str(str(m)) == m')
        return
    if k == 'msg':
        a = dict(case['attrs'])
        if 'data_len' in a:
            a = {'data': gen.sysex_payload(a['data_len'], 'ramp', ctx.rng)}
        if 'data' in a:
            a['data'] = tuple(a['data'])
        judge_message(ctx, case['type'], a, eval(case['time']))  # noqa: S307
    elif k == 'frozen':
        a = dict(case['attrs'])
        if 'data' in a:
            a['data'] = tuple(a['data'])
        judge_frozen(ctx, Message(case['type'], time=eval(case['time']), **a), case)  # noqa: S307
    elif k == 'str-subclass-type':
        a = dict(case['attrs'])
        if 'data' in a:
            a['data'] = tuple(a['data'])
        judge_str_subclass_type(ctx, case['type'], a, 0)
    elif k == 'frozen-meta':
        judge_frozen(ctx, eval(case['repr'], dict(NS)), case)  # noqa: S307
    elif k == 'invalid':
        judge_invalid(ctx, case['text'], case['class'])
    elif k == 'fuzz':
        judge_any_text(ctx, case['text'])
    elif k == 'stream':
        stream_case(ctx, case['seed'])
    else:
        obj = eval(case['repr'], dict(NS)) if len(case['repr']) < 200 else None  # noqa: S307
        if obj is not None:
            judge_repr(ctx, obj, 'eval(repr(meta)) == meta', 'replay', case)
