"""C15 - Copy, freeze and thaw have value semantics.

Boundary monitor on copy / freeze_message / thaw_message / hash / setattr:
fresh-construction equivalence for every override set, aliasing snapshots
(assign on one side, compare the other), mutation attempts on frozen messages,
hash/dict-key checks on independently built equal pairs (including pairs that
are equal across int/float).
"""
import os
import random
from fractions import Fraction

import mido
from mido import Message, MetaMessage, UnknownMetaMessage
from mido.frozen import (FrozenMessage, FrozenMetaMessage, FrozenUnknownMetaMessage, freeze_message,
                         is_frozen, thaw_message)

from .. import gen, genfile
from ..ref import meta as rmeta
from ..ref import midi1

ID = 'C15'
ANCHORS = ['mido.frozen', 'mido.messages.messages']
LEVEL = 'exploration'
RULE = ('messages of all three classes (18 Message types at boundary + random values, all 17 '
        'known meta types, unknown meta) x override sets (none, time only valid/invalid, each '
        'attribute valid/invalid, unknown name, type same/other, two attributes) x assignment '
        'sequences on originals, copies, thawed copies; frozen twins built independently for '
        'hash and dict-key checks, incl. int/float-equal twins. Distinct by (class, type, '
        'values, override set); non-trivial: every case calls copy/freeze/thaw and compares '
        'the result with a fresh construction or a snapshot')
ASSUMPTIONS = [
    'sequencer_specific data and UnknownMetaMessage data are given as tuples (list data is known finding F12 and is probed separately)',
    'UnknownMetaMessage performs no validation by design; copy(**ov) is only required to agree with a fresh construction',
]
DECIDING = ['copy() == original, same class, new object', 'copy(**ov) == fresh construction',
            'invalid override leaves original unchanged', 'no aliasing after copy/freeze/thaw',
            'frozen rejects mutation', 'equal frozen => equal hash and dict key',
            'thaw(freeze(m)) == m', 'freeze(frozen) is itself', 'None maps to None']
TIMEOUT = {'quick': 300, 'thorough': 1800}
ENV_FULL = True        # cheap enough: every shard runs once in each interpreter environment (core.ENV_MODES)
K_SEQ = 'sequencer_specific-data-not-normalised'
FROZEN_OF = {Message: FrozenMessage, MetaMessage: FrozenMetaMessage,
             UnknownMetaMessage: FrozenUnknownMetaMessage}


def nshards(tier):
    return 16


def build(spec):
    """spec = ('msg', type, attrs, time) | ('meta', type, attrs, time) | ('unk', type_byte, data, time)"""
    kind = spec[0]
    if kind == 'msg':
        return Message(spec[1], time=spec[3], **spec[2])
    if kind == 'meta':
        return MetaMessage(spec[1], time=spec[3], **spec[2])
    return UnknownMetaMessage(spec[1], spec[2], time=spec[3])


def fresh_with(spec, ov):
    kind = spec[0]
    own = 'unknown_meta' if kind == 'unk' else spec[1]
    if 'type' in ov and ov['type'] != own:
        raise ValueError('the type of a message cannot change')
    if kind == 'msg':
        a = {**spec[2], 'time': spec[3], **ov}
        a.pop('type', None)
        return Message(spec[1], **a)
    if kind == 'meta':
        a = {**spec[2], 'time': spec[3], **ov}
        a.pop('type', None)
        return MetaMessage(spec[1], **a)                  # skip_checks, if given, is a constructor keyword
    a = {'type_byte': spec[1], 'data': spec[2], 'time': spec[3], **ov}
    a.pop('type', None)
    return UnknownMetaMessage(**a)


def snap(m):
    return {k: (v, type(v)) for k, v in vars(m).items()}


def same(m, s):
    v = vars(m)
    return set(v) == set(s) and all(type(v[k]) is s[k][1] and (v[k] == s[k][0] or repr(v[k]) == repr(s[k][0]))
                                    for k in v)


def valid_values(spec, rng):
    """{attr: another valid value} for every settable attribute."""
    kind = spec[0]
    out = {'time': rng.choice((0, 5, 2.5, -1))}
    if kind == 'msg':
        for n in midi1.ATTRS[spec[1]]:
            if n == 'data':
                out[n] = tuple(rng.randrange(128) for _ in range(rng.randrange(0, 4)))
            else:
                lo, hi = midi1.DOMAIN[n]
                out[n] = rng.choice((lo, hi, rng.randint(lo, hi)))
    elif kind == 'meta':
        out.update(genfile.rand_meta_attrs(rng, spec[1]))
    else:
        out['data'] = tuple(rng.randrange(256) for _ in range(rng.randrange(0, 4)))
        out['type_byte'] = rng.choice((0x60, 0x61))
    return out


def invalid_values(spec):
    kind = spec[0]
    out = [('time', 'soon'), ('time', None), ('time', 1j), ('bogus', 1)]
    if kind == 'msg':
        for n in midi1.ATTRS[spec[1]]:
            if n == 'data':
                out += [('data', 5), ('data', [128]), ('data', 'x'),
                        # a whole dump, frame and all, where the payload belongs (and pieces of a frame)
                        ('data', [0xF0, 1, 2, 0xF7]), ('data', (0xF0, 0xF7)), ('data', b'\xf0\x7e\x01\xf7'), ('data', [0xF0, 1]), ('data', [1, 0xF7]),
                        ('data', [0xF7]), ('data', [0xF0])]
            else:
                lo, hi = midi1.DOMAIN[n]
                out += [(n, hi + 1), (n, lo - 1), (n, 1.0), (n, None)]
                # the value the message already holds (validated when it was built), as a float / Decimal / Fraction:
                # equal to the int, the same hash - and still no integer
                cur = spec[2].get(n, midi1.DEFAULTS.get(n, 0))
                import decimal
                out += [(n, float(cur)), (n, Fraction(cur)), (n, decimal.Decimal(cur))]
        out.append(('type', 'clock' if spec[1] != 'clock' else 'start'))
    elif kind == 'meta':
        t = spec[1]
        for (tt, n), pool in __import__('vmon.props.c09', fromlist=['REJECTS']).REJECTS.items():
            if tt == t:
                out += [(n, v) for v in pool[:4]]
        out.append(('type', 'marker' if t != 'marker' else 'text'))
    return out


def judge_copy(ctx, spec, rng):
    m = build(spec)
    cls = type(m)
    key = f'{spec[0]}:{spec[1]}'
    case = lambda extra=None: {'kind': 'copy', 'spec': repr(spec)[:200], 'extra': repr(extra)[:120]}  # noqa: E731
    c = m.copy()
    ctx.check('copy() == original, same class, new object', type(c) is cls and c == m and c is not m
              and same(c, snap(m)), f'plain-copy:{key}', case, lambda: repr(c)[:120])
    # override sets
    vv = valid_values(spec, rng)
    ovs = [{k: v} for k, v in vv.items()]
    if len(vv) >= 2:
        ks = rng.sample(sorted(vv), 2)
        ovs.append({k: vv[k] for k in ks})
    ovs.append({'type': m.type})
    ovs.append({'type': ''.join(list(m.type))})                    # equal, not the same str object
    ovs.append({'type': ''.join(list(m.type)), 'time': 9})
    ovs += [{k: v} for k, v in invalid_values(spec)]
    if spec[0] in ('meta', 'unk'):
        # MetaMessage.copy() hands every override to the constructor, skip_checks included
        ovs += [{'skip_checks': True, 'time': 5}, {'skip_checks': True, 'tmepo': 1}, {'skip_checks': False, 'time': 6}]
        if spec[0] == 'unk':
            ovs += [{'skip_checks': True, 'data': [1, 2, 3]}, {'data': [4, 5]}, {'data': b'\x01\x02'}]
    for ov in ovs:
        s = snap(m)
        try:
            want = fresh_with(spec, ov)
            want_exc = None
        except Exception as exc:
            want, want_exc = None, exc
        try:
            got = m.copy(**ov)
            got_exc = None
        except Exception as exc:
            got, got_exc = None, exc
        if want_exc is None and got_exc is None:
            ok = type(got) is cls and got == want and same(got, snap(want)) and got is not m
        elif want_exc is not None and got_exc is not None:
            ok = True
            ctx.check('exception class', isinstance(got_exc, (ValueError, TypeError, AttributeError))
                      or spec[0] == 'unk', f'copy-exc:{type(got_exc).__name__}:{key}', lambda: case(ov),
                      f'{type(got_exc).__name__}: {got_exc}')
        else:
            # a type override equal to the own type is accepted by copy but is not a
            # constructor keyword; everything else must agree
            ok = False
        ctx.check('copy(**ov) == fresh construction', ok, f'copy-override:{key}:{"+".join(sorted(ov))}',
                  lambda: case(ov), lambda: {'copy': repr(got)[:100] if got_exc is None else repr(got_exc)[:100],
                                             'fresh': repr(want)[:100] if want_exc is None else repr(want_exc)[:100]})
        ctx.check('invalid override leaves original unchanged' if got_exc is not None else
                  'copy leaves original unchanged', same(m, s), f'original-changed:{key}', lambda: case(ov), None)
        if got is not None and spec[0] == 'msg' and not ov.get('skip_checks'):
            # whatever a fresh construction would say: a copy made without skip_checks is a valid message by the
            # reference's own definition (integers in range, time a real number)
            why = midi1.valid(got)
            ctx.check('copy(**ov) == fresh construction', why is None, f'copy-returned-invalid-message:{"+".join(sorted(ov))}',
                      lambda: case(ov), lambda: {'why': why, 'copy': repr(vars(got))[:160]})
    # aliasing: assign on the copy, then on the original
    c = m.copy()
    sm, sc = snap(m), snap(c)
    for k, v in vv.items():
        if spec[0] == 'unk' and k == 'type_byte':
            continue
        setattr(c, k, v)
        ctx.check('no aliasing after copy/freeze/thaw', same(m, sm), f'alias:copy->orig:{key}', lambda: case(k), None)
        sc = snap(c)
        setattr(m, k, valid_values(spec, rng)[k])
        ctx.check('no aliasing after copy/freeze/thaw', same(c, sc), f'alias:orig->copy:{key}', lambda: case(k), None)
        sm = snap(m)
    if 'data' in vars(m) and spec[0] == 'msg':
        c = m.copy()
        sc = snap(c)
        m.data += (1, 2)
        ctx.check('no aliasing after copy/freeze/thaw', same(c, sc), f'alias:iadd:{key}', case, None)


def judge_freeze(ctx, spec, rng):
    m = build(spec)
    cls = type(m)
    key = f'{spec[0]}:{spec[1]}'
    case = lambda extra=None: {'kind': 'freeze', 'spec': repr(spec)[:200], 'extra': repr(extra)[:120]}  # noqa: E731
    f = freeze_message(m)
    ctx.check('freeze gives the frozen class, equal', type(f) is FROZEN_OF[cls] and f == m and is_frozen(f)
              and not is_frozen(m), f'freeze-class:{key}', case, type(f).__name__)
    ctx.check('freeze(frozen) is itself', freeze_message(f) is f, f'refreeze:{key}', case, None)
    # mutating the original does not change the frozen one and vice versa
    sf = snap(f)
    vv = valid_values(spec, rng)
    for k, v in vv.items():
        if spec[0] == 'unk' and k == 'type_byte':
            continue
        setattr(m, k, v)
        ctx.check('no aliasing after copy/freeze/thaw', same(f, sf), f'alias:orig->frozen:{key}', lambda: case(k), None)
    # first some calls on frozen objects that FAIL (invalid overrides to copy(), invalid arguments to the frozen
    # constructors): whatever they leave behind, frozen messages go on rejecting every mutation
    for k, v in invalid_values(spec)[:6]:
        for thunk in (lambda: f.copy(**{k: v}), lambda: type(f)(*( [spec[1]] if spec[0] != 'unk' else [spec[1], spec[2]]), **{k: v})):
            try:
                thunk()
            except Exception:
                pass
    # frozen rejects every mutation
    for k, v in list(vv.items()) + [('type', f.type), ('bogus', 1)]:
        try:
            setattr(f, k, v)
            ok = False
        except Exception:
            ok = True
        ctx.check('frozen rejects mutation', ok and same(f, sf), f'frozen-setattr:{key}', lambda: case(k), None)
    for k in list(vars(f)):
        try:
            delattr(f, k)
            ok = False
        except Exception:
            ok = True
        ctx.check('frozen rejects mutation', ok and same(f, sf), f'frozen-delattr:{key}', lambda: case(k), None)
    if 'data' in vars(f) and spec[0] == 'msg':
        try:
            f.data += (1,)
            ok = False
        except Exception:
            ok = True
        ctx.check('frozen rejects mutation', ok and same(f, sf), f'frozen-iadd:{key}', case, None)
    # thaw
    m2 = build(spec)
    f2 = freeze_message(m2)
    t = thaw_message(f2)
    ctx.check('thaw(freeze(m)) == m', type(t) is cls and t == m2 and not is_frozen(t) and t is not m2,
              f'thaw:{key}', case, lambda: repr(t)[:120])
    st, sf2 = snap(t), snap(f2)
    for k, v in vv.items():
        if spec[0] == 'unk' and k == 'type_byte':
            continue
        try:
            setattr(t, k, v)
        except Exception as exc:
            ctx.fail('thaw(freeze(m)) == m', f'thawed-not-mutable:{key}', lambda: case(k), repr(exc))
        ctx.check('no aliasing after copy/freeze/thaw', same(f2, sf2), f'alias:thawed->frozen:{key}',
                  lambda: case(k), None)
    t2 = thaw_message(m2)          # thawing an unfrozen message gives an equal message - a new one
    ctx.check('thaw(freeze(m)) == m', t2 == m2 and type(t2) is cls and t2 is not m2, f'thaw-unfrozen:{key}', case,
              'same object' if t2 is m2 else None)
    s2 = snap(m2)
    for k, v in vv.items():
        if spec[0] == 'unk' and k == 'type_byte':
            continue
        try:
            setattr(t2, k, v)
        except Exception:
            pass
    ctx.check('no aliasing after copy/freeze/thaw', same(m2, s2), f'alias:thaw-unfrozen:{key}', case, None)
    m2 = build(spec)
    # copy of a frozen message stays frozen and equal
    fc = f2.copy()
    ctx.check('copy() == original, same class, new object', type(fc) is type(f2) and fc == f2,
              f'frozen-copy:{key}', case, type(fc).__name__)
    # hash / dict key with an independently built twin, and with int/float-equal twins
    twin = freeze_message(build(spec))
    try:
        ok = (twin == f2 and hash(twin) == hash(f2) and {f2: 1}[twin] == 1 and twin in {f2}
              and len({twin, f2}) == 1)
        ctx.check('equal frozen => equal hash and dict key', ok, f'hash:{key}', case, None)
        # equal messages obtained through other routes (decoded from bytes, parsed from text, from a dict,
        # copied, thawed and frozen again) are equal and hash equal
        alts = []
        base = build(spec)
        try:
            if spec[0] == 'msg':
                alts.append(('from_bytes', Message.from_bytes(base.bytes(), time=base.time)))
                alts.append(('parse_all', mido.parse_all(base.bytes())[0].copy(time=base.time)))
                if base.time == base.time and abs(base.time) != float('inf'):
                    alts.append(('from_str', Message.from_str(str(base))))
                alts.append(('from_dict', Message.from_dict(base.dict())))
            elif spec[0] == 'meta' and spec[1] != 'sequencer_specific' and not (
                    spec[1] == 'smpte_offset' and spec[2].get('hours', 0) > 31):
                d = MetaMessage.from_bytes(base.bytes())
                d.time = base.time
                alts.append(('meta-from_bytes', d))
            alts.append(('copy', base.copy()))
            alts.append(('copy-time', base.copy(time=base.time)))
            alts.append(('thaw-freeze', thaw_message(freeze_message(base))))
        except Exception as exc:
            ctx.fail('equal frozen => equal hash and dict key', f'alt-route-raised:{key}', case, repr(exc))
        for name, alt in alts:
            fa = freeze_message(alt)
            if fa == f2:
                ctx.check('equal frozen => equal hash and dict key', hash(fa) == hash(f2) and {f2: 1}.get(fa) == 1
                          and fa in {f2}, f'hash-differs-by-route:{name}:{key}', lambda: case(name), None)
            else:
                ctx.check('equal frozen => equal hash and dict key', False, f'route-not-equal:{name}:{key}',
                          lambda: case(name), lambda: repr(alt)[:120])
        # having been hashed changes nothing: still equal to the original and to an unhashed twin,
        # thaws and copies as before
        fresh = freeze_message(build(spec))
        ok = (f2 == build(spec) and f2 == fresh and thaw_message(f2) == build(spec)
              and f2.copy() == fresh and same(thaw_message(f2), snap(build(spec))))
        ctx.check('equal frozen => equal hash and dict key', ok, f'hashed-differs:{key}', case,
                  lambda: sorted(vars(f2)))
        try:
            c2 = f2.copy(time=3)
            ctx.check('copy(**ov) == fresh construction', c2 == fresh_with(spec, {'time': 3}),
                      f'hashed-copy:{key}', case, None)
        except Exception as exc:
            ctx.fail('copy(**ov) == fresh construction', f'hashed-copy-raised:{key}', case, repr(exc))
        tm = spec[3]
        for alt in ((float(tm),) if isinstance(tm, int) and abs(tm) < 2 ** 53 else
                    (int(tm), Fraction(tm)) if isinstance(tm, float) and tm == int(tm) else (Fraction(tm),)
                    if isinstance(tm, float) and abs(tm) < 1e15 else ()):
            spec2 = spec[:3] + (alt,)
            tw = freeze_message(build(spec2))
            if tw == f2:
                ctx.check('equal frozen => equal hash and dict key', hash(tw) == hash(f2) and {f2: 1}.get(tw) == 1,
                          f'hash-int-float-twin:{key}', lambda: case(alt), None)
    except TypeError as exc:
        ctx.fail('equal frozen => equal hash and dict key', f'unhashable:{key}', case, repr(exc))


def seqspec_probe(ctx):
    """F12 under C15: list data makes a frozen sequencer_specific message unhashable."""
    for data in ([], [1, 2]):
        case = {'kind': 'seqspec', 'data': repr(data)}
        m = MetaMessage('sequencer_specific', data=data) if data else MetaMessage('sequencer_specific')
        f = freeze_message(m)
        try:
            ok = {f: 1}[freeze_message(m.copy())] == 1
        except TypeError:
            ok = False
        ctx.check('equal frozen => equal hash and dict key', ok, K_SEQ, case,
                  'frozen sequencer_specific message with list data is unhashable')
        # whatever the data type: freezing and thawing keep the message equal to the original
        ctx.check('freeze gives the frozen class, equal', f == m and freeze_message(m.copy()) == m, 'freeze-changes-list-data',
                  case, repr(vars(f)))
        ctx.check('thaw(freeze(m)) == m', thaw_message(f) == m and type(thaw_message(f)) is MetaMessage,
                  'thaw-changes-list-data', case, repr(vars(thaw_message(f))))
    u = UnknownMetaMessage(0x60, (1, 2))
    u.data = [1, 2]                                  # assigned after construction: stored as given
    fu = freeze_message(u)
    ctx.check('freeze gives the frozen class, equal', fu == u and thaw_message(fu) == u, 'freeze-changes-list-data',
              {'kind': 'seqspec', 'data': 'unknown meta with list data'}, repr(vars(fu)))


def unknown_meta_variants(ctx):
    """Unknown meta messages in their less common shapes: the type= keyword of the constructor, data
    assigned after construction (stored as given), bytes data.  copy() equals the original, copy(time=)
    equals a fresh construction, freeze/thaw keep it equal - and frozen twins compare with == and !=."""
    n = 0
    for label, make in (('type-keyword', lambda: UnknownMetaMessage(0x61, b'\x01\x02', time=5, type='vendor_blob')),
                        ('list-assigned', lambda: _assign(UnknownMetaMessage(0x60, (1, 2, 3), time=10), [4, 5, 6])),
                        ('plain', lambda: UnknownMetaMessage(0x7E, (), time=0)),
                        ('seqspec-list', lambda: MetaMessage('sequencer_specific', data=[1, 2], time=3)),
                        ('seqspec-default', lambda: MetaMessage('sequencer_specific'))):
        case = {'kind': 'unknown-variant', 'variant': label}
        try:
            m = make()
            before = snap(m)
            c = m.copy()
            ctx.check('copy() == original, same class, new object', c == m and c is not m and type(c) is type(m) and vars(c) == vars(m),
                      f'variant-copy:{label}', case, lambda: {'copy': repr(vars(c)), 'original': repr(vars(m))})
            c7 = m.copy(time=7)
            if isinstance(m, UnknownMetaMessage):
                # a fresh construction from the message's own values (the constructor stores data as a tuple)
                fresh = UnknownMetaMessage(m.type_byte, m.data, time=7, type=m.type)
            else:
                fresh = MetaMessage(m.type, data=m.data, time=7)
            ctx.check('copy(**ov) == fresh construction', c7 == fresh and vars(c7) == vars(fresh), f'variant-copy-time:{label}', case,
                      lambda: {'copy': repr(vars(c7)), 'fresh': repr(vars(fresh))})
            if label == 'seqspec-default':
                fresh_default = MetaMessage('sequencer_specific', time=7)
                ctx.check('copy(**ov) == fresh construction', c7 == fresh_default and type(vars(c7)['data']) is type(vars(fresh_default)['data']),
                          'variant-copy-time-vs-fresh-default', case,
                          lambda: {'copy': repr(vars(c7)), 'fresh': repr(vars(fresh_default))})
            c.time = 99
            ctx.check('original unchanged', same(m, before), f'variant-original-changed:{label}', case, repr(vars(m)))
            f, f2 = freeze_message(m), freeze_message(m.copy())
            eq = (f == f2, f != f2, f == m, f.copy() == f, type(f.copy()) is type(f))
            ctx.check('freeze gives the frozen class, equal', eq == (True, False, True, True, True), f'variant-frozen-eq:{label}', case,
                      lambda: {'f==f2, f!=f2, f==m, f.copy()==f, same class': eq})
            t = thaw_message(f)
            ctx.check('thaw(freeze(m)) == m', t == m and type(t) is type(m) and vars(t) == vars(m), f'variant-thaw:{label}', case,
                      lambda: repr(vars(t)))
            t2 = thaw_message(m)
            ctx.check('thaw(freeze(m)) == m', t2 == m and t2 is not m, f'variant-thaw-unfrozen:{label}', case, lambda: repr(vars(t2)))
        except Exception as exc:
            ctx.fail('no exception', f'variant:{label}:{type(exc).__name__}', case, f'{type(exc).__name__}: {exc}')
        n += 1
    return n


def _assign(m, data):
    m.data = data
    return m


class MyMessage(Message):
    """User subclasses that add a method (no state of their own)."""

    def describe(self):
        return f'{self.type}!'


class MyMeta(MetaMessage):
    def describe(self):
        return f'{self.type}!'


class MyUnknown(UnknownMetaMessage):
    def describe(self):
        return 'unknown!'


def user_subclass_cases(ctx):
    """Instances of user-defined subclasses of the three message classes: copy() keeps the class, freeze
    gives the frozen class of the matching LIBRARY base class (usable: repr, bytes, hash), thaw gives the
    library base class back, all equal to the original."""
    n = 0
    for label, m, fcls, base in (('Message', MyMessage('note_on', note=5, time=2), FrozenMessage, Message),
                                 ('MetaMessage', MyMeta('set_tempo', tempo=9, time=1), FrozenMetaMessage, MetaMessage),
                                 ('UnknownMetaMessage', MyUnknown(0x60, (1, 2), time=3), FrozenUnknownMetaMessage, UnknownMetaMessage)):
        case = {'kind': 'user-subclass', 'of': label}
        try:
            c = m.copy()
            ctx.check('copy() == original, same class, new object', type(c) is type(m) and c == m and c is not m, f'user-subclass-copy:{label}',
                      case, type(c).__name__)
            f = freeze_message(m)
            ok = type(f) is fcls and f == m and is_frozen(f)
            try:
                usable = repr(f) is not None and list(f.bytes()) == list(m.bytes()) and {f: 1}[freeze_message(m.copy())] == 1
            except Exception as exc:
                usable = f'{type(exc).__name__}: {exc}'
            ctx.check('freeze gives the frozen class, equal', ok and usable is True, f'user-subclass-freeze:{label}', case,
                      lambda: {'class': type(f).__name__, 'usable': usable})
            t = thaw_message(f)
            ctx.check('thaw(freeze(m)) == m', type(t) is base and t == m and not is_frozen(t), f'user-subclass-thaw:{label}', case,
                      type(t).__name__)
            t.time = 77
            ctx.check('original unchanged', m.time != 77 and f.time != 77, f'user-subclass-aliasing:{label}', case, None)
        except Exception as exc:
            ctx.fail('no exception', f'user-subclass:{label}:{type(exc).__name__}', case, f'{type(exc).__name__}: {exc}')
        n += 1
    return n


def unchecked_value_cases(ctx):
    """Messages holding values that only skip_checks=True lets in are Message values too: copy() without
    overrides, copy(skip_checks=True, ...), freeze and thaw keep them equal (none of these validates)."""
    n = 0
    makers = (('ctor', lambda: Message('note_on', note=300, velocity=-1, time=2, skip_checks=True)),
              ('copy', lambda: Message('control_change', channel=3).copy(skip_checks=True, value=200)),
              ('frozen-ctor', lambda: FrozenMessage('pitchwheel', pitch=99999, skip_checks=True)),
              ('sysex', lambda: Message('sysex', data=(1, 300), skip_checks=True)))
    # (MetaMessage.copy() always validates, also without overrides: unchecked meta values are not claimed)
    for label, make in makers:
        case = {'kind': 'unchecked-values', 'how': label}
        try:
            m = make()
            before = snap(m)
            c = m.copy()
            ctx.check('copy() == original, same class, new object', c == m and c is not m and type(c) is type(m), f'unchecked-copy:{label}',
                      case, lambda: repr(vars(c)))
            c3 = m.copy(skip_checks=True, time=3)
            ctx.check('copy(**ov) == fresh construction', {**vars(m), 'time': 3} == vars(c3), f'unchecked-copy-time:{label}', case,
                      lambda: repr(vars(c3)))
            f = freeze_message(m)
            ctx.check('freeze gives the frozen class, equal', f == m and is_frozen(f) and freeze_message(f) is f,
                      f'unchecked-freeze:{label}', case, lambda: repr(vars(f)))
            try:
                ok = {f: 1}[freeze_message(m.copy())] == 1
            except TypeError:
                ok = True                     # unhashable contents are another matter
            ctx.check('equal frozen => equal hash and dict key', ok, f'unchecked-hash:{label}', case, None)
            t = thaw_message(f)
            ctx.check('thaw(freeze(m)) == m', t == m and not is_frozen(t) and vars(t) == vars(m), f'unchecked-thaw:{label}', case,
                      lambda: repr(vars(t)))
            t2 = thaw_message(m) if not is_frozen(m) else m
            ctx.check('thaw(freeze(m)) == m', t2 == m, f'unchecked-thaw-unfrozen:{label}', case, None)
            ctx.check('original unchanged', same(m, before), f'unchecked-original-changed:{label}', case, repr(vars(m)))
        except Exception as exc:
            ctx.fail('no exception', f'unchecked:{label}:{type(exc).__name__}', case, f'{type(exc).__name__}: {exc}')
        n += 1
    return n


def nan_cases(ctx):
    """A NaN time is a real number too; copy/freeze/thaw carry the very same value over."""
    nan = float('nan')
    for m in (Message('note_on', note=5, time=nan), MetaMessage('set_tempo', tempo=7, time=nan),
              UnknownMetaMessage(0x60, (1,), time=nan), Message('sysex', data=(1, 2), time=nan)):
        case = {'kind': 'nan', 'class': type(m).__name__}
        try:
            c, f = m.copy(), freeze_message(m)
            t = thaw_message(f)
            ok = c == m and f == m and t == m and f.copy() == f and freeze_message(c) == f
            ctx.check('copy() == original, same class, new object', ok and c is not m, 'nan-time-not-equal', case,
                      [c == m, f == m, t == m])
            ctx.check('equal frozen => equal hash and dict key', {f: 1}.get(freeze_message(c)) == 1 and hash(f) == hash(freeze_message(m)),
                      'nan-time-dict-key', case, None)
        except Exception as exc:
            ctx.fail('copy() == original, same class, new object', f'nan:{type(exc).__name__}', case, repr(exc))


def none_cases(ctx):
    case = {'kind': 'none'}
    try:
        ctx.check('None maps to None', freeze_message(None) is None, 'freeze-none', case, None)
    except Exception as exc:
        ctx.fail('None maps to None', 'freeze-none-raised', case, repr(exc))
    try:
        ctx.check('None maps to None', thaw_message(None) is None, 'thaw-none', case, None)
    except Exception as exc:
        ctx.fail('None maps to None', 'thaw-none-raised', case, repr(exc))


def overlap_jobs():
    """copy() with overrides in one thread while another thread constructs and copies messages of the same types (steady
    state, one pre-emption anywhere): each copy equals a fresh construction with its own values."""
    from ..coldstart import msg_want

    def full(t, a):
        d = {n: (midi1.DEFAULTS.get(n, 0) if n != 'data' else []) for n in midi1.ATTRS[t]}
        d.update(a)
        return d

    def mk(fn, t, a):
        return {'fn': fn, 'type': t, 'attrs': a, 'want': msg_want(t, full(t, a))}
    j1 = [mk('copy', 'note_on', {'note': 61}), mk('copy', 'control_change', {'control': 7, 'value': 9}), mk('copy', 'sysex', {'data': [1, 2]}),
          mk('copy', 'pitchwheel', {'pitch': -5})]
    j2 = [mk('ctor', 'note_on', {'note': 5, 'velocity': 3, 'channel': 2}), mk('copy', 'note_on', {'velocity': 0}),
          mk('ctor', 'control_change', {'channel': 4}), mk('from_dict', 'sysex', {'data': [7]}), mk('copy', 'pitchwheel', {'channel': 9})]
    mods = ['mido.messages.messages', 'mido.messages.checks', 'mido.messages.specs']
    return [{'modules': mods, 'fresh': False, 'jobs': [j1, j2], 'k': 1}, {'modules': mods, 'jobs': [j1[:2], j2[:3]], 'k': 1}]


def respec_case(ctx):
    """add_meta_spec() is public: an application registers its own meta event, uses it, and later registers a newer
    version of the same event (one more attribute, a tighter check).  Copies made afterwards follow the spec that is
    registered *now* - judged against the values themselves, not against a fresh construction (which would go the
    same way).  (Registers a spec: runs last in its shard.)"""
    from mido.midifiles.meta import MetaSpec, add_meta_spec

    class MetaSpec_vmon_cue(MetaSpec):
        type_byte = 0x6E
        attributes = ['a']
        defaults = [0]

        def decode(self, message, data):
            message.a = data[0]

        def encode(self, message):
            return [message.a]

        def check(self, name, value):
            if name == 'a' and not 0 <= value <= 100:
                raise ValueError('a out of range')

    class V2(MetaSpec_vmon_cue):
        type = 'vmon_cue'
        attributes = ['a', 'b']
        defaults = [0, 5]

        def decode(self, message, data):
            message.a, message.b = data[0], data[1]

        def encode(self, message):
            return [message.a, message.b]

        def check(self, name, value):
            if not 0 <= value <= 10:
                raise ValueError(f'{name} out of range')
    case = {'kind': 'respec'}
    try:
        add_meta_spec(MetaSpec_vmon_cue)
        m1 = MetaMessage('vmon_cue', a=50, time=3)
        c1 = m1.copy(a=60)
        f1 = freeze_message(m1).copy(a=70)
        ok1 = (vars(c1) == {'type': 'vmon_cue', 'a': 60, 'time': 3} and f1.a == 70 and thaw_message(freeze_message(m1)) == m1)
        add_meta_spec(V2)
        m2 = MetaMessage('vmon_cue', a=1, time=4)
        c2 = m2.copy(b=7)
        f2 = freeze_message(m2).copy(b=8, time=9)
        ok2 = (vars(m2) == {'type': 'vmon_cue', 'a': 1, 'b': 5, 'time': 4} and vars(c2) == {'type': 'vmon_cue', 'a': 1, 'b': 7, 'time': 4}
               and (f2.a, f2.b, f2.time) == (1, 8, 9) and isinstance(f2, FrozenMetaMessage) and c2.bytes() == [0xFF, 0x6E, 2, 1, 7])
        refused = []
        for ov in ({'a': 60}, {'b': 11}, {'c': 1}):
            for src in (m2, freeze_message(m2)):
                try:
                    src.copy(**ov)
                    refused.append(False)
                except (ValueError, TypeError):
                    refused.append(True)
        ctx.check('copy(**ov) == fresh construction', ok1 and ok2, 'respec:copy-follows-old-spec', case,
                  lambda: {'v1': ok1, 'copy under v2': repr(vars(c2)), 'frozen copy under v2': repr(vars(f2))})
        ctx.check('invalid override leaves original unchanged', all(refused) and vars(m2) == {'type': 'vmon_cue', 'a': 1, 'b': 5, 'time': 4},
                  'respec:invalid-override-accepted', case, refused)
    except Exception as exc:
        ctx.fail('copy(**ov) == fresh construction', f'respec:{type(exc).__name__}', case, f'{type(exc).__name__}: {exc}')
    return 1


ALIVE = []          # frozen messages of earlier cases stay alive for the whole shard, as they do in an application


def hash_twin_cases(ctx):
    """Different messages with the same hash: CPython hashes -1 and -2 alike, 0 and 2**61-1, 0.5 and 2**60.  Two messages
    that differ only in such a pair of values collide in any table keyed by hash - they are still different messages:
    freezing the second while the frozen first is alive gives the second, they compare unequal, both serve as
    dictionary keys, and thawing gives each one back."""
    n = 0
    builders = [
        ('pitchwheel.pitch', lambda v: Message('pitchwheel', pitch=v), (-1, -2)),
        ('message.time', lambda v: Message('note_on', note=5, time=v), (-1, -2)),
        ('message.time', lambda v: Message('sysex', data=(1, 2), time=v), (0, 2 ** 61 - 1)),
        ('message.time', lambda v: Message('clock', time=v), (0.5, 2 ** 60)),
        ('meta.time', lambda v: MetaMessage('set_tempo', tempo=5, time=v), (-1, -2)),
        ('meta.time', lambda v: MetaMessage('text', text='x', time=v), (0, 2 ** 61 - 1)),
        ('unknown_meta.time', lambda v: UnknownMetaMessage(0x60, (1,), time=v), (-1, -2)),
        ('unknown_meta.time', lambda v: UnknownMetaMessage(0x60, (1,), time=v), (2 ** 60, 0.5)),
    ]
    for what, mk, (a, b) in builders:
        for first, second in ((a, b), (b, a)):
            case = {'kind': 'hash-twins', 'what': what, 'first': repr(first), 'second': repr(second)}
            try:
                m1, m2 = mk(first), mk(second)
                f1 = freeze_message(m1)
                ALIVE.append(f1)
                f2 = freeze_message(m2)
                ALIVE.append(f2)
                ctx.check('thaw(freeze(m)) == m', f2 == m2 and f1 == m1 and thaw_message(f2) == m2 and thaw_message(f1) == m1
                          and type(vars(f2)['time']) is type(second), 'hash-twins:freeze-gave-another-message', case,
                          lambda: {'m2': repr(m2), 'freeze(m2)': repr(f2)})
                d = {f1: 'first', f2: 'second'}
                ctx.check('equal frozen => equal hash and dict key', f1 != f2 and len(d) == 2 and d[freeze_message(mk(second))] == 'second'
                          and d[freeze_message(mk(first))] == 'first', 'hash-twins:keys-merged', case, lambda: {'keys': len(d)})
            except Exception as exc:
                ctx.fail('thaw(freeze(m)) == m', f'hash-twins:{type(exc).__name__}', case, f'{type(exc).__name__}: {exc}')
            n += 1
    return n


def near_time_twin_cases(ctx):
    """Messages whose times differ by less than anything a person would care about - 0.1 + 0.2 against 0.3, one ulp, the
    smallest denormal - are different values: they compare unequal (equality is "every attribute equal"), and whatever ==
    says, frozen messages that compare equal hash equal and find each other in a dictionary and a set."""
    n = 0
    pairs = [(0.1 + 0.2, 0.3), (1.0, 1.0 + 2.0 ** -52), (0.0, 5e-324), (0, 1e-10), (1e9, 1e9 + 2.0 ** -23), (0.5, 0.5 + 1e-12),
             (100, 100 + 1e-13), (-1e-9, 0), (3, 3.0000000005)]
    makers = [('message', lambda t: Message('note_on', note=1, time=t)), ('sysex', lambda t: Message('sysex', data=(1,), time=t)),
              ('meta', lambda t: MetaMessage('set_tempo', tempo=7, time=t)), ('unknown_meta', lambda t: UnknownMetaMessage(0x60, (1,), time=t))]
    for what, mk in makers:
        for a, b in pairs:
            for first, second in ((a, b), (b, a)):
                case = {'kind': 'near-time-twins', 'what': what, 'first': repr(first), 'second': repr(second)}
                try:
                    m1, m2 = mk(first), mk(second)
                    f1, f2 = freeze_message(m1), freeze_message(m2)
                    ctx.check('copy() == original, same class, new object', (m1 == m2) is False and (m1 != m2) is True and (f1 == f2) is False,
                              'near-times-compare-equal', case, lambda: {'m1==m2': m1 == m2, 'f1==f2': f1 == f2})
                    if f1 == f2:
                        d = {f1: 1}
                        ctx.check('equal frozen => equal hash and dict key', hash(f1) == hash(f2) and f2 in d and len({f1, f2}) == 1,
                                  'equal-frozen-hash-differently', case, lambda: {'hashes': [hash(f1), hash(f2)]})
                    else:
                        ctx.count('equal frozen => equal hash and dict key')
                    ctx.check('thaw(freeze(m)) == m', thaw_message(f1) == m1 and repr(thaw_message(f1).time) == repr(first), 'near-times-thaw', case, None)
                except Exception as exc:
                    ctx.fail('no exception', f'near-times:{type(exc).__name__}', case, f'{type(exc).__name__}: {exc}')
                n += 1
    return n


def decoded_meta_cases(ctx):
    """Meta messages as a decoder hands them out - every type byte 0..127, known or not, from MetaMessage.from_bytes and
    from a track of a file: copy, freeze and thaw give the matching class (thaw and copy: the class of the message itself)."""
    import io
    import mido
    from ..ref import smf
    n = 0
    for tb in range(128):
        if tb == 0x2F:
            continue
        for payload in ((), (65, 66), tuple(range(5))):
            raw = [0xFF, tb, len(payload)] + list(payload)
            born = []
            try:
                born.append(('from_bytes', MetaMessage.from_bytes(raw)))
            except Exception:
                pass                                   # payload not valid for this known type: nothing to judge
            try:
                b, _ = smf.encode_file(1, 96, [[('meta', 3, tb, list(payload)), ('meta', 0, 0x2F, [])]])
                born.append(('file', mido.MidiFile(file=io.BytesIO(b)).tracks[0][0]))
            except Exception:
                pass
            for how, m in born:
                case = {'kind': 'decoded-meta', 'type_byte': tb, 'payload': list(payload), 'born': how}
                try:
                    c = m.copy()
                    ctx.check('copy() == original, same class, new object', c == m and c is not m and type(c) is type(m),
                              'decoded-meta-copy', case, lambda: {'copy': type(c).__name__, 'original': type(m).__name__})
                    f = freeze_message(m)
                    t = thaw_message(f)
                    ctx.check('thaw(freeze(m)) == m', t == m and type(t) is type(m) and vars(t) == vars(m), 'decoded-meta-thaw-class', case,
                              lambda: {'thawed': type(t).__name__, 'original': type(m).__name__, 'vars': repr(vars(t))[:120]})
                    ctx.check('freeze gives the frozen class, equal', f == m and hash(f) == hash(freeze_message(c)) and isinstance(f, mido.frozen.Frozen),
                              'decoded-meta-frozen', case, lambda: type(f).__name__)
                except Exception as exc:
                    ctx.fail('no exception', f'decoded-meta:{type(exc).__name__}', case, f'{type(exc).__name__}: {exc}')
                n += 1
    return n


def foreign_text_cases(ctx):
    """Text meta messages whose text is outside latin1 - read from a file in another charset, or built while that charset
    was in force - are values like any other once the file is closed: copy (with and without overrides), freeze, thaw and
    hash behave as for every other message, whatever charset is the default at the time."""
    import io
    import mido
    from mido.midifiles.meta import meta_charset
    n = 0
    texts = {'utf-8': ['\u6b4c', '\u03a9mega \u20ac', 'caf\u00e9 \u2013 d\u00e9j\u00e0'], 'shift_jis': ['\u30ab\u30e9\u30aa\u30b1', '\u6b4c\u8a5e'],
             'koi8-r': ['\u041f\u0440\u0438\u0432\u0435\u0442'], 'utf-16': ['\U0001d11e clef', '\u6b4c'], 'cp1252': ['\u20ac 5 \u2013 \u201cx\u201d']}
    kinds = (('text', 'text'), ('lyrics', 'text'), ('track_name', 'name'), ('marker', 'text'), ('device_name', 'name'))
    for cs, pool in texts.items():
        for text in pool:
            for t, attr in kinds:
                for born in ('loaded', 'with-block', 'plain'):
                    case = {'kind': 'foreign-text', 'charset': cs, 'type': t, 'text': text, 'born': born}
                    try:
                        if born == 'loaded':
                            mid = mido.MidiFile(charset=cs)
                            mid.add_track().append(MetaMessage(t, **{attr: text}, time=3))
                            buf = io.BytesIO()
                            mid.save(file=buf)
                            m = mido.MidiFile(file=io.BytesIO(buf.getvalue()), charset=cs).tracks[0][0]
                        elif born == 'with-block':
                            with meta_charset(cs):
                                m = MetaMessage(t, **{attr: text}, time=3)
                        else:
                            m = MetaMessage(t, **{attr: text}, time=3)
                        before = snap(m)
                        c = m.copy()
                        c7 = m.copy(time=7)
                        want7 = dict(vars(m), time=7)
                        ctx.check('copy() == original, same class, new object', c == m and c is not m and type(c) is type(m), 'foreign-text-copy', case, repr(c))
                        ctx.check('copy(**ov) == fresh construction', vars(c7) == want7 and type(c7) is type(m), 'foreign-text-copy-time', case,
                                  lambda: repr(vars(c7)))
                        other = text[::-1] + '!'
                        co = m.copy(**{attr: other})
                        ctx.check('copy(**ov) == fresh construction', vars(co) == dict(vars(m), **{attr: other}), 'foreign-text-copy-text', case,
                                  lambda: repr(vars(co)))
                        f = freeze_message(m)
                        f7 = f.copy(time=7)
                        ctx.check('freeze gives the frozen class, equal', f == m and isinstance(f, FrozenMetaMessage) and vars(f7) == want7
                                  and type(f7) is type(f), 'foreign-text-frozen-copy', case, lambda: repr(vars(f7)))
                        d = {f: 1}
                        ctx.check('equal frozen => equal hash and dict key', d.get(freeze_message(c)) == 1 and hash(f) == hash(freeze_message(c)),
                                  'foreign-text-key', case, None)
                        tw = thaw_message(f)
                        ctx.check('thaw(freeze(m)) == m', tw == m and type(tw) is type(m), 'foreign-text-thaw', case, repr(tw))
                        c.time = 99
                        setattr(c, attr, 'x')
                        ctx.check('original unchanged', same(m, before), 'foreign-text-original-changed', case, repr(vars(m)))
                    except Exception as exc:
                        ctx.fail('no exception', f'foreign-text:{type(exc).__name__}', case, f'{type(exc).__name__}: {exc}')
                    n += 1
    return n


def prefix_twin_cases(ctx):
    """Payloads of which one is the beginning of the other - (), (1, 2), (1, 2, 3) - make different messages: unequal as
    they are, unequal frozen, two dictionary keys; and a payload equals only what a tuple equals."""
    n = 0
    payloads = [(), (1,), (1, 2), (1, 2, 3), (1, 2, 3, 0), (0,), (0, 0)]
    makers = [('sysex', lambda p: Message('sysex', data=p)), ('sysex-copied', lambda p: Message('sysex').copy(data=p)),
              ('sysex-grown', lambda p: _grown(p)), ('unknown_meta', lambda p: UnknownMetaMessage(0x60, p)),
              ('sequencer_specific', lambda p: MetaMessage('sequencer_specific', data=p))]
    for what, mk in makers:
        for i, a in enumerate(payloads):
            for b in payloads[i + 1:]:
                case = {'kind': 'prefix-twins', 'what': what, 'a': list(a), 'b': list(b)}
                try:
                    ma, mb = mk(a), mk(b)
                    fa, fb = freeze_message(ma), freeze_message(mb)
                    ALIVE.extend((fa, fb))
                    ok = (ma != mb and not (ma == mb) and fa != fb and thaw_message(fa) == ma and thaw_message(fb) == mb
                          and ma.copy() == ma and ma.copy() != mb)
                    ctx.check('copy() == original, same class, new object', ok, f'prefix-twins:equal:{what}', case,
                              lambda: {'a == b': ma == mb, 'frozen a == frozen b': fa == fb})
                    try:
                        d = {fa: 'a', fb: 'b'}
                        ok2 = len(d) == 2 and d[freeze_message(mk(a))] == 'a' and d[freeze_message(mk(b))] == 'b' and (hash(fa) == hash(freeze_message(mk(a))))
                    except TypeError:
                        ok2 = True          # (unhashable list payloads of sequencer_specific: the known finding, judged elsewhere)
                    ctx.check('equal frozen => equal hash and dict key', ok2, f'prefix-twins:keys:{what}', case, None)
                except Exception as exc:
                    ctx.fail('copy() == original, same class, new object', f'prefix-twins:{type(exc).__name__}', case, f'{type(exc).__name__}: {exc}')
                n += 1
    return n


def _grown(p):
    m = Message('sysex')
    m.data += p
    return m


def specs_for_shard(ctx):
    rng = ctx.rng
    out = []
    times = gen.TIMES
    i = 0
    for t in midi1.TYPES:
        for a in list(gen.boundary_attr_sets(t, rng, extra_random=3 if ctx.tier == 'quick' else 3000)):
            if i % ctx.nshards == ctx.shard:
                out.append(('msg', t, a, times[i % len(times)]))
            i += 1
    reps = 10 if ctx.tier == 'quick' else 12000
    for t in rmeta.SPECS:
        for r in range(reps):
            if i % ctx.nshards == ctx.shard:
                out.append(('meta', t, genfile.rand_meta_attrs(rng, t), times[i % len(times)]))
            i += 1
    for tb in (0x08, 0x60, 0x7E):
        for data in ((), (1,), (0, 255, 128)):
            if i % ctx.nshards == ctx.shard:
                out.append(('unk', tb, data, times[i % len(times)]))
            i += 1
    return out


def run(ctx):
    n = 0
    for spec in specs_for_shard(ctx):
        judge_copy(ctx, spec, ctx.rng)
        judge_freeze(ctx, spec, ctx.rng)
        ctx.nontrivial(repr(spec))
        n += 1
        if n <= 2:
            ctx.put_sample({'spec': repr(spec)[:160]})
    if ctx.shard == 0:
        none_cases(ctx)
        seqspec_probe(ctx)
        nan_cases(ctx)
        n += 3
        n += unknown_meta_variants(ctx)
        n += unchecked_value_cases(ctx)
        n += user_subclass_cases(ctx)
    if ctx.shard == 1 % ctx.nshards:
        n += hash_twin_cases(ctx)
        n += prefix_twin_cases(ctx)
        n += near_time_twin_cases(ctx)
    if ctx.shard == 2 % ctx.nshards:
        n += decoded_meta_cases(ctx)
        n += foreign_text_cases(ctx)
    if ctx.shard == 3 % ctx.nshards:
        n += respec_case(ctx)
    if os.environ.get('VERIF_ENVMODE', 'default') in ('default', 'c-locale'):
        from .. import coldstart
        n += coldstart.phase(ctx, overlap_jobs(), 'copy(**ov) == fresh construction', kind='cold', offset=2)
    ctx.count('cases', n)


def replay(ctx, case):
    if case['kind'] in ('copy', 'freeze'):
        spec = eval(case['spec'], {'Fraction': Fraction, 'inf': float('inf'), 'nan': float('nan')})  # noqa: S307
        judge_copy(ctx, spec, ctx.rng)
        judge_freeze(ctx, spec, ctx.rng)
    elif case['kind'] == 'none':
        none_cases(ctx)
    elif case['kind'] == 'unknown-variant':
        unknown_meta_variants(ctx)
    elif case['kind'] == 'unchecked-values':
        unchecked_value_cases(ctx)
    elif case['kind'] == 'cold':
        from .. import coldstart
        coldstart.replay(ctx, case, 'copy(**ov) == fresh construction')
    elif case['kind'] == 'respec':
        respec_case(ctx)
    elif case['kind'] == 'prefix-twins':
        prefix_twin_cases(ctx)
    elif case['kind'] == 'hash-twins':
        hash_twin_cases(ctx)
    elif case['kind'] == 'user-subclass':
        user_subclass_cases(ctx)
    else:
        seqspec_probe(ctx)
