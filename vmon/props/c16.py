"""C16 - A MidiFile always reflects its current contents.

Differential monitor: after every observation (iterate, length, merged_track,
save, play on a virtual clock) on a MidiFile that has been edited and observed
before, the same observation is made on a twin built from scratch from deep
copies of the current tracks; both go through the same code, so the results
must be identical.  Histories interleave edits with complete and abandoned
observations.
"""
import io
import os
import random

import mido
import mido.midifiles.midifiles as mf
from mido import Message, MetaMessage, MidiFile, MidiTrack
from mido.midifiles.meta import UnknownMetaMessage

from ..core import HarnessAbort
from ..ref import smf
from .c13 import FakeTime

ID = 'C16'
ANCHORS = ['mido.midifiles.midifiles']
LEVEL = 'exploration'
RULE = ('seeded histories of 3-12 (quick) / up to 40 (thorough) steps over one MidiFile: edits '
        '{tracks.append/insert/pop/remove/setitem/clear/extend, mid.tracks = [...], '
        'add_track(name), track.append/insert/pop/extend/slice assignment/name=, msg.time=, '
        'msg.tempo=, other attributes, mid.type=, mid.ticks_per_beat=} interleaved with '
        'observations {list(mid), length, merged_track, save, play, iteration abandoned half '
        'way, play abandoned half way}; a history is distinct by seed and non-trivial when at '
        'least one observation follows an edit that itself follows an earlier observation')
ASSUMPTIONS = [
    'the twin is built with the public constructor from copies of the messages; equality of results is exact because both files run the same code',
    'exceptions count as results: the edited file and the twin must raise the same exception class',
]
DECIDING = ['observation == fresh twin', 'observation leaves the contents alone', 'saved bytes decode to the contents']
TIMEOUT = {'quick': 300, 'thorough': 1800}


def nshards(tier):
    return 16


def twin_of(mid):
    t = MidiFile(type=mid.type, ticks_per_beat=mid.ticks_per_beat, charset=mid.charset)
    for tr in mid.tracks:
        t.tracks.append(type(tr)(m.copy() for m in tr))      # (a user's track class stays what it is)
    return t


def freeze_list(msgs):
    return [(type(m).__name__, tuple(sorted((k, repr(v)) for k, v in vars(m).items()))) for m in msgs]


def contents(mid):
    """What the file holds right now: header fields, and per track its identity, name and the identity
    and state of every message.  An observation is read-only, so this must be the same before and
    after it - whatever the consumer does with the messages it was handed."""
    return (mid.type, mid.ticks_per_beat, mid.charset, id(mid.tracks),
            [(id(tr), [(id(m), type(m).__name__, tuple(sorted((k, repr(v)) for k, v in vars(m).items()))) for m in tr])
             for tr in mid.tracks])


def poke(msgs):
    """A consumer that edits the messages it was handed (documented as copies)."""
    for m in msgs:
        try:
            m.time = 12345.5
            if m.type == 'note_on':
                m.note = (m.note + 1) % 128
                m.channel = 15
            elif m.type == 'set_tempo':
                m.tempo = 777
            elif m.type == 'marker':
                m.text = 'poked'
            elif m.type in ('sysex', 'unknown_meta'):
                m.data = (1, 2, 3)
        except Exception:
            pass


def first_diff(a, b):
    if a[:4] != b[:4]:
        return {'header': [repr(a[:4]), repr(b[:4])]}
    for ti, (ta, tb) in enumerate(zip(a[4], b[4])):
        if ta != tb:
            for mi, (ma, mb) in enumerate(zip(ta[1], tb[1])):
                if ma != mb:
                    return {'track': ti, 'message': mi, 'before': repr(ma[1:])[:200], 'after': repr(mb[1:])[:200]}
            return {'track': ti, 'len_before': len(ta[1]), 'len_after': len(tb[1])}
    return {'tracks_before': len(a[4]), 'tracks_after': len(b[4])}


def observe(mid, what, seed, consumer_edits=False):
    """Returns a comparable result; exceptions become ('exc', class name)."""
    try:
        if what == 'iter':
            got = list(mid)
            res = freeze_list(got)
            if consumer_edits:
                poke(got)
            return res
        if what == 'length':
            return repr(mid.length)
        if what == 'names':
            # MidiTrack.name: "the name field of the first track_name message in the track" ('' if there is none)
            return [tr.name for tr in mid.tracks]
        if what == 'merged':
            got = mid.merged_track
            res = freeze_list(got)
            if consumer_edits:
                poke(got)
                del got[:]
            return res
        if what == 'save':
            b = io.BytesIO()
            mid.save(file=b)
            return b.getvalue().hex()
        if what == 'save-in-another-thread':
            # whatever earlier (possibly failed) saves and loads did in this thread, another thread can save
            import threading
            box = []

            def work():
                try:
                    b = io.BytesIO()
                    mid.save(file=b)
                    box.append(b.getvalue().hex())
                except Exception as exc:
                    box.append(('exc', type(exc).__name__))
            th = threading.Thread(target=work, daemon=True)
            th.start()
            th.join(20.0)
            if th.is_alive():
                # is it the machine or the library?  a thread with plain work of its own gets through
                ctl = threading.Thread(target=lambda: box.append(sum(range(10 ** 5))), daemon=True)
                ctl.start()
                ctl.join(20.0)
                th.join(20.0)
                if th.is_alive() and not ctl.is_alive():
                    return 'NEVER FINISHED (another thread got its work done meanwhile)'
                if th.is_alive():
                    raise HarnessAbort('threads do not get to run on this machine')
            return box[0]
        if what == 'save-to-path':
            # path is reused by the edited file (it may hold an older, longer save); fresh for the twin
            path = getattr(mid, '_vmon_path', None)
            fresh = path is None
            if fresh:
                import tempfile
                fd, path = tempfile.mkstemp(suffix='.mid', prefix='vmon-c16-')
                os.close(fd)
                os.remove(path)
            try:
                mid.save(path)
                with open(path, 'rb') as f:
                    return f.read().hex()
            finally:
                if fresh and os.path.exists(path):
                    os.remove(path)
        if what == 'play':
            clock = FakeTime()
            orig = mf.time
            mf.time = clock
            try:
                rng = random.Random(seed)
                out = []
                frozen = []
                for m in mid.play(meta_messages=rng.random() < 0.5, now=clock.time):
                    out.append(m)
                    frozen += freeze_list([m])
                    if consumer_edits:
                        poke([m])
                    clock.now += rng.choice((0.0, 0.001, 0.5))
                return frozen, [(repr(a), repr(d)) for a, d in clock.sleeps]
            finally:
                mf.time = orig
        if what == 'repr':
            return repr(mid)
        if what == 'print_tracks':
            import contextlib
            out = io.StringIO()
            with contextlib.redirect_stdout(out):
                mid.print_tracks(meta_only=seed % 2 == 1)
            return out.getvalue()
        if what == 'with-iter':
            # "with MidiFile(...) as mid": entering and leaving the block is no edit
            with mid as inner:
                res = freeze_list(list(inner)) if inner.type != 2 else ('type2', len(inner.tracks))
            return res, inner is mid
    except HarnessAbort:
        raise
    except Exception as exc:
        return ('exc', type(exc).__name__)
    raise ValueError(what)


def abandon(mid, what, k):
    """Start an observation and drop it half way."""
    try:
        if what == 'partial-iter':
            it = iter(mid)
            for _ in range(k):
                next(it)
            del it
        else:
            clock = FakeTime()
            orig = mf.time
            mf.time = clock
            try:
                g = mid.play(meta_messages=True, now=clock.time)
                for _ in range(k):
                    next(g)
                g.close()
            finally:
                mf.time = orig
    except (StopIteration, TypeError, ValueError):
        pass


def rand_msg(rng):
    r = rng.random()
    d = rng.choice((0, 0, 1, 10, 96, 480))
    if r < 0.5:
        return Message('note_on', note=rng.randrange(128), velocity=rng.randrange(128), time=d)
    if r < 0.65:
        return MetaMessage('set_tempo', tempo=rng.choice((1, 250000, 500000, 1000000, rng.randrange(1, 2 ** 24))), time=d)
    if r < 0.75:
        return Message('program_change', program=rng.randrange(128), time=d)
    if r < 0.85:
        return MetaMessage('marker', text=rng.choice(('a', 'b', '')), time=d)
    if r < 0.88:
        return MetaMessage('end_of_track', time=d)
    if r < 0.90:
        return MetaMessage('track_name', name=rng.choice(('Lead', 'Bass', 'Drums', '')), time=d)
    if r < 0.95:
        return UnknownMetaMessage(rng.choice((0x0A, 0x60)), data=tuple(rng.randrange(256) for _ in range(rng.randrange(3))), time=d)
    return Message('sysex', data=(rng.randrange(128),), time=d)


class UserTrack(MidiTrack):
    """A user's MidiTrack subclass (adds a method, no state)."""

    def transpose(self, k):
        for m in self:
            if m.type == 'note_on':
                m.note = (m.note + k) % 128


def rand_track(rng, n=None):
    cls = UserTrack if rng.random() < 0.15 else MidiTrack
    return cls(rand_msg(rng) for _ in range(rng.randrange(0, 8) if n is None else n))


def do_edit(rng, mid):
    """Apply one documented edit; returns its name."""
    tracks = mid.tracks
    names = ['tracks.append', 'tracks.insert', 'add_track', 'add_track(name)', 'mid.tracks=', 'mid.type=',
             'mid.ticks_per_beat=', 'mid.tracks+=', 'mid.tracks=same', 'mid.tracks=copy']
    if 0 < len(tracks) <= 3:
        names += ['mid.tracks*=2', 'mid.tracks[:]=']
    if tracks:
        names += ['track.name=', 'track.name=', 'tracks.pop', 'tracks.remove', 'tracks.setitem', 'tracks.extend', 'track.append',
                  'track.insert', 'track.extend', 'track.name=', 'tracks.reverse', 'del tracks[i]'] * 1
        if any(len(t) for t in tracks):
            names += ['msg.time=', 'msg.attr=', 'msg.tempo=', 'track.pop', 'track.slice=', 'track.setitem',
                      'track.swap', 'msg.time=', 'msg.attr=', 'track.setitem'] * 2
            names += ['msg.time=float', 'insert-realtime', 'fix-unstorable', 'fix-unstorable']
            names += ['append-same-object', 'track*2', 'track+track', 'append-same-object']
        names += ['track+=', 'track+=', 'append-after-end_of_track']
        if any(len(t) for t in tracks):
            names += ['edit-through-a-view', 'edit-through-a-view']
    if rng.random() < 0.03:
        names = ['tracks.clear']
    if rng.random() < 0.08:
        names = ['REJECTED:add_track(name=bytes)', 'REJECTED:add_track(name=5)', 'REJECTED:tracks.insert(bad index)']
        if any(len(t) for t in tracks):
            names += ['REJECTED:message edits'] * 2
    e = rng.choice(names)
    ne = [t for t in tracks if len(t)]
    if e.startswith('REJECTED:'):
        # an edit that is refused is no edit: the file is exactly what it was
        before = contents(mid)
        try:
            if e == 'REJECTED:add_track(name=bytes)':
                mid.add_track(name=b'Bass')
            elif e == 'REJECTED:add_track(name=5)':
                mid.add_track(name=5)
            elif e == 'REJECTED:tracks.insert(bad index)':
                tracks.insert('0', rand_track(rng))
            else:
                from .. import abuse
                abuse.failed_edits(rng.choice(rng.choice([t for t in tracks if len(t)])))
                raise ValueError('all refused')
            return e + ' WAS ACCEPTED - NO EFFECT expected'
        except (TypeError, ValueError, AttributeError):
            pass
        if contents(mid) != before:
            return e + ' left something behind - NO EFFECT expected: ' + repr(first_diff(before, contents(mid)))[:200]
        return e
    if e == 'tracks.append':
        tracks.append(rand_track(rng))
    elif e == 'tracks.insert':
        tracks.insert(rng.randrange(len(tracks) + 1), rand_track(rng))
    elif e == 'add_track':
        tr = mid.add_track()
        tr.append(rand_msg(rng))
    elif e == 'add_track(name)':
        mid.add_track(rng.choice(('lead', 'x')))
    elif e == 'mid.tracks=':
        mid.tracks = [rand_track(rng) for _ in range(rng.randrange(0, 3))]
    elif e in ('mid.tracks+=', 'mid.tracks=same', 'mid.tracks=copy', 'mid.tracks*=2', 'mid.tracks[:]='):
        # edits spelled through the attribute: list semantics, whatever object ends up bound to it
        before = list(mid.tracks)
        new = rand_track(rng, 2)
        if e == 'mid.tracks+=':
            mid.tracks += [new]
            want = before + [new]
        elif e == 'mid.tracks=same':
            mid.tracks = mid.tracks
            want = before
        elif e == 'mid.tracks=copy':
            mid.tracks = list(mid.tracks)
            want = before
        elif e == 'mid.tracks*=2':
            mid.tracks *= 2
            want = before * 2
        else:
            mid.tracks[:] = before + [new]
            want = before + [new]
        if not (len(mid.tracks) == len(want) and all(a is b for a, b in zip(mid.tracks, want))):
            return f'{e} HAD NO EFFECT ON THE FILE or lost tracks: {len(before)} -> {len(mid.tracks)}, expected {len(want)}'
    elif e == 'mid.type=':
        mid.type = rng.choice((0, 1, 1, 1, 2))
    elif e == 'mid.ticks_per_beat=':
        mid.ticks_per_beat = rng.choice((1, 96, 480, 960, 32767))
    elif e == 'tracks.pop':
        tracks.pop(rng.randrange(len(tracks)))
    elif e == 'tracks.remove':
        tracks.remove(rng.choice(tracks))
    elif e == 'del tracks[i]':
        del tracks[rng.randrange(len(tracks))]
    elif e == 'tracks.setitem':
        tracks[rng.randrange(len(tracks))] = rand_track(rng)
    elif e == 'tracks.extend':
        new = [rand_track(rng, 2), rand_track(rng, 1)]
        before = len(tracks)
        tracks.extend(rng.choice((lambda x: x, iter, tuple, lambda x: (t for t in x)))(new))
        if not (len(tracks) == before + 2 and tracks[-1] is new[-1]):
            return 'tracks.extend HAD NO EFFECT ON THE FILE'
    elif e == 'tracks.reverse':
        tracks.reverse()
    elif e == 'tracks.clear':
        tracks.clear()
    elif e == 'track.append':
        rng.choice(tracks).append(rand_msg(rng))
    elif e == 'track.insert':
        tr = rng.choice(tracks)
        tr.insert(rng.randrange(len(tr) + 1), rand_msg(rng))
    elif e == 'track.extend':
        # any iterable will do for a list: a list, a tuple, a generator, map(), reversed(), an iterator
        tr = rng.choice(tracks)
        new = [rand_msg(rng), rand_msg(rng)]
        before = len(tr)
        how = rng.choice(('list', 'tuple', 'generator', 'map', 'reversed', 'iter'))
        src = {'list': lambda: new, 'tuple': lambda: tuple(new), 'generator': lambda: (m for m in new), 'map': lambda: map(lambda m: m, new),
               'reversed': lambda: reversed(new[::-1]), 'iter': lambda: iter(new)}[how]()
        tr.extend(src)
        if not (len(tr) == before + 2 and tr[-1] is new[-1] and tr[-2] is new[-2]):
            return f'track.extend({how}) HAD NO EFFECT ON THE FILE'
    elif e == 'track.name=':
        tr = rng.choice(tracks)
        r_ = rng.random()
        if r_ < 0.3:
            tr.name = rng.choice(('n1', 'n2'))
        elif r_ < 0.55:
            # a name event somewhere behind the first message (a track that starts with other meta events),
            # and the program looks the name up / renames the track
            if not any(m.type == 'track_name' for m in tr):
                tr.insert(min(len(tr), rng.randrange(1, 4)), MetaMessage('track_name', name='deep', time=0))
            if rng.random() < 0.5:
                tr.name
            else:
                tr.name = 'renamed'
        elif r_ < 0.85:
            # another name event is put in front of whatever the track holds (by item assignment or insertion)
            if len(tr) and rng.random() < 0.5:
                tr[0] = MetaMessage('track_name', name='front', time=tr[0].time)
            else:
                tr.insert(0, MetaMessage('track_name', name='inserted', time=0))
        elif r_ < 0.93:
            tr.reverse()
        else:
            # the whole story in one go: the name sits behind the first message and has been looked up; then the
            # first message is REPLACED by another name event (the positions of the others do not change)
            if len(tr) < 2:
                tr.extend([rand_msg(rng), rand_msg(rng)])
            if tr[0].type == 'track_name':
                tr[0] = rand_msg(rng).copy(time=tr[0].time) if rand_msg(rng).type != 'track_name' else Message('note_on', time=tr[0].time)
            if not any(m.type == 'track_name' for m in tr):
                tr.insert(1, MetaMessage('track_name', name='deep', time=0))
            tr.name
            tr[0] = MetaMessage('track_name', name='front', time=tr[0].time)
    elif e == 'track.pop':
        tr = rng.choice(ne)
        tr.pop(rng.randrange(len(tr)))
    elif e == 'track.slice=':
        tr = rng.choice(ne)
        i = rng.randrange(len(tr))
        tr[i:i + 2] = [rand_msg(rng)]
    elif e == 'track.setitem':
        tr = rng.choice(ne)
        i = rng.randrange(len(tr))
        # same delta time: total ticks and length of the track stay the same
        tr[i] = rand_msg(rng).copy(time=tr[i].time)
    elif e == 'track.swap':
        tr = rng.choice(ne)
        i, j = rng.randrange(len(tr)), rng.randrange(len(tr))
        tr[i], tr[j] = tr[j], tr[i]
    elif e == 'msg.time=':
        tr = rng.choice(ne)
        m = rng.choice(tr)
        v = rng.choice((0, 1, 5, 480, m.time + 1, int(m.time) if isinstance(m.time, float) and m.time == int(m.time) else 7))
        m.time = v
        if not (type(m.time) is type(v) and m.time == v):
            return f'msg.time={v!r} HAD NO EFFECT (time is {m.time!r})'
    elif e == 'edit-through-a-view':
        # the messages reached another way than by index: a slice of the track, a reversed() or sorted() view, a plain
        # list() of it - all of these hold the track's own message objects (copy(), + and * are left out: whether those
        # share the messages is not what this property is about)
        tr = rng.choice(ne)
        how = rng.choice(('slice', 'slice-step', 'reversed', 'sorted', 'list()', 'iter', 'tracks-slice', 'slice'))
        a = rng.randrange(len(tr))
        b = rng.randrange(a, len(tr)) + 1
        if how == 'slice':
            view = tr[a:b]
        elif how == 'slice-step':
            view = tr[a::2]
        elif how == 'reversed':
            view = list(reversed(tr))
        elif how == 'sorted':
            view = sorted(tr, key=lambda m: m.time)
        elif how == 'copy()':
            view = tr.copy() if hasattr(tr, 'copy') else list(tr)
        elif how == 'list()':
            view = list(tr)
        elif how == 'track*1':
            view = tr * 1
        elif how == 'track+[]':
            view = tr + []
        elif how == 'tracks-slice':
            view = [m for t in mid.tracks[:] for m in t]
        else:
            view = [m for m in tr]
        if not view:
            return e
        m = view[rng.randrange(len(view))]
        v = m.time + 3 if isinstance(m.time, int) else 5
        m.time = v
        hits = [x for t in mid.tracks for x in t if x is m]
        if not hits or any(type(x.time) is not type(v) or x.time != v for x in hits):
            return f'edit through {how} HAD NO EFFECT ON THE FILE (the view holds other objects than the track)'
        return e + ':' + how
    elif e == 'msg.attr=':
        tr = rng.choice(ne)
        m = rng.choice(tr)
        if m.type == 'note_on':
            m.note = (m.note + 1) % 128
        elif m.type == 'program_change':
            m.program = (m.program + 1) % 128
        elif m.type == 'marker':
            m.text = m.text + 'z'
        elif m.type == 'sysex':
            m.data += (1,)
        elif m.type == 'set_tempo':
            m.tempo = rng.randrange(1, 2 ** 24)
    elif e == 'track+=':
        # augmented assignment through a reference to the track: list semantics, the file sees it
        t = rng.choice(tracks)
        ident, before = id(t), len(t)
        new = [rand_msg(rng), rand_msg(rng)]
        t += new
        holder = next(x for x in tracks if id(x) == ident)
        if not (len(holder) == before + 2 and holder[-1] is new[-1]):
            return 'track+= HAD NO EFFECT ON THE FILE'
    elif e == 'append-after-end_of_track':
        t = rng.choice(tracks)
        t.append(MetaMessage('end_of_track', time=rng.choice((0, 3))))
        t.append(rand_msg(rng))
    elif e == 'append-same-object':
        tr = rng.choice(ne)
        tr.append(rng.choice(tr))                 # the same Message object twice in the track
    elif e == 'track*2':
        i = rng.randrange(len(tracks))
        tracks[i] = tracks[i] * 2
    elif e == 'track+track':
        i = rng.randrange(len(tracks))
        tracks[i] = tracks[i] + rng.choice(tracks)
    elif e == 'msg.time=float':
        # not storable: save() must refuse; a later edit repairs it
        tr = max(ne, key=len)
        m = tr[-1]
        if rng.random() < 0.5:
            vars(m)['time'] = 0.5
        else:
            m.time = float(rng.choice((0, 96, 240)))          # beats * ticks_per_beat: a whole number, but a float
    elif e == 'insert-realtime':
        tr = max(ne, key=len)
        tr.append(Message('clock', time=1))
    elif e == 'fix-unstorable':
        for tr in tracks:
            for i in reversed(range(len(tr))):
                if tr[i].type == 'clock':
                    del tr[i]
                elif not isinstance(tr[i].time, int):
                    v = int(tr[i].time) if tr[i].time == int(tr[i].time) else 2          # (the int that equals the float, if there is one)
                    tr[i].time = v
                    if type(tr[i].time) is not int:
                        return f'fix-unstorable: time={v!r} HAD NO EFFECT (time is {tr[i].time!r})'
    elif e == 'msg.tempo=':
        tempos = [m for t in tracks for m in t if m.type == 'set_tempo']
        if tempos:
            rng.choice(tempos).tempo = rng.randrange(1, 2 ** 24)
        else:
            rng.choice(ne).insert(0, MetaMessage('set_tempo', tempo=rng.randrange(1, 2 ** 24), time=0))
    return e


BLOCKED = []       # set once a save in another thread was seen to hang: not tried again in this process
OBS = ('iter', 'length', 'merged', 'save', 'play', 'repr', 'save-to-path', 'save-in-another-thread', 'names', 'names', 'print_tracks',
       'with-iter')


def history(ctx, seed, maxsteps):
    rng = random.Random(seed)
    mid = MidiFile(type=rng.choice((0, 1, 1, 1)), ticks_per_beat=rng.choice((96, 480)))
    for _ in range(rng.choice((0, 1, 1, 2, 3))):
        mid.tracks.append(rand_track(rng))
    log = []
    import tempfile
    fd, own_path = tempfile.mkstemp(suffix='.mid', prefix='vmon-c16-own-')
    os.close(fd)
    try:
        return _history(ctx, seed, maxsteps, rng, mid, log, own_path)
    finally:
        if os.path.exists(own_path):
            os.remove(own_path)


def _history(ctx, seed, maxsteps, rng, mid, log, own_path):
    if rng.random() < 0.3 and (mid.type != 0 or len(mid.tracks) == 1):
        # start from a file that was LOADED (whatever the reader remembers about a track must not
        # outlive an edit of that track)
        buf = io.BytesIO()
        mid.save(file=buf)
        mid = MidiFile(file=io.BytesIO(buf.getvalue()))
        log.append('start:loaded-from-bytes')
    mid._vmon_path = own_path
    # shadow copies of the two header fields, kept by the harness (a file whose header lives in
    # state shared with other MidiFile objects would agree with its own fresh twin)
    shadow = {'type': mid.type, 'tpb': mid.ticks_per_beat}
    bystanders = []
    observed = False
    edited_after_obs = False
    nontrivial = False
    steps = rng.randrange(3, maxsteps + 1)
    suspended = []
    case = lambda: {'kind': 'history', 'seed': seed, 'maxsteps': maxsteps}  # noqa: E731
    for i in range(steps):
        r = rng.random()
        if r < 0.03:
            # not an edit of the file at all: the caller fiddles with results of mido's helper functions
            from .. import gen
            gen.run_quietly(gen.perturbations()[0][1])
            log.append('other:caller-edits-helper-results')
        elif r < 0.45:
            what = do_edit(rng, mid)
            if what == 'mid.type=':
                shadow['type'] = mid.type
            elif what == 'mid.ticks_per_beat=':
                shadow['tpb'] = mid.ticks_per_beat
            if rng.random() < 0.3:
                # an unrelated file comes to life / changes while this one exists
                other = MidiFile(type=rng.choice((0, 1, 2)), ticks_per_beat=rng.choice((7, 24, 1000)))
                other.tracks.append(rand_track(rng, 2))
                if bystanders and rng.random() < 0.5:
                    bystanders[-1].type, bystanders[-1].ticks_per_beat = 2, 31
                bystanders.append(other)
                if rng.random() < 0.3:
                    try:
                        b = io.BytesIO()
                        MidiFile(type=1, ticks_per_beat=333).save(file=b)
                        MidiFile(file=io.BytesIO(b.getvalue()))
                    except Exception:
                        pass
            log.append('edit:' + what)
            ctx.check('edit took effect', 'NO EFFECT' not in what, 'edit-without-effect', case, lambda: log[-3:])
            if observed:
                edited_after_obs = True
        elif r < 0.55:
            what = rng.choice(('partial-iter', 'partial-play', 'partial-play-kept-suspended'))
            if what == 'partial-play-kept-suspended':
                # a player parked between two messages (the consumer is busy elsewhere); it stays alive
                clock = FakeTime()
                orig_t = mf.time
                mf.time = clock
                try:
                    g = mid.play(meta_messages=True, now=clock.time)
                    try:
                        next(g)
                    except (StopIteration, TypeError, ValueError):
                        pass
                    suspended.append(g)
                finally:
                    mf.time = orig_t
            else:
                abandon(mid, what, rng.randrange(1, 4))
            log.append('obs:' + what)
            observed = True
        else:
            what = rng.choice(OBS)
            ctx.check("header fields are the file's own", (mid.type, mid.ticks_per_beat) == (shadow['type'], shadow['tpb']),
                      'header-changed-behind-the-back', case, lambda: {'log': log[-6:], 'file': [mid.type, mid.ticks_per_beat],
                                                                        'expected': [shadow['type'], shadow['tpb']]})
            before = contents(mid)
            twin = twin_of(mid)
            edits = rng.random() < 0.4
            if what == 'save-in-another-thread' and BLOCKED:
                what = 'save'
            got = observe(mid, what, f'{seed}:{i}', consumer_edits=edits)
            if isinstance(got, str) and got.startswith('NEVER FINISHED'):
                BLOCKED.append(1)
                ctx.check('observation == fresh twin', False, 'save-from-another-thread-never-finishes', case,
                          lambda: {'step': i, 'log': log[-8:], 'what': got})
                return nontrivial
            after = contents(mid)
            ctx.check('observation leaves the contents alone', before == after,
                      f'{what}-changed-the-file' + ('-through-handed-out-messages' if edits else ''), case,
                      lambda: {'step': i, 'log': log[-8:], 'observation': what, 'consumer_edits': edits,
                               'first_difference': first_diff(before, after)})
            if before != after:
                return nontrivial
            want = observe(twin, what, f'{seed}:{i}')
            if what == 'names' and isinstance(got, list):
                model_names = [next((m.name for m in tr if m.type == 'track_name'), '') for tr in mid.tracks]
                ctx.check('observation == fresh twin', got == model_names, 'names-differ-from-first-track_name', case,
                          lambda: {'step': i, 'log': log[-8:], 'got': got, 'first track_name of each track': model_names})
            if what == 'save' and isinstance(got, str):
                # a successful save is also judged absolutely: the strict reference decoder reads the bytes
                # back into the current contents (the twin shares every process-wide table and cache with
                # the file it is compared to)
                try:
                    d = smf.decode_file(bytes.fromhex(got))
                    want_ev = [smf.norm_track(smf.fold_eot(smf.events_of_track(tr, mid.charset))) for tr in mid.tracks]
                    got_ev = [smf.norm_track(t) for t in d['tracks']]
                    ctx.check('saved bytes decode to the contents', not d['flags'] and got_ev == want_ev
                              and (d['format'], d['division']) == (mid.type, mid.ticks_per_beat), 'save-differs-from-reference', case,
                              lambda: {'step': i, 'log': log[-8:], 'flags': d['flags'][:3], 'bytes': got[:160]})
                except smf.Malformed as exc:
                    ctx.check('saved bytes decode to the contents', False, 'save-malformed', case,
                              lambda: {'step': i, 'log': log[-8:], 'why': str(exc), 'bytes': got[:160]})
            last_edit = next((x for x in reversed(log) if x.startswith('edit:')), 'edit:none')
            prev_obs = next((x for x in reversed(log) if x.startswith('obs:')), 'obs:none')
            ctx.check('observation == fresh twin', got == want,
                      f'{what}-stale-after-{last_edit[5:]}' if prev_obs != 'obs:none' else f'{what}-differs',
                      case, lambda: {'step': i, 'log': log[-8:], 'observation': what,
                                     'got': repr(got)[:300], 'twin': repr(want)[:300]})
            log.append('obs:' + what)
            if edited_after_obs:
                nontrivial = True
            observed = True
            if got != want:
                return nontrivial
    return nontrivial


def loaded_vs_built(ctx, seed, nrep):
    """A file LOADED from bytes and a file BUILT in memory from the same events get the same edits by
    position; every observation must agree (the reader must hand out independent message objects)."""
    rng = random.Random(seed)
    case = {'kind': 'loaded-vs-built', 'seed': seed, 'events': nrep}
    def build():
        mid = MidiFile(type=1, ticks_per_beat=480)
        tr = MidiTrack()
        for i in range(nrep):
            # a drum groove: a handful of identical events over and over
            tr.append(Message('note_on', channel=9, note=(36, 38, 42, 42)[i % 4], velocity=100, time=(0, 120)[i % 2]))
            tr.append(Message('note_off', channel=9, note=(36, 38, 42, 42)[i % 4], velocity=0, time=120))
        mid.tracks.append(tr)
        return mid
    built = build()
    buf = io.BytesIO()
    built.save(file=buf)
    loaded = MidiFile(file=io.BytesIO(buf.getvalue()))
    built.tracks[0].append(mido.MetaMessage('end_of_track'))       # the reader adds what save() appended
    log = []
    for step in range(4):
        i = rng.randrange(len(built.tracks[0]) - 1)
        what = rng.choice(('note', 'time', 'velocity'))
        for f in (built, loaded):
            m = f.tracks[0][i]
            if what == 'note':
                m.note = (m.note + 7) % 128
            elif what == 'time':
                m.time = m.time + 3
            else:
                m.velocity = (m.velocity + 1) % 128
        log.append([what, i])
        for obs in ('length', 'save', 'iter'):
            a, b = observe(loaded, obs, seed), observe(built, obs, seed)
            ctx.check('observation == fresh twin', a == b, f'loaded-differs-from-built:{obs}', case,
                      lambda: {'edits': log, 'observation': obs, 'loaded': repr(a)[:120], 'built': repr(b)[:120]})
            if a != b:
                return


def odd_header_loaded_cases(ctx):
    """Files read from bytes whose header is unusual - SMPTE time division (the division word negative), the largest and
    smallest resolutions, a longer header chunk - and then edited like any other file: new ticks_per_beat, new type, tempo
    edits, tracks added.  After every edit each observation equals that of a file freshly built with the same contents."""
    import struct
    from ..ref import smf
    n = 0
    rng = random.Random(f'{ctx.seed}:odd-headers')
    note = lambda d, k: ('ch', d, 0x90, [k, 64])       # noqa: E731
    tempo = lambda d, us: ('meta', d, 0x51, list(us.to_bytes(3, 'big')))   # noqa: E731
    eot = ('meta', 0, 0x2F, [])
    for division in (0xE728, 0xE250, 0xE764, 0x8001, 0xFFFF, 0x7FFF, 1, 96):
        for header_len in (6, 10):
            for fmt in (0, 1):
                case = {'kind': 'odd-header', 'division': hex(division), 'header_len': header_len, 'type': fmt}
                tracks = [[note(0, 60), tempo(10, 250000), note(40, 62), note(40, 64), eot]]
                if fmt == 1:
                    tracks.append([note(5, 70), note(80, 72), eot])
                try:
                    b, _ = smf.encode_file(fmt, division, tracks, header_len=header_len)
                    mid = MidiFile(file=io.BytesIO(b))
                except Exception as exc:
                    ctx.count('observation == fresh twin')          # a header the reader refuses: nothing to edit
                    continue
                log = ['loaded']
                edits = [('none', None), ('ticks_per_beat', 96), ('tempo', None), ('ticks_per_beat', 480), ('add_track', None), ('type', 1),
                         ('ticks_per_beat', mid.ticks_per_beat), ('msg.time', None)]
                for what, val in edits:
                    try:
                        if what == 'ticks_per_beat':
                            mid.ticks_per_beat = val
                        elif what == 'tempo':
                            for m in mid.tracks[0]:
                                if m.type == 'set_tempo':
                                    m.tempo = 750000
                        elif what == 'add_track':
                            if mid.type != 0:
                                mid.add_track().append(Message('note_on', note=1, time=17))
                        elif what == 'type':
                            mid.type = val
                        elif what == 'msg.time':
                            mid.tracks[0][1].time += 7
                        log.append(f'edit:{what}={val}')
                        for obs in ('iter', 'length', 'save', 'play', 'merged'):
                            a, bb = observe(mid, obs, 3), observe(twin_of(mid), obs, 3)
                            ctx.check('observation == fresh twin', a == bb, f'{obs}-of-loaded-file-stale-after-{what}', case,
                                      lambda: {'log': log, 'observation': obs, 'loaded': repr(a)[:140], 'fresh twin': repr(bb)[:140]})
                    except HarnessAbort:
                        raise
                    except Exception as exc:
                        ctx.fail('observation == fresh twin', f'odd-header:{type(exc).__name__}', case, f'{type(exc).__name__}: {exc}')
                        break
                n += 1
    return n


def dressed_file_case(ctx, seed):
    """The same contents in other clothes: a file whose tracks hold immutable messages (mido.frozen), and a file whose
    messages have already been used for something else - encoded, printed, hashed as frozen twins, under the default
    charset - before they were put into a file with a charset of its own.  Every observation, repeated, equals that of
    a fresh plain twin, and leaves the contents alone."""
    from .. import abuse
    import mido.frozen as fz
    rng = random.Random(seed)
    cs = rng.choice(('latin1', 'utf-8', 'utf-8', 'cp1252', 'utf-16-le'))
    dress = rng.choice(('frozen', 'handled-before', 'frozen-handled-before', 'frozen-one-object-in-two-files'))
    case = {'kind': 'dressed', 'seed': seed, 'dress': dress, 'charset': cs}

    def build():
        mid = MidiFile(type=1, ticks_per_beat=rng2.choice((96, 480)), charset=cs)
        for _ in range(rng2.randrange(1, 4)):
            tr = rand_track(rng2)
            for _ in range(rng2.randrange(0, 3)):
                tr.insert(rng2.randrange(len(tr) + 1), MetaMessage(rng2.choice(('text', 'marker', 'track_name', 'lyrics')),
                                                                   time=rng2.choice((0, 5))))
            mid.tracks.append(tr)
        for tr in mid.tracks:
            for i, m in enumerate(tr):
                if m.type in ('text', 'marker', 'lyrics') and rng2.random() < 0.7:
                    tr[i] = m.copy(text=rng2.choice(('caf\xe9', '\xfcber', '\xa3 5')))
                elif m.type == 'track_name' and rng2.random() < 0.7:
                    tr[i] = m.copy(name='\xc9tude')
        return mid
    rng2 = random.Random(seed + ':build')
    plain = build()
    rng2 = random.Random(seed + ':build')
    dressed = build()
    other = None
    try:
        if 'handled-before' in dress:
            for tr in dressed.tracks:
                for m in tr:
                    abuse.handle(m)
        if dress.startswith('frozen'):
            abuse.freeze_tracks(dressed)
            if 'handled-before' in dress:
                for tr in dressed.tracks:
                    for m in tr:
                        m.bytes(), m.hex(), hash(m), str(m)
        if dress == 'frozen-one-object-in-two-files':
            # the very same immutable messages also sit in a file with another charset, which is saved first
            other = MidiFile(type=1, ticks_per_beat=dressed.ticks_per_beat, charset='utf-8' if cs != 'utf-8' else 'latin1')
            other.tracks = [MidiTrack(tr) for tr in dressed.tracks]
            observe(other, 'save', seed)
            observe(other, 'merged', seed)
    except Exception as exc:
        ctx.fail('observation == fresh twin', f'dressed:{dress}:{type(exc).__name__}', case, f'{type(exc).__name__}: {exc}')
        return
    strip = lambda r: eval(repr(r).replace("'Frozen", "'"))  # noqa: E731,S307  (class names of frozen messages)
    before = contents(dressed)
    obs_log = []
    for i in range(rng.randrange(3, 8)):
        what = rng.choice(('iter', 'length', 'merged', 'save', 'play', 'names', 'save', 'save-in-another-thread'))
        obs_log.append(what)
        a = observe(dressed, what, f'{seed}:{i}', consumer_edits=not dress.startswith('frozen') and rng.random() < 0.3)
        b = observe(twin_of(plain), what, f'{seed}:{i}')
        ctx.check('observation == fresh twin', strip(a) == strip(b), f'dressed:{dress.split("-")[0]}:{what}', case,
                  lambda: {'observations': obs_log, 'dressed': repr(a)[:160], 'plain twin': repr(b)[:160]})
        now = contents(dressed)
        ctx.check('observation leaves the contents alone', now == before, f'dressed-contents:{dress.split("-")[0]}:{what}', case,
                  lambda: {'observations': obs_log, 'diff': repr(first_diff(before, now))[:200]})
        if strip(a) != strip(b) or now != before:
            return


def run(ctx):
    n = 0
    nd = 60 if ctx.tier == 'quick' else 6000
    for j in range(nd):
        seed = f'{ctx.seed}:{ctx.shard}:d{j}'
        dressed_file_case(ctx, seed)
        ctx.nontrivial(('d', seed))
        n += 1
    ctx.extra('dressed_file_cases', nd)
    nh = 400 if ctx.tier == 'quick' else 40000
    maxsteps = 12 if ctx.tier == 'quick' else 40
    for j in range(nh):
        seed = f'{ctx.seed}:{ctx.shard}:h{j}'
        if history(ctx, seed, maxsteps):
            ctx.nontrivial(('h', seed))
        n += 1
    sizes = (50, 2000, 8200, 8300, 12000)          # 8 bytes per pair: 8 200 pairs ~ 65.6 KB track chunk
    for si, nrep in enumerate(sizes):
        if si % ctx.nshards == ctx.shard:
            loaded_vs_built(ctx, f'{ctx.seed}:{ctx.shard}:lvb{nrep}', nrep)
            ctx.nontrivial(('lvb', nrep))
            n += 1
    if ctx.shard == 6 % ctx.nshards:
        k = odd_header_loaded_cases(ctx)
        ctx.nontrivial(None, k)
        ctx.extra('odd_header_loaded_cases', k)
        n += k
    ctx.count('cases', n)
    ctx.put_sample({'history': ['edit:tracks.append', 'obs:iter', 'edit:msg.tempo=', 'obs:length', 'obs:partial-play',
                                'edit:track.setitem', 'obs:play'], 'note': 'shape of a generated history'})


def replay(ctx, case):
    if case['kind'] == 'dressed':
        dressed_file_case(ctx, case['seed'])
    elif case['kind'] == 'loaded-vs-built':
        loaded_vs_built(ctx, case['seed'], case['events'])
    elif case['kind'] == 'odd-header':
        odd_header_loaded_cases(ctx)
    else:
        history(ctx, case['seed'], case['maxsteps'])
