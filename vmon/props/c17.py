"""C17 - Text encoding follows the file charset and never leaks out of a call.

For every load/save call - successful or failed - the payload bytes in the
file are compared (through the reference SMF decoder) with text.encode(charset)
and a probe of the process-wide default charset is taken afterwards.  Faults:
truncation at every byte, bad data byte, non-integer time in the n-th message,
unencodable / undecodable text, file objects whose k-th read/write raises, and
an exception injected at EVERY executed line of the call (sys.monitoring
failpoints).
"""
import io
import random

import mido
import mido.messages.checks
import mido.messages.decode
import mido.messages.encode
import mido.messages.messages
import mido.messages.specs
import mido.midifiles.meta
import mido.midifiles.midifiles
import mido.midifiles.tracks
from mido import Message, MetaMessage, MidiFile, MidiTrack

from ..mon import lines
from ..ref import meta as rmeta
from ..ref import smf

ID = 'C17'
ANCHORS = ['mido.midifiles.meta', 'mido.midifiles.midifiles']
LEVEL = 'fault_enumeration'
RULE = ('charsets x texts (code points the charset round-trips in plain Python, incl. '
        'multi-byte forms) in all eight text-carrying meta types; faults enumerated per file: '
        'truncation at every byte offset, one data byte raised above 127, a float time in the '
        'n-th message for every n, text not encodable in the save charset, bytes not decodable '
        'in the load charset, the k-th read()/write() raising OSError for every k, and an '
        'injected exception at the k-th executed line for every k (all lines of the call in '
        'mido.midifiles.* and mido.messages.*; the lines of meta_charset itself excluded). One '
        'case = one call + default-charset probe; distinct by (charset, seed, fault kind, '
        'position); non-trivial when the call really ran under a non-default charset or a fault '
        'fired')
ASSUMPTIONS = [
    'the probe MetaMessage("text", text="\\x80\\xe9") <-> bytes 80 E9 distinguishes latin1 from every other charset used',
    'failpoints are placed at line granularity in mido code only; faults inside the lines of meta_charset itself are excluded (nothing in the real program can fail there)',
    'an injected fault is raised between two lines, alternately as an Exception subclass and as a BaseException subclass (as MemoryError / KeyboardInterrupt could be)',
]
DECIDING = ['file payload == text.encode(charset)', 'loaded text == original',
            'default charset after successful call', 'default charset after failed call',
            'default charset after injected fault']
TIMEOUT = {'quick': 600, 'thorough': 3600}
ENV_FULL = True        # cheap enough: every shard runs once in each interpreter environment (core.ENV_MODES)
CHARSETS = ['latin1', 'ascii', 'utf-8', 'utf-16', 'utf-16-le', 'cp1252', 'cp437', 'iso8859-15',
            'koi8-r', 'shift_jis', 'euc-jp', 'gb2312', 'big5', 'utf-32', 'utf-8-sig', 'utf-7', 'iso2022_jp', 'utf-16-be']
CANDIDATES = (list(range(0x20, 0x7F)) + list(range(0xA0, 0x100)) + list(range(0x391, 0x3CA))
              + list(range(0x410, 0x450)) + list(range(0x3041, 0x3094)) + list(range(0x30A1, 0x30F7))
              + list(range(0x4E00, 0x4E80)) + list(range(0x2500, 0x2520)) + [0x20AC, 0x2122, 0x152, 0x160]
              + [0x0301, 0x0308, 0x0327, 0x2126, 0x212B, 0xF900, 0xFA10, 0x1E9B, 0x3099, 0xFB01, 0x00C5, 0x03A9])
from mido.midifiles.meta import decode_string as DECODE_STRING      # noqa: E402  (by name, at import time - on purpose)
from mido.midifiles.meta import encode_string as ENCODE_STRING      # noqa: E402

MODULES = [mido.midifiles.midifiles, mido.midifiles.meta, mido.midifiles.tracks,
           mido.messages.messages, mido.messages.decode, mido.messages.encode,
           mido.messages.checks, mido.messages.specs]


def nshards(tier):
    return 16


_alpha = {}


def alphabet(cs):
    if cs not in _alpha:
        ok = []
        for cp in CANDIDATES:
            ch = chr(cp)
            try:
                if ch.encode(cs).decode(cs) == ch:
                    ok.append(ch)
            except (UnicodeError, LookupError):
                pass
        _alpha[cs] = ok
    return _alpha[cs]


DECOMPOSED = ['e\u0301', 'A\u030a', '\u2126', '\u212b', '\u304b\u3099', 'o\u0308x', '\uf900', 'c\u0327']


def rand_text(rng, cs, n=None):
    al = alphabet(cs)
    if n is None and rng.random() < 0.15:
        # text that Unicode normalisation would rewrite (combining marks, compatibility characters)
        for cand in rng.sample(DECOMPOSED, len(DECOMPOSED)):
            try:
                if cand.encode(cs).decode(cs) == cand:
                    return cand + rng.choice(('', 'z', cand))
            except UnicodeError:
                continue
    n = rng.choice((0, 1, 2, 5, 12, 40)) if n is None else n
    if rng.random() < 0.15:
        # plain ASCII text: in charsets that are no superset of ASCII (utf-16, utf-7, iso2022_jp) its bytes differ too
        return ''.join(rng.choice('Piano +-~&A1 ') for _ in range(max(n, 1)))
    # prefer non-ASCII so that the charset matters
    hi = [c for c in al if ord(c) > 127] or al
    return ''.join(rng.choice(hi if rng.random() < 0.7 else al) for _ in range(n))


class Label(str):
    """A user's str subclass whose str() is not its characters."""

    def __str__(self):
        return 'LABEL'

    def __format__(self, spec):
        return 'LABEL'


def dress(rng, text):
    """The same characters as an instance of a str subclass (a plain one, a str-Enum member)."""
    r = rng.random()
    if r < 0.1:
        return Label(text)
    if r < 0.2 and text:
        import enum
        return enum.Enum('Section', {'CHORUS': text}, type=str).CHORUS
    return text


def probe():
    """None if the process-wide default is latin1 again, else what was seen."""
    try:
        b = MetaMessage('text', text='\x80\xe9').bytes()[3:]
        t = MetaMessage.from_bytes([0xFF, 1, 2, 0x80, 0xE9]).text
    except Exception as exc:
        return f'probe raised {type(exc).__name__}: {exc}'
    if b != [0x80, 0xE9] or t != '\x80\xe9':
        return f'encodes to {b}, decodes to {t!r}; meta._charset={mido.midifiles.meta._charset!r}'
    return None


def restore_default():
    mido.midifiles.meta._charset = 'latin1'


def build_file(rng, cs, ntext=None):
    mid = MidiFile(charset=cs, type=1)
    texts = []
    for ti in range(rng.choice((1, 2))):
        named = rng.random() < 0.3 and ntext is None
        if named:
            # the documented shortcuts for naming a track: add_track(name), track.name = ... (text in the file's charset)
            s = rand_text(rng, cs)
            if rng.random() < 0.5:
                tr = mid.add_track(''.join(s))
            else:
                tr = MidiTrack()
                mid.tracks.append(tr)
                tr.name = ''.join(s)
            texts.append((ti, 'track_name', s))
        else:
            tr = MidiTrack()
            mid.tracks.append(tr)
        for _ in range(rng.randrange(1, 5) if ntext is None else ntext):
            t = rng.choice(rmeta.TEXT_TYPES)
            s = rand_text(rng, cs)
            if ntext is None and rng.random() < 0.15:
                tr.append(MetaMessage('end_of_track', time=rng.choice((0, 4))))          # (in mid-track: its delta moves on to what follows)
            tr.append(MetaMessage(t, **{rmeta.SPECS[t][1][0]: dress(rng, s)}, time=rng.choice((0, 1, 200))))
            texts.append((ti, t, s))
            if rng.random() < 0.5:
                tr.append(Message('note_on', note=rng.randrange(128), time=rng.choice((0, 3, 130))))
            if rng.random() < 0.2:
                tr.append(Message('sysex', data=(1, 2, 3), time=1))
    return mid, texts


def check_probe(ctx, clause, key, case):
    why = probe()
    ctx.check(clause, why is None, key, case, why)
    if why is not None:
        restore_default()
    return why is None


def roundtrip(ctx, cs, seed):
    rng = random.Random(seed)
    case = lambda: {'kind': 'roundtrip', 'charset': cs, 'seed': seed}  # noqa: E731
    mid, texts = build_file(rng, cs)
    used = rng.choice(('', '', '', 'handled-before', 'frozen', 'frozen-handled-before'))
    if used:
        # the messages have a life outside the file: encoded, printed, copied, hashed as frozen twins under the default
        # charset before they are saved under the file's - or the tracks hold the immutable twins themselves
        from .. import abuse
        case = lambda: {'kind': 'roundtrip', 'charset': cs, 'seed': seed, 'messages': used}  # noqa: E731
        if 'handled-before' in used:
            for tr in mid.tracks:
                for m in tr:
                    abuse.handle(m)
        if used.startswith('frozen'):
            abuse.freeze_tracks(mid)
            if 'handled-before' in used:
                for tr in mid.tracks:
                    for m in tr:
                        try:
                            m.bytes(), m.hex(), hash(m)
                        except (UnicodeError, TypeError):
                            pass
    buf = io.BytesIO()
    try:
        mid.save(file=buf)
    except Exception as exc:
        ctx.fail('file payload == text.encode(charset)', f'save-raised:{cs}', case,
                 f'{type(exc).__name__}: {exc}')
        check_probe(ctx, 'default charset after failed call', f'leak-after-failed-save:{cs}', case)
        return
    check_probe(ctx, 'default charset after successful call', f'leak-after-save:{cs}', case)
    b = buf.getvalue()
    d = smf.decode_file(b)
    got = [(ti, rmeta.BY_BYTE.get(e[2]), bytes(e[3])) for ti, tr in enumerate(d['tracks'])
           for e in tr if e[0] == 'meta' and e[2] in rmeta.BY_BYTE and rmeta.BY_BYTE[e[2]] in rmeta.TEXT_TYPES]
    want = [(ti, t, s.encode(cs)) for ti, t, s in texts]
    ctx.check('file payload == text.encode(charset)', got == want, f'payload:{cs}', case,
              lambda: {'got': [g[2].hex() for g in got][:4], 'want': [w[2].hex() for w in want][:4]})
    if not used.startswith('frozen'):
        # one text is edited in place and the file is saved again: the new bytes say the new text
        cand = [(ti, m) for ti, tr in enumerate(mid.tracks) for m in tr if m.type in rmeta.TEXT_TYPES]
        k = rng.randrange(len(cand))
        ti, m = cand[k]
        s2 = rand_text(rng, cs)
        setattr(m, 'name' if hasattr(m, 'name') else 'text', ''.join(s2))
        try:
            buf2 = io.BytesIO()
            mid.save(file=buf2)
            d2 = smf.decode_file(buf2.getvalue())
            got2 = [(ti_, rmeta.BY_BYTE.get(e[2]), bytes(e[3])) for ti_, tr in enumerate(d2['tracks'])
                    for e in tr if e[0] == 'meta' and e[2] in rmeta.BY_BYTE and rmeta.BY_BYTE[e[2]] in rmeta.TEXT_TYPES]
            want2 = list(want)
            want2[k] = (want[k][0], want[k][1], ''.join(s2).encode(cs))
            ctx.check('file payload == text.encode(charset)', got2 == want2, f'payload-after-edit:{cs}', case,
                      lambda: {'edited': k, 'got': [g[2].hex() for g in got2][:4], 'want': [w[2].hex() for w in want2][:4]})
        except Exception as exc:
            ctx.fail('file payload == text.encode(charset)', f'save-after-edit-raised:{cs}', case, f'{type(exc).__name__}: {exc}')
        check_probe(ctx, 'default charset after successful call', f'leak-after-second-save:{cs}', case)
        setattr(m, 'name' if hasattr(m, 'name') else 'text', ''.join(texts[k][2]) if not isinstance(texts[k][2], str) else texts[k][2])
    if used:
        # and outside the file the very same message objects still encode with the default charset
        for tr in mid.tracks:
            for m in tr:
                if m.type in rmeta.TEXT_TYPES:
                    text = ''.join(getattr(m, 'text', None) if hasattr(m, 'text') else m.name)     # (the characters, whatever its class prints)
                    try:
                        wantb = text.encode('latin1')
                    except UnicodeError:
                        continue
                    try:
                        gotb = bytes(m.bytes())
                    except Exception as exc:
                        gotb = f'{type(exc).__name__}: {exc}'.encode()
                    ctx.check('default charset after successful call', gotb.endswith(wantb) and (cs == 'latin1' or wantb == text.encode(cs) or not gotb.endswith(text.encode(cs))),
                              f'message-remembers-file-charset:{cs}', case, lambda: {'text': text[:20], 'bytes': gotb.hex()[:60]})
    # load under cs, then under latin1, then under cs again (state kept between loads would show)
    import contextlib
    for li, cs2 in enumerate((cs, 'latin1', cs, cs)):
        try:
            if li == 3:
                with contextlib.redirect_stdout(io.StringIO()):
                    back = MidiFile(file=io.BytesIO(b), charset=cs2, debug=True)
            else:
                back = MidiFile(file=io.BytesIO(b), charset=cs2, clip=(li == 2))
        except Exception as exc:
            ctx.fail('loaded text == original', f'load-raised:{cs2}', case, f'{type(exc).__name__}: {exc}')
            check_probe(ctx, 'default charset after failed call', f'leak-after-failed-load:{cs2}', case)
            continue
        check_probe(ctx, 'default charset after successful call', f'leak-after-load:{cs2}', case)
        lt = [(ti, m.type, getattr(m, 'text', None) if hasattr(m, 'text') else m.name)
              for ti, tr in enumerate(back.tracks) for m in tr if m.type in rmeta.TEXT_TYPES]
        wt = [(ti, t, s.encode(cs).decode(cs2)) for ti, t, s in texts]
        ctx.check('loaded text == original', lt == wt, f'loaded-text:{cs}->{cs2}', case,
                  lambda: {'got': lt[:3], 'want': wt[:3]})
    # messages created outside any call still use latin1 while a file with another charset exists
    ctx.check('default charset after successful call', probe() is None, f'leak:{cs}', case, probe())
    # the same file again, other ways: by name onto a fresh path, onto the path that now exists (twice), the file
    # object after a round through copy / deepcopy / pickle, a loaded file saved again - always the same bytes
    import copy
    import os
    import pickle
    import tempfile
    fd, path = tempfile.mkstemp(suffix='.mid', prefix='vmon-c17-')
    os.close(fd)
    os.remove(path)
    try:
        variants = [('save(path) fresh', mid), ('save(path) existing', mid), ('save(path) existing again', mid)]
        for label, make in (('copy.copy', lambda: copy.copy(mid)), ('copy.deepcopy', lambda: copy.deepcopy(mid)),
                            ('loaded', lambda: MidiFile(file=io.BytesIO(b), charset=cs)),
                            ('pickle', lambda: pickle.loads(pickle.dumps(mid)))):
            try:
                variants.append((label, make()))
            except pickle.PicklingError:
                pass            # (a text of a locally defined class cannot be pickled: the harness's own doing)
            except Exception as exc:
                ctx.fail('file payload == text.encode(charset)', f'same-file-other-way:{label}:cannot-be-made:{type(exc).__name__}', case,
                         f'{type(exc).__name__}: {exc}'[:300])
        for label, obj in variants:
            try:
                if label.startswith('save(path)'):
                    obj.save(path)
                    with open(path, 'rb') as f:
                        got_b = f.read()
                else:
                    out = io.BytesIO()
                    obj.save(file=out)
                    got_b = out.getvalue()
                ctx.check('file payload == text.encode(charset)', got_b == b and getattr(obj, 'charset', None) == cs,
                          f'same-file-other-way:{label}', case,
                          lambda: {'how': label, 'charset_of_object': getattr(obj, 'charset', None), 'len': [len(got_b), len(b)]})
            except Exception as exc:
                ctx.fail('file payload == text.encode(charset)', f'same-file-other-way:{label}:{type(exc).__name__}', case,
                         f'{type(exc).__name__}: {exc}')
            check_probe(ctx, 'default charset after successful call', f'leak-after:{label}', case)
    finally:
        if os.path.exists(path):
            os.remove(path)


def reassigned_charset(ctx, cs_a, cs_b, seed):
    """The charset in force is the file's CURRENT charset attribute."""
    rng = random.Random(seed)
    case = lambda: {'kind': 'reassign', 'a': cs_a, 'b': cs_b, 'seed': seed}  # noqa: E731
    common = [c for c in alphabet(cs_a) if c in set(alphabet(cs_b))]
    hi = [c for c in common if ord(c) > 127] or common
    text = ''.join(rng.choice(hi) for _ in range(6))
    mid = MidiFile(charset=cs_a)
    mid.tracks.append(MidiTrack([MetaMessage('text', text=text), MetaMessage('track_name', name=text, time=2)]))
    try:
        b1 = io.BytesIO()
        mid.save(file=b1)
        mid.charset = cs_b
        b2 = io.BytesIO()
        mid.save(file=b2)
        d = smf.decode_file(b2.getvalue())
        got = [bytes(e[3]) for e in d['tracks'][0] if e[0] == 'meta' and e[2] in (1, 3)]
        ctx.check('file payload == text.encode(charset)', got == [text.encode(cs_b)] * 2, f'reassigned-save:{cs_a}->{cs_b}',
                  case, lambda: {'got': [g.hex() for g in got], 'want': text.encode(cs_b).hex()})
        check_probe(ctx, 'default charset after successful call', 'leak-after-reassigned-save', case)
        # load with cs_a (possibly garbled), switch the attribute, save again: bytes re-encoded under cs_b
        back = MidiFile(file=io.BytesIO(b2.getvalue()), charset=cs_b)
        back.charset = cs_a
        b3 = io.BytesIO()
        back.save(file=b3)
        d = smf.decode_file(b3.getvalue())
        got = [bytes(e[3]) for e in d['tracks'][0] if e[0] == 'meta' and e[2] in (1, 3)]
        ctx.check('file payload == text.encode(charset)', got == [text.encode(cs_a)] * 2,
                  f'reassigned-after-load:{cs_b}->{cs_a}', case, lambda: [g.hex() for g in got])
    except Exception as exc:
        ctx.fail('file payload == text.encode(charset)', f'reassign-raised:{type(exc).__name__}', case,
                 f'{type(exc).__name__}: {exc}')
        restore_default()


def long_text_case(ctx, cs, n_ascii):
    """Text payloads beyond 64 KiB with multi-byte characters sitting across the 65 536-byte mark."""
    case = {'kind': 'long-text', 'charset': cs, 'ascii_prefix': n_ascii}
    hi = [c for c in alphabet(cs) if len(c.encode(cs)) > 1 or ord(c) > 127][:3] or ['x']
    text = 'a' * n_ascii + ''.join(hi) * 40
    mid = MidiFile(charset=cs)
    mid.tracks.append(MidiTrack([MetaMessage('lyrics', text=text, time=1), MetaMessage('track_name', name=text[:70000])]))
    try:
        buf = io.BytesIO()
        mid.save(file=buf)
        d = smf.decode_file(buf.getvalue())
        got = [bytes(e[3]) for e in d['tracks'][0] if e[0] == 'meta' and e[2] in (5, 3)]
        ctx.check('file payload == text.encode(charset)', got == [text.encode(cs), text[:70000].encode(cs)],
                  f'long-text-payload:{cs}', case, [len(g) for g in got])
        back = MidiFile(file=io.BytesIO(buf.getvalue()), charset=cs)
        ctx.check('loaded text == original', back.tracks[0][0].text == text and back.tracks[0][1].name == text[:70000],
                  f'long-text-loaded:{cs}', case, None)
    except Exception as exc:
        ctx.fail('loaded text == original', f'long-text:{type(exc).__name__}:{cs}', case, f'{type(exc).__name__}: {str(exc)[:100]}')
        restore_default()
    check_probe(ctx, 'default charset after successful call', 'leak-after-long-text', case)


def exact_payload_case(ctx, cs, nbytes):
    """A text whose encoding is exactly nbytes long (up to the reader's documented limit of 1 000 000)."""
    case = {'kind': 'exact-payload', 'charset': cs, 'payload_bytes': nbytes}
    hi = [c for c in alphabet(cs) if len(c.encode(cs)) > 1][:1]
    unit = len('a'.encode(cs)) if cs not in ('utf-16', 'utf-32', 'utf-8-sig') else None
    if unit is None:
        return 0
    text = ''
    if hi and (nbytes - len(hi[0].encode(cs))) % unit == 0:
        text = hi[0]
    rest = nbytes - len(text.encode(cs))
    if rest % unit:
        return 0
    text = 'a' * (rest // unit) + text
    if len(text.encode(cs)) != nbytes:
        return 0
    try:
        mid = MidiFile(charset=cs)
        mid.tracks.append(MidiTrack([MetaMessage('text', text=text, time=1)]))
        buf = io.BytesIO()
        mid.save(file=buf)
        back = MidiFile(file=io.BytesIO(buf.getvalue()), charset=cs)
        ctx.check('loaded text == original', back.tracks[0][0].text == text, f'exact-payload:{cs}', case, len(back.tracks[0][0].text))
    except Exception as exc:
        ctx.fail('loaded text == original', f'exact-payload:{type(exc).__name__}:{cs}', case, f'{type(exc).__name__}: {str(exc)[:100]}')
        restore_default()
    check_probe(ctx, 'default charset after successful call', 'leak-after-exact-payload', case)
    return 1


def custom_text_spec_case(ctx):
    """The documented helpers for custom meta specs - "encode_string / decode_string convert between a Unicode
    string and a list of bytes using the current character set in the file" - imported BY NAME by the user's
    module, as the documentation's own examples import things: a custom text event follows the file's charset
    like the built-in ones, and nothing leaks afterwards.  (Registers a spec: runs last in its shard.)"""
    from mido.midifiles.meta import MetaSpec, add_meta_spec

    class MetaSpec_vmon_note(MetaSpec):
        type_byte = 0xED
        attributes = ['text']
        defaults = ['']

        def decode(self, message, data):
            message.text = DECODE_STRING(data)

        def encode(self, message):
            return ENCODE_STRING(message.text)

        def check(self, name, value):
            if not isinstance(value, str):
                raise TypeError('text must be a string')
    add_meta_spec(MetaSpec_vmon_note)
    n = 0
    for cs in ('utf-8', 'shift_jis', 'utf-16-le', 'cp1252', 'latin1', 'koi8-r'):
        al = [c for c in alphabet(cs) if ord(c) > 127][:6] or ['x']
        text = 'note ' + ''.join(al)
        case = {'kind': 'custom-text-spec', 'charset': cs}
        try:
            mid = MidiFile(charset=cs)
            mid.tracks.append(MidiTrack([MetaMessage('vmon_note', text=text, time=2), MetaMessage('text', text=text, time=0)]))
            buf = io.BytesIO()
            mid.save(file=buf)
            check_probe(ctx, 'default charset after successful call', f'leak-after-custom-save:{cs}', case)
            d = smf.decode_file(buf.getvalue())
            payloads = [bytes(e[3]) for e in d['tracks'][0] if e[0] == 'meta' and e[2] in (0xED, 0x01)]
            ctx.check('file payload == text.encode(charset)', payloads == [text.encode(cs)] * 2, f'custom-text-spec-payload:{cs}', case,
                      [p_.hex() for p_ in payloads])
            back = MidiFile(file=io.BytesIO(buf.getvalue()), charset=cs)
            got = [getattr(m, 'text', None) for m in back.tracks[0][:2]]
            ctx.check('loaded text == original', got == [text, text] and back.tracks[0][0].type == 'vmon_note', f'custom-text-spec-loaded:{cs}',
                      case, got)
        except Exception as exc:
            ctx.fail('loaded text == original', f'custom-text-spec:{type(exc).__name__}:{cs}', case, f'{type(exc).__name__}: {exc}')
            restore_default()
        check_probe(ctx, 'default charset after successful call', f'leak-after-custom-load:{cs}', case)
        n += 1
    return n


MARKUP = ['{@LATIN}', '{@JP}', '{@latin}', '{#Title=', '@KMIDI KARAOKE FILE', '@LENGL', '@LJAPN', '@TTitle', '\\', '/', '[chorus]', '<b>',
          # text whose bytes look like file structure: end of track (FF 2F 00) in latin1 and in utf-16, chunk names, a tempo event
          '\xff/\x00', '\uff01/', '\u2fff\x00', 'MTrk', 'MThd\x00\x00\x00\x06', '\xffQ\x03\x07\xa1 ', '\xff\x2f', '\uff00\u2f00', '\x00\xff/\x00\x00',
          '%-', '\ufeff', 'charset=utf-8;', '\x1b$B', '&#233;', '\\u00e9', '+AOk-', '=?utf-8?q?', '\x00', '\r\n']


def markup_text_cases(ctx, cs):
    """Text that looks like it means something to somebody - karaoke code-set tags, RP-026 style braces, a BOM, an escape
    sequence, a MIME word, an entity - is text: it comes back as it went in, what follows it in the file is still in the
    file's charset, and decoding such an event outside a file leaves the default where it was."""
    n = 0
    al = [c for c in alphabet(cs) if ord(c) > 127] or alphabet(cs)
    rng = random.Random(f'{cs}:markup')
    for token in MARKUP:
        try:
            if token.encode(cs).decode(cs) != token:
                continue
        except UnicodeError:
            continue
        for t in rmeta.TEXT_TYPES:
            case = {'kind': 'markup-text', 'charset': cs, 'type': t, 'token': repr(token)}
            tail = ''.join(rng.choice(al) for _ in range(4))
            others = [x for x in rmeta.TEXT_TYPES if x != t]
            events = [(t, token + tail), (rng.choice(others), tail + 'a'), (t, tail), (rng.choice(others), token)]
            mid = MidiFile(charset=cs)
            tr = mid.add_track()
            for et, text in events:
                tr.append(MetaMessage(et, **{rmeta.SPECS[et][1][0]: text}, time=1))
            try:
                buf = io.BytesIO()
                mid.save(file=buf)
                check_probe(ctx, 'default charset after successful call', f'leak-after-save:{cs}', case)
                back = MidiFile(file=io.BytesIO(buf.getvalue()), charset=cs)
                check_probe(ctx, 'default charset after successful call', f'leak-after-load:{cs}', case)
                got = [(m.type, getattr(m, rmeta.SPECS[m.type][1][0])) for m in back.tracks[0] if m.type in rmeta.TEXT_TYPES]
                ctx.check('loaded text == original', got == events, f'markup-text-differs:{cs}', case, lambda: {'got': got, 'want': events})
                d = smf.decode_file(buf.getvalue())
                pay = [bytes(e[3]) for e in d['tracks'][0] if e[0] == 'meta' and e[2] != 0x2F]
                ctx.check('file payload == text.encode(charset)', pay == [x.encode(cs) for _, x in events], f'markup-payload:{cs}', case, None)
            except Exception as exc:
                ctx.fail('loaded text == original', f'markup:{type(exc).__name__}:{cs}', case, f'{type(exc).__name__}: {exc}')
                restore_default()
            # the same event decoded on its own, outside any file
            try:
                raw = (token + 'x').encode('latin1', 'replace')
                MetaMessage.from_bytes([0xFF, rmeta.SPECS[t][0], len(raw)] + list(raw))
            except Exception:
                pass
            check_probe(ctx, 'default charset after successful call', 'leak-after-from_bytes-of-markup', case)
            n += 1
    return n


def decoded_elsewhere_cases(ctx, cs):
    """The very same payload bytes are decoded in two places: inside a load with the file's charset, and elsewhere in the
    process (MetaMessage.from_bytes, a load of another file in latin1) with the default.  Each place gets its own reading,
    in either order, however often."""
    n = 0
    rng = random.Random(f'{cs}:elsewhere')
    al = [c for c in alphabet(cs) if ord(c) > 127] or alphabet(cs)
    for rep in range(4):
        text = ''.join(rng.choice(al) for _ in range(rng.choice((1, 3, 8))))
        payload = text.encode(cs)
        as_latin1 = payload.decode('latin1')
        for t in ('lyrics', 'text', 'track_name'):
            tb = rmeta.SPECS[t][0]
            attr = rmeta.SPECS[t][1][0]
            case = {'kind': 'decoded-elsewhere', 'charset': cs, 'type': t, 'text': text}
            b, _ = smf.encode_file(1, 96, [[('meta', 0, tb, list(payload)), ('meta', 0, 0x2F, [])]])
            try:
                order = ('file', 'elsewhere', 'file', 'latin1-file', 'file', 'elsewhere') if rep % 2 else ('elsewhere', 'file', 'elsewhere', 'file')
                MidiFile(file=io.BytesIO(b))                         # some load has happened in this process before
                for step, where in enumerate(order):
                    if where == 'file':
                        got = getattr(MidiFile(file=io.BytesIO(b), charset=cs).tracks[0][0], attr)
                        want = text
                    elif where == 'latin1-file':
                        got = getattr(MidiFile(file=io.BytesIO(b)).tracks[0][0], attr)
                        want = as_latin1
                    else:
                        got = getattr(MetaMessage.from_bytes([0xFF, tb, len(payload)] + list(payload)), attr) if len(payload) < 128 else as_latin1
                        want = as_latin1
                    ctx.check('loaded text == original', got == want, f'same-bytes-decoded-{where}:{cs}', dict(case, step=step, order=list(order)),
                              lambda: {'got': got, 'want': want})
                check_probe(ctx, 'default charset after successful call', f'leak-after-load:{cs}', case)
            except Exception as exc:
                ctx.fail('loaded text == original', f'decoded-elsewhere:{type(exc).__name__}:{cs}', case, f'{type(exc).__name__}: {exc}')
                restore_default()
            n += 1
    return n


def context_manager_case(ctx, cs):
    """MidiFile is also a context manager ("kept around since it was used in examples"): the charset
    must not be in force inside or after the block, nor after a bare __enter__()."""
    case = {'kind': 'with-block', 'charset': cs}
    mid = MidiFile(charset=cs)
    mid.tracks.append(MidiTrack([MetaMessage('text', text='x')]))
    try:
        with mid as m:
            ctx.check('default charset after successful call', probe() is None and m is mid, 'leak-inside-with-block', case, probe())
            mid.save(file=io.BytesIO())
            ctx.check('default charset after successful call', probe() is None, 'leak-inside-with-block-after-save', case, probe())
        check_probe(ctx, 'default charset after successful call', 'leak-after-with-block', case)
        try:
            with MidiFile(charset=cs):
                raise KeyError('consumer fails')
        except KeyError:
            pass
        check_probe(ctx, 'default charset after failed call', 'leak-after-failing-with-block', case)
        MidiFile(charset=cs).__enter__()
        check_probe(ctx, 'default charset after successful call', 'leak-after-bare-enter', case)
        g = iter(MidiFile(file=io.BytesIO(_tiny_file()), charset=cs))
        next(g)
        check_probe(ctx, 'default charset after successful call', 'leak-while-iterating', case)
        p = MidiFile(file=io.BytesIO(_tiny_file()), charset=cs).play(now=lambda: 0.0)
        next(p)
        check_probe(ctx, 'default charset after successful call', 'leak-while-playing', case)
    except Exception as exc:
        ctx.fail('default charset after successful call', f'with-block:{type(exc).__name__}', case, repr(exc))
        restore_default()


def nested_case(ctx, outer, inner):
    """A load/save under charset `inner` (the default latin1 included) while another charset is in
    force: a user-level `with meta_charset(outer)` block, or a save whose track is a generator that
    saves another file half way."""
    from mido.midifiles.meta import meta_charset
    case = {'kind': 'nested', 'outer': outer, 'inner': inner}
    common = [c for c in alphabet(inner) if ord(c) > 127][:4] or ['a']
    text = ''.join(common)
    try:
        with meta_charset(outer):
            mid = MidiFile(charset=inner)
            mid.tracks.append(MidiTrack([MetaMessage('text', text=text), MetaMessage('track_name', name=text, time=1)]))
            buf = io.BytesIO()
            mid.save(file=buf)
            d = smf.decode_file(buf.getvalue())
            got = [bytes(e[3]) for e in d['tracks'][0] if e[0] == 'meta' and e[2] in (1, 3)]
            ctx.check('file payload == text.encode(charset)', got == [text.encode(inner)] * 2, f'nested-save:{outer}>{inner}', case,
                      lambda: [g.hex() for g in got])
            back = MidiFile(file=io.BytesIO(buf.getvalue()), charset=inner)
            ctx.check('loaded text == original', back.tracks[0][0].text == text, f'nested-load:{outer}>{inner}', case,
                      repr(back.tracks[0][0].text))
            # the enclosing charset is in force again
            import mido.midifiles.meta as mm
            ctx.check('default charset after successful call', mm._charset == outer, 'nested-outer-not-restored', case, mm._charset)
        check_probe(ctx, 'default charset after successful call', 'leak-after-nested', case)

        # a save inside a save: the outer file's track is a generator that saves the inner file half way
        inner_bytes = []
        otext = 'x' + ''.join([c for c in alphabet(outer) if ord(c) > 127][:3])

        def track():
            yield MetaMessage('text', text=otext)
            m2 = MidiFile(charset=inner)
            m2.tracks.append(MidiTrack([MetaMessage('lyrics', text=text)]))
            b2 = io.BytesIO()
            m2.save(file=b2)
            inner_bytes.append(b2.getvalue())
            yield MetaMessage('marker', text=otext[::-1], time=2)
        big = MidiFile(charset=outer)
        big.tracks.append(track())
        b = io.BytesIO()
        big.save(file=b)
        d = smf.decode_file(b.getvalue())
        got = [bytes(e[3]) for e in d['tracks'][0] if e[0] == 'meta' and e[2] in (1, 6)]
        want = [otext.encode(outer), otext[::-1].encode(outer)]
        ctx.check('file payload == text.encode(charset)', got == want, f'save-inside-save-outer:{outer}>{inner}', case,
                  lambda: [g.hex() for g in got])
        d2 = smf.decode_file(inner_bytes[0])
        got2 = [bytes(e[3]) for e in d2['tracks'][0] if e[0] == 'meta' and e[2] == 5]
        ctx.check('file payload == text.encode(charset)', got2 == [text.encode(inner)], f'save-inside-save-inner:{outer}>{inner}',
                  case, lambda: [g.hex() for g in got2])
        check_probe(ctx, 'default charset after successful call', 'leak-after-save-inside-save', case)
    except Exception as exc:
        ctx.fail('file payload == text.encode(charset)', f'nested:{type(exc).__name__}', case, f'{type(exc).__name__}: {str(exc)[:120]}')
        restore_default()


def _tiny_file():
    mid = MidiFile()
    mid.tracks.append(MidiTrack([Message('note_on', time=0), Message('note_off', time=0)]))
    b = io.BytesIO()
    mid.save(file=b)
    return b.getvalue()


class FaultyFile:
    """File object whose k-th read()/write() raises OSError."""

    def __init__(self, inner, k):
        self.inner, self.k, self.n = inner, k, 0

    def _tick(self):
        self.n += 1
        if self.n == self.k:
            raise OSError(5, 'injected I/O error')

    def read(self, size=-1):
        self._tick()
        return self.inner.read(size)

    def write(self, data):
        self._tick()
        return self.inner.write(data)

    def tell(self):
        return self.inner.tell()


class CountingFile(FaultyFile):
    def __init__(self, inner):
        super().__init__(inner, -1)


def fault_sweep(ctx, cs, seed, tier):
    """All classic fault kinds for one file under charset cs."""
    rng = random.Random(seed)
    mid, texts = build_file(rng, cs, ntext=2)
    buf = io.BytesIO()
    mid.save(file=buf)
    b = buf.getvalue()
    n = 0
    base = {'kind': 'faults', 'charset': cs, 'seed': seed}

    def after(kind, pos, failed):
        nonlocal n
        n += 1
        clause = 'default charset after failed call' if failed else 'default charset after successful call'
        check_probe(ctx, clause, f'leak:{kind}', lambda: {**base, 'fault': kind, 'pos': pos})

    # truncation at every byte offset
    step = 1 if (tier == 'thorough' or len(b) < 160) else 2
    for cut in range(0, len(b), step):
        try:
            MidiFile(file=io.BytesIO(b[:cut]), charset=cs)
            failed = False
        except Exception:
            failed = True
        after('truncate', cut, failed)
    # one data byte raised above 127 / a status byte damaged, at each offset in the track data
    for pos in range(22, len(b), 3 if tier == 'quick' else 1):
        bb = bytearray(b)
        bb[pos] |= 0x80
        try:
            MidiFile(file=io.BytesIO(bytes(bb)), charset=cs)
            failed = False
        except Exception:
            failed = True
        after('highbit', pos, failed)
    # k-th read raises
    cf = CountingFile(io.BytesIO(b))
    MidiFile(file=cf, charset=cs)
    for k in range(1, cf.n + 1, 1 if tier == 'thorough' else 3):
        try:
            MidiFile(file=FaultyFile(io.BytesIO(b), k), charset=cs)
            failed = False
        except Exception:
            failed = True
        after('read-raises', k, failed)
    # k-th write raises
    cf = CountingFile(io.BytesIO())
    mid.save(file=cf)
    for k in range(1, cf.n + 1):
        try:
            mid.save(file=FaultyFile(io.BytesIO(), k))
            failed = False
        except Exception:
            failed = True
        after('write-raises', k, failed)
    # non-integer / negative time in the n-th message
    flat = [(ti, mi) for ti, tr in enumerate(mid.tracks) for mi in range(len(tr))]
    for ti, mi in flat:
        m = mid.tracks[ti][mi]
        old = m.time
        m.time = rng.choice((0.5, -1, float('nan')))
        try:
            mid.save(file=io.BytesIO())
            failed = False
        except Exception:
            failed = True
        m.time = old
        after('bad-time', [ti, mi], failed)
    # text not encodable in the save charset (where such text exists)
    foreign = [c for c in ('€', 'あ', 'Ж', '\xe9', '一') if _unencodable(c, cs)]
    for ch in foreign[:2]:
        mid2, _ = build_file(random.Random(seed), cs, ntext=2)
        mid2.tracks[-1].append(MetaMessage('marker', text='ab' + ch))
        try:
            mid2.save(file=io.BytesIO())
            failed = False
        except Exception:
            failed = True
        after('unencodable', ch, failed)
    # bytes not decodable in the load charset
    bad = {'ascii': b'\xff', 'utf-8': b'\xff\xfe\xfa', 'utf-16': b'\x00\xd8\x00', 'utf-16-le': b'\x00\xd8\x00',
           'shift_jis': b'\x81', 'euc-jp': b'\x8f\xff', 'gb2312': b'\xff\xff', 'big5': b'\xff',
           'utf-32': b'\x01', 'cp1252': b'\x81', 'utf-8-sig': b'\xff'}.get(cs)
    if bad:
        ev = [('meta', 0, 0x01, list(bad)), ('ch', 1, 0x90, [1, 2]), smf.EOT]
        fb, _ = smf.encode_file(1, 96, [ev])
        try:
            MidiFile(file=io.BytesIO(fb), charset=cs)
            failed = False
        except Exception:
            failed = True
        after('undecodable', cs, failed)
    return n


def _unencodable(ch, cs):
    try:
        ch.encode(cs)
        return False
    except UnicodeError:
        return True


def line_sweep(ctx, cs, seed, fp, stride=1):
    """InjectedFault at every executed line of one load and one save."""
    rng = random.Random(seed)
    mid, texts = build_file(rng, cs, ntext=2)
    buf = io.BytesIO()
    mid.save(file=buf)
    b = buf.getvalue()
    total = 0
    for what, thunk in (('save', lambda: mid.save(file=io.BytesIO())),
                        ('load', lambda: MidiFile(file=io.BytesIO(b), charset=cs))):
        n = fp.count(thunk)
        ctx.extra(f'lines_per_{what}', {cs: n})
        sites = set()
        for k in range(1, n + 1, stride):
            outcome, val = fp.inject(k, thunk, base=(k % 2 == 0))
            case = lambda: {'kind': 'line', 'charset': cs, 'seed': seed, 'call': what, 'k': k,  # noqa: E731
                            'site': list(fp.fired_at or ())}
            if fp.fired_at:
                sites.add(fp.fired_at)
            ctx.check('failpoint fired', fp.fired_at is not None, 'failpoint-not-reached', case, outcome)
            where = '%s:%s' % ((fp.fired_at or ('?', '?'))[:2])
            check_probe(ctx, 'default charset after injected fault', f'leak-after-injected-fault:{what}',
                        case)
            total += 1
        ctx.extra('distinct_injection_sites', {f'{s[0]}:{s[1]}:{s[2]}' for s in sites})
    return total


def run(ctx):
    n = 0
    sh, N = ctx.shard, ctx.nshards
    restore_default()
    nr = 48 if ctx.tier == 'quick' else 15000
    for ci, cs in enumerate(CHARSETS):
        for j in range(nr):
            if (ci * nr + j) % N != sh:
                continue
            seed = f'{ctx.seed}:{cs}:r{j}'
            roundtrip(ctx, cs, seed)
            ctx.nontrivial(('rt', cs, seed))
            n += 1
            if j == 0:
                ctx.put_sample({'charset': cs, 'text': rand_text(random.Random(seed), cs, 6),
                                'encoded': rand_text(random.Random(seed), cs, 6).encode(cs).hex()})
    pairs = [(a, b) for a in CHARSETS for b in CHARSETS if a != b]
    for pi, (a, b) in enumerate(pairs):
        if pi % N != sh or (ctx.tier == 'quick' and pi % 3):
            continue
        reassigned_charset(ctx, a, b, f'{ctx.seed}:{a}:{b}')
        ctx.nontrivial(('reassign', a, b))
        n += 1
    multibyte = [c for c in CHARSETS if c not in ('latin1', 'ascii', 'cp1252', 'cp437', 'iso8859-15', 'koi8-r')]
    k = 0
    for ci, cs in enumerate(multibyte):
        for oi, off in enumerate((65533, 65534, 65535, 65536)):
            if (ci * 4 + oi) % N == sh and (ctx.tier == 'thorough' or oi in (1, 2)):
                long_text_case(ctx, cs, off)
                ctx.nontrivial(('long-text', cs, off))
                k += 1
    for ci, (cs, nb) in enumerate([(c, b) for c in ('latin1', 'utf-8', 'shift_jis', 'utf-16-le') for b in (999999, 1000000)]):
        if ci % N == (sh + 7) % N and (ctx.tier == 'thorough' or nb == 1000000):
            k += exact_payload_case(ctx, cs, nb)
    nest = [(o, i) for o in ('utf-8', 'utf-16', 'shift_jis', 'cp1252', 'latin1') for i in ('latin1', 'utf-8', 'cp437', 'latin-1', 'iso-8859-1')
            if o != i]
    for ni, (o, i) in enumerate(nest):
        if ni % N == sh:
            nested_case(ctx, o, i)
            ctx.nontrivial(('nested', o, i))
            k += 1
    for ci, cs in enumerate(CHARSETS):
        if (ci + 9) % N == sh and cs not in ('latin1', 'ascii'):
            k_ = decoded_elsewhere_cases(ctx, cs)
            ctx.nontrivial(None, k_)
            k += k_
        if (ci + 5) % N == sh:
            k_ = markup_text_cases(ctx, cs)
            ctx.nontrivial(None, k_)
            k += k_
    for ci, cs in enumerate(CHARSETS):
        if cs != 'latin1' and ci % N == sh:
            context_manager_case(ctx, cs)
            ctx.nontrivial(('with', cs))
            k += 1
    n += k
    # classic faults
    nf = 2 if ctx.tier == 'quick' else 60
    for ci, cs in enumerate(CHARSETS):
        for j in range(nf):
            if (ci * nf + j) % N != sh:
                continue
            k = fault_sweep(ctx, cs, f'{ctx.seed}:{cs}:f{j}', ctx.tier)
            ctx.nontrivial(None, k)
            ctx.extra('classic_fault_cases', k)
            n += k
    # failpoints at every line
    codes = lines.code_objects(MODULES)
    exclude = lines.codes_of(mido.midifiles.meta.meta_charset)
    ns = 2 if ctx.tier == 'quick' else 150
    with lines.Failpoints(codes, exclude) as fp:
        for ci, cs in enumerate(CHARSETS):
            if cs == 'latin1':
                continue
            for j in range(ns):
                if (ci * ns + j) % N != sh:
                    continue
                k = line_sweep(ctx, cs, f'{ctx.seed}:{cs}:l{j}', fp)
                ctx.nontrivial(None, k)
                ctx.extra('line_injections', k)
                n += k
    if sh == 3 % N:
        k = custom_text_spec_case(ctx)           # registers a meta spec: last thing this shard does
        ctx.nontrivial(None, k)
        n += k
    ctx.count('cases', n)
    ctx.extra('instrumented_code_objects', len(codes) if sh == 0 else 0)


def replay(ctx, case):
    if case.get('kind') == 'custom-text-spec':
        custom_text_spec_case(ctx)
        return
    restore_default()
    k = case['kind']
    if k == 'roundtrip':
        roundtrip(ctx, case['charset'], case['seed'])
    elif k == 'nested':
        nested_case(ctx, case['outer'], case['inner'])
    elif k == 'long-text':
        long_text_case(ctx, case['charset'], case['ascii_prefix'])
    elif k == 'with-block':
        context_manager_case(ctx, case['charset'])
    elif k == 'reassign':
        reassigned_charset(ctx, case['a'], case['b'], case['seed'])
    elif k == 'faults':
        fault_sweep(ctx, case['charset'], case['seed'], 'thorough')
    else:
        codes = lines.code_objects(MODULES)
        with lines.Failpoints(codes, lines.codes_of(mido.midifiles.meta.meta_charset)) as fp:
            line_sweep(ctx, case['charset'], case['seed'], fp)
