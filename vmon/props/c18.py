"""C18 - Socket ports deliver exactly the complete messages before a disconnect.

Real stream sockets: socket.socketpair() and TCP loopback (PortServer /
connect).  The peer is the harness itself in lock-step (send a segment, let the
port poll until empty, ... then disconnect at a chosen byte offset), a thread
sending with pauses, or a forked child that is SIGKILLed after sending a
prefix.  The byte stream is built from known encodings, so the expected result
is "the messages whose last byte lies before the cut", independent of any
parser.  "Without blocking for ever" is decided by counting ports.sleep() calls
(patched) - a logical-step bound, not a wall-clock one.
"""
import os
import random
import select
import signal
import socket
import sys
import threading
import time

import mido
import mido.ports
import mido.sockets
from mido import Message
from mido.sockets import PortServer, SocketPort, connect, format_address, parse_address

from .. import gen
from ..core import HarnessAbort
from ..ref import midi1

ID = 'C18'
ANCHORS = ['mido.sockets', 'mido.ports']
LEVEL = 'fault_enumeration'
RULE = ('message sequences (1-8 messages of all types incl. sysex up to 300 bytes) x EVERY cut '
        'offset 0..len(stream) at which the peer disconnects x segmentations of the bytes before '
        'the cut {byte-wise, whole, random} with poll() calls between segments (socketpair, '
        'lock-step, deterministic); peer thread with pauses; forked peer killed with SIGKILL '
        'after a prefix; close() on either side seen by the other (socketpair and accepted TCP '
        'connections); PortServer with 1-3 clients; every port 1..65535 x hosts for the address '
        'functions. Distinct by (stream hash, cut, segmentation); non-trivial when the cut falls '
        'inside or right after a message (cuts at 0 are run and counted as trivial)')
ASSUMPTIONS = [
    'the peer disconnects with FIN (close or SIGKILL); one RST shape is judged as well: the local port replies to a peer that has already left and then iterates (data and FIN were received before the RST); other RST-style deaths are not judged',
    'TCP is exercised over 127.0.0.1 only',
    'a blocking server receive() is given real 1 ms sleeps and must return within 300 of them once the clients have sent; poll() / iter_pending() must not sleep at all',
]
DECIDING = ['delivered == complete messages before the cut', 'iteration ends without exception',
            'port reports closed after disconnect', 'close is seen by the peer',
            'server hands out every client message exactly once', 'server calls do not block',
            'parse_address(format_address(h, p)) == (h, p)']
TIMEOUT = {'quick': 600, 'thorough': 3600}
ENV_FULL = True        # cheap enough: every shard runs once in each interpreter environment (core.ENV_MODES)


def nshards(tier):
    return 16


class Sleeps:
    def __init__(self, limit=300, real=0.0):
        self.n = 0
        self.limit = limit
        self.real = real

    def __call__(self):
        self.n += 1
        if self.n > self.limit:
            raise HarnessAbort(f'still sleeping after {self.limit} sleeps')
        if self.real:
            time.sleep(self.real)


def rand_msgs(rng, k):
    out = []
    for i in range(k):
        if out and rng.random() < 0.3:
            out.append(rng.choice(out).copy())            # the same message again
            continue
        t = gen.random_type(rng, exclude=midi1.REALTIME_TYPES)
        a = gen.random_attrs(t, rng, maxdata=rng.choice((3, 12, 300)))
        out.append(Message(t, **a))
    return out


def keep(got, m):
    """Record what was received, then do what a recording application does: stamp the message.
    A port that hands out the same object twice would show the stamp on the next arrival."""
    got.append(m.copy())
    try:
        m.time = 12345
        if 'note' in vars(m):
            m.note = (m.note + 1) % 128
    except Exception:
        pass


def stream_of(msgs):
    ends = []
    stream = []
    for m in msgs:
        stream += midi1.encode(m.type, {k: v for k, v in vars(m).items() if k not in ('type', 'time')})
        ends.append(len(stream))
    return bytes(stream), ends


def drain_polls(port, out, limit=10000):
    for _ in range(limit):
        m = port.poll()
        if m is None:
            return
        keep(out, m)


def take_one_pending(port, out):
    """The consumer looks at the first pending message only (for m in port.iter_pending(): ...; break) - the rest stays."""
    for m in port.iter_pending():
        keep(out, m)
        break


def cut_case(ctx, msgs, cut, seg, seed):
    """Lock-step: send stream[:cut] in segments with polls in between, then
    the peer disconnects; then iterate to the end."""
    stream, ends = stream_of(msgs)
    want = [m for m, e in zip(msgs, ends) if e <= cut]
    case = lambda: {'kind': 'cut', 'msgs': [m.hex() for m in msgs], 'cut': cut, 'seg': seg, 'seed': seed,  # noqa: E731
                    'autoreset': (cut + len(msgs)) % 4 == 3}
    rng = random.Random(seed)
    a, b = socket.socketpair()
    port = SocketPort('peer', 1, conn=a)
    if (cut + len(msgs)) % 4 == 3:
        # autoreset is an attribute of every output port: the port then answers the disconnect with its reset burst,
        # learns from the failing writes that the peer is gone, and has to end up closed all the same
        port.autoreset = True
    got = []
    sleeps = Sleeps(limit=50)
    orig = mido.ports.sleep
    mido.ports.sleep = sleeps
    try:
        data = stream[:cut]
        if seg == 'byte':
            cuts = list(range(1, len(data)))
        elif seg == 'whole':
            cuts = []
        else:
            cuts = sorted({rng.randrange(len(data) + 1) for _ in range(rng.randrange(1, 5))}) if data else []
        prev = 0
        for c in cuts + [len(data)]:
            if c > prev:
                b.sendall(data[prev:c])
                if seg != 'whole' and rng.random() < 0.25:
                    # the next segment is late: seconds (or an hour) pass on every clock of the process before it is read
                    from .. import clock
                    clock.advance(rng.choice((1.5, 40.0, 3600.0)))
            prev = c
            if seg != 'whole' and rng.random() < 0.7:
                if rng.random() < 0.3:
                    take_one_pending(port, got)
                else:
                    drain_polls(port, got)
        b.close()
        if rng.random() < 0.3:
            take_one_pending(port, got)
        try:
            if rng.random() < 0.4:
                # the consumer leaves the loop after every second message and comes back (iterates again, polls)
                for _ in range(len(msgs) + 3):
                    k = 0
                    for m in port:
                        keep(got, m)
                        k += 1
                        if k == 2:
                            break
                    if k < 2:
                        break
                    if rng.random() < 0.5:
                        drain_one = port.poll()
                        if drain_one is not None:
                            keep(got, drain_one)
            for m in port:
                keep(got, m)
            ctx.count('iteration ends without exception')
        except HarnessAbort as exc:
            ctx.check('iteration ends without exception', False, 'iteration-never-ends', case, str(exc))
        except Exception as exc:
            ctx.check('iteration ends without exception', False, f'iteration-raised:{type(exc).__name__}', case,
                      f'{type(exc).__name__}: {exc}')
        ctx.check('delivered == complete messages before the cut', got == want,
                  'lost' if len(got) < len(want) else 'extra-or-corrupt', case,
                  lambda: {'got': [m.hex() for m in got], 'want': [m.hex() for m in want]})
        ctx.check('port reports closed after disconnect', port.closed, 'not-closed', case, None)
        # afterwards: poll gives None, send raises
        try:
            ctx.check('port reports closed after disconnect', port.poll() is None, 'poll-after-eof', case, None)
        except Exception as exc:
            ctx.fail('port reports closed after disconnect', f'poll-after-eof:{type(exc).__name__}', case, str(exc))
    finally:
        mido.ports.sleep = orig
        try:
            port.close()
        except Exception:
            pass
        b.close()
    inside = any(e - 1 <= cut <= e for e in ends) or any(s < cut < e for s, e in zip([0] + ends, ends))
    return cut > 0 and inside


def peer_sees_close(ctx, how):
    case = {'kind': 'close-visible', 'how': how}
    a, b = socket.socketpair()
    port = SocketPort('x', 1, conn=a)
    try:
        if how == 'after-traffic':
            b.sendall(bytes([0x90, 1, 2]))
            port.send(Message('note_on', note=5))
            port.poll()
        elif how == 'with':
            with port:
                pass
        if how != 'with':
            port.close()
        b.settimeout(5.0)
        data = b''
        try:
            while True:
                chunk = b.recv(64)
                if chunk == b'':
                    ok = True
                    break
                data += chunk
        except socket.timeout:
            ok = False
        ctx.check('close is seen by the peer', ok, 'peer-sees-no-eof', case,
                  {'fd_still_open': a.fileno() if a.fileno() != -1 else None})
        try:
            port.send(Message('clock'))
            ctx.check('port reports closed after disconnect', False, 'send-after-close', case, None)
        except ValueError:
            ctx.count('port reports closed after disconnect')
        ctx.check('port reports closed after disconnect', port.closed and port.poll() is None and list(port) == [],
                  'closed-port-not-quiet', case, None)
        port.close()      # idempotent
    except Exception as exc:
        ctx.fail('close is seen by the peer', f'close-visible:{type(exc).__name__}', case, f'{type(exc).__name__}: {exc}')
    finally:
        b.close()


def close_while_receiving_case(ctx, how):
    """One thread waits in a blocking receive on a silent connection, another closes the port.
    Verdict by state: 10 s later close() has still not returned while the receiver is still inside
    receive()."""
    case = {'kind': 'close-while-receiving', 'how': how}
    a, b = socket.socketpair()
    port = SocketPort('x', 1, conn=a)
    got, errors = [], []

    def receiver():
        try:
            if how == 'iterate':
                for m in port:
                    got.append(m)
            else:
                got.append(port.receive())
        except Exception as exc:
            errors.append(exc)
    ra = threading.Thread(target=receiver, daemon=True)
    ra.start()
    b.sendall(bytes([0x90, 1, 2]))
    t_end = time.time() + 5
    while time.time() < t_end and not got:
        time.sleep(0.002)
    if how == 'receive':
        ra.join(5)
        ra = threading.Thread(target=receiver, daemon=True)      # a second receive: nothing will come
        ra.start()
    time.sleep(0.05)
    closer = threading.Thread(target=port.close, daemon=True)
    closer.start()
    closer.join(10)
    stuck = closer.is_alive()
    ctx.check('port reports closed after disconnect', not stuck, 'close-blocked-by-receiver', case,
              {'close_returned': not stuck, 'receiver_alive': ra.is_alive()})
    if stuck:
        b.close()                       # let the receiver see EOF so that the threads can end
        ra.join(5)
        return
    ra.join(10)
    ctx.check('iteration ends without exception', not ra.is_alive() and (how == 'receive' or not errors),
              'receiver-survives-close', case, {'alive': ra.is_alive(), 'errors': [repr(e) for e in errors]})
    b.settimeout(5)
    try:
        eof = b.recv(16) == b''
    except Exception:
        eof = False
    ctx.check('close is seen by the peer', eof and port.closed, 'peer-sees-no-eof-after-concurrent-close', case, None)
    ctx.check('delivered == complete messages before the cut', [m.hex() for m in got] == ['90 01 02'],
              'close-while-receiving-lost', case, [m.hex() for m in got])
    b.close()


def wait_readable(sock, timeout=5.0):
    return bool(select.select([sock], [], [], timeout)[0])


def thread_peer_case(ctx, seed):
    rng = random.Random(seed)
    msgs = rand_msgs(rng, rng.randrange(1, 8))
    stream, ends = stream_of(msgs)
    case = lambda: {'kind': 'thread-peer', 'seed': seed}  # noqa: E731
    a, b = socket.socketpair()
    port = SocketPort('peer', 1, conn=a)

    def peer():
        pos = 0
        r = random.Random(seed + 'p')
        while pos < len(stream):
            n = r.choice((1, 2, 3, 7, 50))
            b.sendall(stream[pos:pos + n])
            pos += n
            if r.random() < 0.3:
                time.sleep(0.001)
        b.close()

    th = threading.Thread(target=peer, daemon=True)
    sleeps = Sleeps(limit=5000, real=0.0005)
    orig = mido.ports.sleep
    mido.ports.sleep = sleeps
    try:
        th.start()
        got = list(port)
        ctx.check('delivered == complete messages before the cut', got == msgs, 'thread-peer-differs', case,
                  lambda: {'got': [m.hex() for m in got][:6], 'want': [m.hex() for m in msgs][:6]})
        ctx.check('port reports closed after disconnect', port.closed, 'thread-peer-not-closed', case, None)
        ctx.count('iteration ends without exception')
    except HarnessAbort as exc:
        ctx.check('iteration ends without exception', False, 'thread-peer-never-ends', case, str(exc))
    except Exception as exc:
        ctx.check('iteration ends without exception', False, f'thread-peer-raised:{type(exc).__name__}', case,
                  f'{type(exc).__name__}: {exc}')
    finally:
        mido.ports.sleep = orig
        th.join(5)
        port.close()
        b.close()


def killed_peer_case(ctx, seed):
    """A forked peer sends a prefix and is then killed with SIGKILL."""
    rng = random.Random(seed)
    msgs = rand_msgs(rng, rng.randrange(1, 6))
    stream, ends = stream_of(msgs)
    cut = rng.randrange(len(stream) + 1)
    want = [m for m, e in zip(msgs, ends) if e <= cut]
    case = lambda: {'kind': 'killed-peer', 'seed': seed, 'cut': cut}  # noqa: E731
    a, b = socket.socketpair()
    r, w = os.pipe()
    pid = os.fork()
    if pid == 0:
        try:
            a.close()
            os.close(r)
            b.sendall(stream[:cut])
            os.write(w, b'x')
            time.sleep(60)
        finally:
            os._exit(0)
    b.close()
    os.close(w)
    port = SocketPort('child', 1, conn=a)
    sleeps = Sleeps(limit=3000, real=0.001)
    orig = mido.ports.sleep
    mido.ports.sleep = sleeps
    try:
        os.read(r, 1)                     # the prefix has been written
        got = []
        if rng.random() < 0.5:
            drain_polls(port, got)
        os.kill(pid, signal.SIGKILL)
        os.waitpid(pid, 0)
        for m in port:
            got.append(m)
        ctx.count('iteration ends without exception')
        ctx.check('delivered == complete messages before the cut', got == want, 'killed-peer-differs', case,
                  lambda: {'got': [m.hex() for m in got], 'want': [m.hex() for m in want]})
        ctx.check('port reports closed after disconnect', port.closed, 'killed-peer-not-closed', case, None)
    except HarnessAbort as exc:
        ctx.check('iteration ends without exception', False, 'killed-peer-never-ends', case, str(exc))
    except Exception as exc:
        ctx.check('iteration ends without exception', False, f'killed-peer-raised:{type(exc).__name__}', case,
                  f'{type(exc).__name__}: {exc}')
    finally:
        mido.ports.sleep = orig
        try:
            os.kill(pid, signal.SIGKILL)
        except OSError:
            pass
        os.close(r)
        port.close()


def server_case(ctx, seed, nclients, mode, clock='steady'):
    rng = random.Random(seed)
    case = lambda: {'kind': 'server', 'seed': seed, 'clients': nclients, 'mode': mode, 'wall_clock': clock}  # noqa: E731
    # the wall clock may be set back by an hour while the server runs (all waiting here is on the monotonic clock)
    real_time, offset = time.time, [0.0]
    if clock != 'steady':
        time.time = lambda: real_time() + offset[0]
    sleeps = Sleeps(limit=300, real=0.001)
    orig = mido.ports.sleep
    mido.ports.sleep = sleeps
    server = None
    clients = []
    try:
        server = PortServer('127.0.0.1', 0)
        portno = server._socket.getsockname()[1]
        sent = []
        got = []
        for c in range(nclients):
            if c == 1 and clock != 'steady':
                offset[0] -= 3600.0
            cl = connect('127.0.0.1', portno)
            clients.append(cl)
            # the default listen backlog is 1: let the server accept before the next client connects
            for _ in range(200):
                m = server.poll()
                if m is not None:
                    got.append(m)
                if len(server.ports) > c:
                    break
                time.sleep(0.001)
        for c, cl in enumerate(clients):
            for q in range(rng.randrange(1, 4)):
                m = Message('note_on', channel=c, note=q, velocity=rng.randrange(128))
                cl.send(m)
                sent.append(m)
                if rng.random() < 0.3:
                    cl.send(m)                        # the same note again: two messages
                    sent.append(m)
            # keep-alives and clock ticks look all alike - each one sent is one to hand out
            for t in rng.choice(((), ('active_sensing', 'active_sensing'), ('clock', 'clock', 'clock'),
                                 ('active_sensing', 'clock', 'active_sensing', 'active_sensing'), ('active_sensing',))):
                m = Message(t)
                cl.send(m)
                sent.append(m)
        t_end = time.monotonic() + 20
        rounds = 0
        while len(got) < len(sent) and time.monotonic() < t_end and rounds < 3000:
            rounds += 1
            sleeps.n = 0
            if mode == 'poll':
                m = server.poll()
                ctx.check('server calls do not block', sleeps.n == 0, 'server-poll-slept', case, sleeps.n)
                if m is None:
                    time.sleep(0.001)
                else:
                    got.append(m)
            elif mode == 'iter_pending':
                ms = list(server.iter_pending())
                ctx.check('server calls do not block', sleeps.n == 0, 'server-iter_pending-slept', case, sleeps.n)
                got.extend(ms)
                if not ms:
                    time.sleep(0.001)
            else:
                m = server.receive()
                got.append(m)
        key = lambda m: (m.type, getattr(m, 'channel', -1), getattr(m, 'note', -1))  # noqa: E731
        ctx.check('server hands out every client message exactly once',
                  sorted(map(key, got)) == sorted(map(key, sent)) and all(g in sent for g in got),
                  'server-lost-or-duplicated', case,
                  lambda: {'got': sorted(map(key, got)), 'sent': sorted(map(key, sent))})
        # per client order
        for c in range(nclients):
            seq = [m.note for m in got if getattr(m, 'channel', -1) == c]
            ctx.check('server hands out every client message exactly once', seq == sorted(seq),
                      'server-per-client-order', case, seq)
        # nothing more
        sleeps.n = 0
        ctx.check('server calls do not block', server.poll() is None and sleeps.n == 0, 'server-extra', case, None)
        # a client that disconnects is dropped; a server-side close is seen by the client
        if clients:
            srv_ports = list(server.ports)
            victim = clients[0]
            if srv_ports:
                sp = [p for p in srv_ports if True][0]
                sp.close()
                # which client is connected to sp is unknown: some client must see EOF
                deadline = time.monotonic() + 5
                seen = False
                while time.monotonic() < deadline and not seen:
                    for cl in clients:
                        if not cl.closed and wait_readable(cl._socket, 0.01):
                            cl.poll()
                        if cl.closed:
                            seen = True
                    time.sleep(0.001)
                ctx.check('close is seen by the peer', seen, 'server-side-close-invisible', case, None)
        server.close()
        deadline = time.monotonic() + 5
        allclosed = False
        while time.monotonic() < deadline and not allclosed:
            for cl in clients:
                if not cl.closed and wait_readable(cl._socket, 0.01):
                    cl.poll()
            allclosed = all(cl.closed for cl in clients)
        ctx.check('close is seen by the peer', allclosed, 'server-close-invisible', case,
                  [cl.closed for cl in clients])
    except HarnessAbort as exc:
        ctx.check('server calls do not block', False, f'server-{mode}-never-returns', case, str(exc))
    except Exception as exc:
        ctx.fail('server hands out every client message exactly once', f'server:{type(exc).__name__}', case,
                 f'{type(exc).__name__}: {exc}')
    finally:
        time.time = real_time
        mido.ports.sleep = orig
        for cl in clients:
            try:
                cl.close()
            except Exception:
                pass
        if server is not None:
            try:
                server.close()
            except Exception:
                pass


def half_close_case(ctx, seed):
    """The peer finishes SENDING (shutdown of its write side, possibly inside a message) and then waits for
    our end to hang up: the port yields the complete messages, ends iteration, reports closed - and the peer
    sees the disconnect (the connection is really released, not just marked closed)."""
    rng = random.Random(seed)
    msgs = rand_msgs(rng, rng.randrange(1, 5))
    stream, ends = stream_of(msgs)
    cut = rng.choice((len(stream), len(stream), rng.randrange(len(stream) + 1)))
    want = [m for m, e in zip(msgs, ends) if e <= cut]
    case = {'kind': 'half-close', 'seed': seed, 'cut': cut}
    a, b = socket.socketpair()
    port = SocketPort('peer', 1, conn=a)
    sleeps = Sleeps(limit=50)
    orig = mido.ports.sleep
    mido.ports.sleep = sleeps
    try:
        b.sendall(stream[:cut])
        b.shutdown(socket.SHUT_WR)
        got = []
        try:
            for m in port:
                got.append(m)
            ctx.count('iteration ends without exception')
        except HarnessAbort as exc:
            ctx.check('iteration ends without exception', False, 'half-close-never-ends', case, str(exc))
        except Exception as exc:
            ctx.check('iteration ends without exception', False, f'half-close-raised:{type(exc).__name__}', case, str(exc))
        ctx.check('delivered == complete messages before the cut', got == want, 'half-close-differs', case,
                  lambda: {'got': [m.hex() for m in got], 'want': [m.hex() for m in want]})
        ctx.check('port reports closed after disconnect', port.closed, 'half-close-not-closed', case, None)
        b.settimeout(5.0)
        try:
            data = b.recv(16)
            seen = data == b''
        except (socket.timeout, TimeoutError):
            seen = False
        except OSError:
            seen = True          # a reset also ends the connection
        ctx.check('close is seen by the peer', seen, 'half-close:peer-never-sees-the-disconnect', case,
                  {'port.closed': port.closed, 'fileno': port._socket.fileno()})
    finally:
        mido.ports.sleep = orig
        try:
            port.close()
        except Exception:
            pass
        b.close()
        a.close()


def concurrent_ports_case(ctx, seed, nports=3, nmsgs=400):
    """Several socket ports of one process, each iterated by its own thread while the peers write
    (free-running threads with a switch interval of a microsecond): every port yields exactly its own
    peer's messages, in order, uncorrupted."""
    import sys
    import threading
    rng = random.Random(seed)
    case = {'kind': 'concurrent-ports', 'seed': seed, 'ports': nports, 'messages_each': nmsgs}
    pairs = [socket.socketpair() for _ in range(nports)]
    ports = [SocketPort(f'p{i}', 1, conn=a) for i, (a, b) in enumerate(pairs)]
    sent = [[Message('note_on', channel=i, note=rng.randrange(128), velocity=rng.randrange(128)) if k % 5 else
             Message('sysex', data=(i, k % 128, rng.randrange(128))) for k in range(nmsgs)] for i in range(nports)]
    got = [[] for _ in range(nports)]
    errors = []
    old = sys.getswitchinterval()
    sys.setswitchinterval(1e-6)

    def reader(i):
        try:
            for m in ports[i]:
                got[i].append(m)
        except Exception as exc:
            errors.append(f'port {i}: {type(exc).__name__}: {exc}')

    def writer(i):
        try:
            b = pairs[i][1]
            data = b''.join(bytes(m.bytes()) for m in sent[i])
            pos = 0
            while pos < len(data):
                k = rng.randrange(1, 9)
                b.sendall(data[pos:pos + k])
                pos += k
            b.close()
        except Exception as exc:
            errors.append(f'writer {i}: {type(exc).__name__}: {exc}')
    try:
        ths = [threading.Thread(target=reader, args=(i,), daemon=True) for i in range(nports)] + \
              [threading.Thread(target=writer, args=(i,), daemon=True) for i in range(nports)]
        for t in ths:
            t.start()
        for t in ths:
            t.join(60.0)
        alive = [t for t in ths if t.is_alive()]
        if alive:
            ctx.undecided('concurrent-ports: threads still running after 60 s')
            return
        ctx.check('iteration ends without exception', not errors, 'concurrent-ports-raised', case, errors[:3])
        bad = [i for i in range(nports) if got[i] != sent[i]]
        ctx.check('delivered == complete messages before the cut', not bad, 'concurrent-ports-differ', case,
                  lambda: {'ports_with_differences': bad, 'first': next(({'port': i, 'index': k, 'got': g.hex(), 'want': w.hex()}
                                                                       for i in bad for k, (g, w) in enumerate(zip(got[i], sent[i])) if g != w), None),
                           'lengths': [[len(got[i]), len(sent[i])] for i in bad]})
        ctx.check('port reports closed after disconnect', all(p.closed for p in ports), 'concurrent-ports-not-closed', case, None)
    finally:
        sys.setswitchinterval(old)
        for p in ports:
            try:
                p.close()
            except Exception:
                pass
        for a, b in pairs:
            b.close()


def tcp_state(sock):
    import struct
    return struct.unpack('B', sock.getsockopt(socket.IPPROTO_TCP, socket.TCP_INFO, 8)[:1])[0]


def reply_to_departed_peer_case(ctx, seed, sends_after_reset=0):
    """TCP: the client sends complete messages and leaves (FIN); the accepted port, which has not
    read yet, sends a reply (the write succeeds, the answer is a RST); then it is iterated."""
    rng = random.Random(seed)
    case = lambda: {'kind': 'reply-to-departed', 'seed': seed, 'sends_after_reset': sends_after_reset}  # noqa: E731
    msgs = rand_msgs(rng, rng.randrange(1, 5))
    stream, ends = stream_of(msgs)
    sleeps = Sleeps(limit=300, real=0.001)
    orig = mido.ports.sleep
    mido.ports.sleep = sleeps
    server = client = port = None
    try:
        server = PortServer('127.0.0.1', 0)
        client = connect('127.0.0.1', server._socket.getsockname()[1])
        port = server.accept()
        for m in msgs:
            client.send(m)
        client.close()

        def wait(cond):
            t_end = time.time() + 5
            while time.time() < t_end:
                if cond():
                    return True
                time.sleep(0.002)
            return False

        def arrived():
            try:
                data = port._socket.recv(65536, socket.MSG_PEEK | socket.MSG_DONTWAIT)
            except BlockingIOError:
                return False
            return len(data) == len(stream) and tcp_state(port._socket) == 8      # CLOSE_WAIT
        if not wait(arrived):
            ctx.count('reply-to-departed: set-up not reached (not judged)')
            return
        try:
            port.send(Message('note_off', note=1))
        except OSError:
            pass
        if not wait(lambda: tcp_state(port._socket) == 7):                          # CLOSE (RST seen)
            ctx.count('reply-to-departed: set-up not reached (not judged)')
            return
        # the port notices the disconnect by WRITING (broken pipe) rather than by reading
        for _ in range(sends_after_reset):
            try:
                port.send(Message('note_off', note=2))
            except (OSError, ValueError):
                pass
        got = []
        try:
            for m in port:
                got.append(m)
            ctx.count('iteration ends without exception')
        except HarnessAbort as exc:
            ctx.check('iteration ends without exception', False, 'reply-to-departed-never-ends', case, str(exc))
        except Exception as exc:
            ctx.check('iteration ends without exception', False, f'reply-to-departed-raised:{type(exc).__name__}',
                      case, f'{type(exc).__name__}: {exc}')
        # (once the port has closed itself on a failed write it may not read on: a prefix is all that is required then)
        ctx.check('delivered == complete messages before the cut', got == msgs if not sends_after_reset else got == msgs[:len(got)],
                  'reply-to-departed-differs', case,
                  lambda: {'got': [m.hex() for m in got], 'want': [m.hex() for m in msgs]})
        ctx.check('port reports closed after disconnect', port.closed and (not sends_after_reset or port._socket.fileno() == -1),
                  'reply-to-departed-not-closed', case, {'closed': port.closed, 'fileno': port._socket.fileno()})
    except Exception as exc:
        ctx.fail('iteration ends without exception', f'reply-to-departed:{type(exc).__name__}', case,
                 f'{type(exc).__name__}: {exc}')
    finally:
        mido.ports.sleep = orig
        for p in (port, client, server):
            try:
                if p is not None:
                    p.close()
            except Exception:
                pass


def burst_then_disconnect_case(ctx, count):
    """A client sends `count` short messages and disconnects before the server polls."""
    case = {'kind': 'burst', 'count': count}
    sleeps = Sleeps(limit=300, real=0.001)
    orig = mido.ports.sleep
    mido.ports.sleep = sleeps
    server = client = None
    try:
        server = PortServer('127.0.0.1', 0)
        client = connect('127.0.0.1', server._socket.getsockname()[1])
        for _ in range(200):
            server.poll()
            if server.ports:
                break
            time.sleep(0.001)
        payload = bytearray()
        for i in range(count):
            payload += bytes([0x90 | (i % 16), i % 128, (i // 128) % 128])
        client._socket.sendall(bytes(payload))
        client.close()
        time.sleep(0.05)
        got = []
        t_end = time.time() + 30
        idle = 0
        while time.time() < t_end and len(got) < count and idle < 50:
            m = server.poll()
            if m is None:
                idle += 1
                time.sleep(0.002)
            else:
                idle = 0
                got.append(m)
        want = [[0x90 | (i % 16), i % 128, (i // 128) % 128] for i in range(count)]
        ctx.check('server hands out every client message exactly once', [m.bytes() for m in got] == want, 'burst-lost', case,
                  {'delivered': len(got), 'sent': count})
    except HarnessAbort as exc:
        ctx.check('server calls do not block', False, 'burst-blocked', case, str(exc))
    except Exception as exc:
        ctx.fail('server hands out every client message exactly once', f'burst:{type(exc).__name__}', case, repr(exc))
    finally:
        mido.ports.sleep = orig
        for p in (client, server):
            try:
                if p is not None:
                    p.close()
            except Exception:
                pass


def explicit_accept_case(ctx, seed):
    """A connection taken with server.accept() is read through the returned port - while the server
    itself is polled for its other clients."""
    rng = random.Random(seed)
    case = lambda: {'kind': 'explicit-accept', 'seed': seed}  # noqa: E731
    sleeps = Sleeps(limit=300, real=0.001)
    orig = mido.ports.sleep
    mido.ports.sleep = sleeps
    server = c1 = c2 = port = None
    try:
        server = PortServer('127.0.0.1', 0)
        portno = server._socket.getsockname()[1]
        c1 = connect('127.0.0.1', portno)
        port = server.accept()                      # explicitly accepted: belongs to the caller
        c2 = connect('127.0.0.1', portno)           # this one is left to the server
        m1 = [Message('note_on', channel=1, note=i) for i in range(rng.randrange(1, 4))]
        m2 = [Message('note_on', channel=2, note=i) for i in range(rng.randrange(1, 4))]
        for m in m1:
            c1.send(m)
        for m in m2:
            c2.send(m)
        c1.close()
        from_server, from_port = [], []
        t_end = time.time() + 10
        while time.time() < t_end and (len(from_server) < len(m2) or not port.closed):
            m = server.poll()
            if m is not None:
                from_server.append(m)
            from_port.extend(port.iter_pending())
            time.sleep(0.001)
        ctx.check('delivered == complete messages before the cut', from_port == m1, 'explicit-accept-port-differs', case,
                  lambda: {'from_port': [x.hex() for x in from_port], 'want': [x.hex() for x in m1],
                           'from_server': [x.hex() for x in from_server]})
        ctx.check('server hands out every client message exactly once', from_server == m2, 'explicit-accept-server-differs',
                  case, lambda: [x.hex() for x in from_server])
        ctx.check('port reports closed after disconnect', port.closed, 'explicit-accept-not-closed', case, None)
    except HarnessAbort as exc:
        ctx.check('server calls do not block', False, 'explicit-accept-blocked', case, str(exc))
    except Exception as exc:
        ctx.fail('server hands out every client message exactly once', f'explicit-accept:{type(exc).__name__}', case, repr(exc))
    finally:
        mido.ports.sleep = orig
        for p in (port, c1, c2, server):
            try:
                if p is not None:
                    p.close()
            except Exception:
                pass


def accept_in_background_case(ctx, how):
    """One thread waits in server.accept() for the next client (nobody is connecting); the clients that are connected keep
    being served: poll / iter_pending / non-blocking receive on the server return what they sent, without waiting for a
    connection that may never come."""
    import threading
    import traceback
    case = {'kind': 'accept-in-background', 'how': how}
    server = c1 = late = None
    accepted = []
    try:
        server = PortServer('127.0.0.1', 0)
        portno = server._socket.getsockname()[1]
        c1 = connect('127.0.0.1', portno)
        for _ in range(500):
            server.poll()
            if server.ports:
                break
            time.sleep(0.001)
        th = threading.Thread(target=lambda: accepted.append(server.accept()), daemon=True)
        th.start()
        time.sleep(0.05)                               # the thread is now inside accept(), blocked on the listening socket
        sent = [Message('note_on', channel=3, note=i) for i in range(3)]
        for m in sent:
            c1.send(m)
        time.sleep(0.02)
        got = []

        def serve():
            for _ in range(400):
                if how == 'poll':
                    m = server.poll()
                    ms = [m] if m is not None else []
                elif how == 'iter_pending':
                    ms = list(server.iter_pending())
                else:
                    m = server.receive(block=False)
                    ms = [m] if m is not None else []
                got.extend(ms)
                if len(got) >= len(sent):
                    return
                time.sleep(0.002)
        st = threading.Thread(target=serve, daemon=True)
        st.start()
        st.join(30.0)
        stuck = st.is_alive()
        where = ''.join(traceback.format_stack(sys._current_frames()[st.ident])[-3:]) if stuck else None
        ctx.check('server calls do not block', not stuck, f'server-{how}-waits-for-the-accept-in-another-thread', case, where)
        # let the waiting accept() go: the next client arrives
        late = connect('127.0.0.1', portno)
        th.join(5.0)
        st.join(5.0)
        if not stuck:
            ctx.check('server hands out every client message exactly once', got == sent, 'accept-in-background:delivery', case,
                      lambda: [x.hex() for x in got])
            ctx.check('server calls do not block', not th.is_alive() and len(accepted) == 1 and accepted[0] is not None,
                      'accept-never-returned-the-late-client', case, None)
    except Exception as exc:
        ctx.fail('server hands out every client message exactly once', f'accept-in-background:{type(exc).__name__}', case, repr(exc))
    finally:
        for p in accepted + [c1, late, server]:
            try:
                if p is not None:
                    p.close()
            except Exception:
                pass
    return 1


def dying_client_case(ctx, seed, order):
    """Two clients: A has sent complete messages, B dies with a TCP reset.  Calls on the server may
    raise OSError while B is being noticed (not judged), but A's messages must still come out,
    exactly once."""
    import struct
    rng = random.Random(seed)
    case = lambda: {'kind': 'dying-client', 'seed': seed, 'order': order}  # noqa: E731
    sleeps = Sleeps(limit=300, real=0.001)
    orig, orig_random = mido.ports.sleep, mido.ports.random

    class Order:
        def shuffle(self, lst):
            if order == 'reversed':
                lst.reverse()
    mido.ports.sleep = sleeps
    mido.ports.random = Order()
    server = a = b = None
    try:
        server = PortServer('127.0.0.1', 0)
        portno = server._socket.getsockname()[1]
        a = connect('127.0.0.1', portno)
        for _ in range(100):
            server.poll()
            if len(server.ports) >= 1:
                break
            time.sleep(0.001)
        b = connect('127.0.0.1', portno)
        for _ in range(100):
            server.poll()
            if len(server.ports) >= 2:
                break
            time.sleep(0.001)
        msgs = [Message('note_on', channel=1, note=i) for i in range(rng.randrange(1, 4))]
        for m in msgs:
            a.send(m)
        b._socket.sendall(bytes([0x92, 5]))                 # an incomplete message, then a reset
        b._socket.setsockopt(socket.SOL_SOCKET, socket.SO_LINGER, struct.pack('ii', 1, 0))
        b.close()                                            # linger 0: the kernel answers with a reset
        time.sleep(0.05)
        got = []
        raised = 0
        t_end = time.time() + 10
        while time.time() < t_end and len(got) < len(msgs):
            try:
                m = server.poll()
            except OSError:
                raised += 1
                m = None
            if m is not None:
                got.append(m)
            else:
                time.sleep(0.002)
        for _ in range(5):
            try:
                m = server.poll()
                if m is not None:
                    got.append(m)
            except OSError:
                pass
        ctx.check('server hands out every client message exactly once', got == msgs, 'dying-client-costs-others', case,
                  lambda: {'got': [x.hex() for x in got], 'want': [x.hex() for x in msgs], 'oserrors': raised})
    except HarnessAbort as exc:
        ctx.check('server calls do not block', False, 'dying-client-blocked', case, str(exc))
    except Exception as exc:
        ctx.fail('server hands out every client message exactly once', f'dying-client:{type(exc).__name__}', case, repr(exc))
    finally:
        mido.ports.sleep, mido.ports.random = orig, orig_random
        for p in (a, server):
            try:
                if p is not None:
                    p.close()
            except Exception:
                pass


def client_turnover_case(ctx, seed):
    """Clients come and go: a random succession of connect / send / disconnect on the clients' side and poll /
    iter_pending on the server's, with no pause that would let the server settle - a client may connect in the very
    round that notices another one gone, several may be waiting at once, one may send and leave before it is ever
    accepted.  Every complete message of every client comes out exactly once, each client's in order."""
    rng = random.Random(seed)
    case = lambda: {'kind': 'client-turnover', 'seed': seed}  # noqa: E731
    sleeps = Sleeps(limit=300, real=0.001)
    orig = mido.ports.sleep
    mido.ports.sleep = sleeps
    server = None
    clients = {}
    log = []
    try:
        server = PortServer('127.0.0.1', 0, backlog=8)
        portno = server._socket.getsockname()[1]
        sent = {}
        got = []
        nextid = 0

        def take(wait=False):
            for _ in range(60 if wait else 1):
                try:
                    m = server.poll()
                    while m is not None:
                        got.append(m)
                        m = server.poll()
                except OSError:
                    pass
                if not wait or sum(len(v) for v in sent.values()) == len(got):
                    break
                time.sleep(0.003)
        for step in range(rng.randrange(4, 14)):
            op = rng.choice(('connect', 'connect', 'send', 'send', 'disconnect', 'poll', 'poll', 'settle'))
            log.append(op)
            if op == 'connect' and len(clients) < 4:
                clients[nextid] = connect('127.0.0.1', portno)
                sent[nextid] = []
                nextid += 1
            elif op == 'send' and clients:
                cid = rng.choice(sorted(clients))
                for _ in range(rng.randrange(1, 4)):
                    m = Message('note_on', channel=cid % 16, note=len(sent[cid]) % 128, velocity=cid // 16 + 1)
                    clients[cid].send(m)
                    sent[cid].append(m)
            elif op == 'disconnect' and clients:
                cid = rng.choice(sorted(clients))
                clients.pop(cid).close()
                time.sleep(0.002)
            elif op == 'poll':
                take()
            elif op == 'settle':
                take(wait=True)
        take(wait=True)
        for c in clients.values():
            c.close()
        per = {cid: [m for m in got if m.channel == cid % 16 and m.velocity == cid // 16 + 1] for cid in sent}
        ok = all(per[cid] == sent[cid] for cid in sent) and len(got) == sum(len(v) for v in sent.values())
        ctx.check('server hands out every client message exactly once', ok, 'client-turnover', case,
                  lambda: {'steps': log, 'sent': {c: len(v) for c, v in sent.items()}, 'received': {c: len(v) for c, v in per.items()},
                           'total_received': len(got)})
    except HarnessAbort as exc:
        ctx.check('server calls do not block', False, 'client-turnover-blocked', case, str(exc))
    except Exception as exc:
        ctx.fail('server hands out every client message exactly once', f'client-turnover:{type(exc).__name__}', case, repr(exc))
    finally:
        mido.ports.sleep = orig
        for p in list(clients.values()) + [server]:
            try:
                if p is not None:
                    p.close()
            except Exception:
                pass


HOSTS = ['', 'localhost', '127.0.0.1', 'a.b-c', 'example.org', '0.0.0.0', 'host_name', 'x']


def address_cases(ctx, shard, nshards):
    n = 0
    for p in range(1 + shard, 65536, nshards):
        for h in HOSTS if p % 97 == 0 or p < 20 or p > 65520 else (HOSTS[p % len(HOSTS)],):
            case = lambda: {'kind': 'address', 'host': h, 'port': p}  # noqa: E731
            try:
                s = format_address(h, p)
                back = parse_address(s)
                ctx.check('parse_address(format_address(h, p)) == (h, p)', back == (h, p) and type(back[1]) is int,
                          'address-roundtrip', case, lambda: {'formatted': s, 'parsed': back})
                ctx.check('format_address(*parse_address(s)) == s', format_address(*back) == s and s == f'{h}:{p}',
                          'address-format', case, s)
            except Exception as exc:
                ctx.fail('parse_address(format_address(h, p)) == (h, p)', f'address:{type(exc).__name__}', case,
                         f'{type(exc).__name__}: {exc}')
            n += 1
    if shard == 0:
        for bad in ('', ':', 'h', 'h:', 'h:0', 'h:65536', 'h:-1', 'h:1:2', 'h:x', ':'):
            try:
                r = parse_address(bad)
                ctx.check('invalid address rejected', False, 'bad-address-accepted', {'kind': 'address', 'text': bad}, r)
            except ValueError:
                ctx.count('invalid address rejected')
            n += 1
    return n


def run(ctx):
    rng = ctx.rng
    n = 0
    # every cut offset x segmentation
    nseq = 14 if ctx.tier == 'quick' else 1600
    for j in range(nseq):
        msgs = rand_msgs(rng, rng.randrange(1, 6 if ctx.tier == 'quick' else 9))
        stream, ends = stream_of(msgs)
        if len(stream) > (120 if ctx.tier == 'quick' else 700):
            msgs = msgs[:2]
            stream, ends = stream_of(msgs)
        step = 1 if len(stream) <= 200 else 3
        for cut in list(range(0, len(stream) + 1, step)) + ends:
            for seg in ('byte', 'whole', 'random'):
                seed = f'{ctx.seed}:{ctx.shard}:{j}:{cut}:{seg}'
                if cut_case(ctx, msgs, cut, seg, seed):
                    ctx.nontrivial((hash(stream), cut, seg))
                n += 1
        if j == 0:
            ctx.put_sample({'messages': [m.hex() for m in msgs], 'stream_len': len(stream), 'message_ends': ends,
                            'cuts_tried': len(stream) + 1, 'segmentations': ['byte', 'whole', 'random']})
    for how in ('plain', 'after-traffic', 'with'):
        peer_sees_close(ctx, how)
        n += 1
    if ctx.shard in (0, 1):
        close_while_receiving_case(ctx, ('iterate', 'receive')[ctx.shard])
        ctx.nontrivial(('close-while-receiving', ctx.shard))
        n += 1
    for j in range(3 if ctx.tier == 'quick' else 300):
        thread_peer_case(ctx, f'{ctx.seed}:{ctx.shard}:t{j}')
        ctx.nontrivial(('thread', ctx.seed, ctx.shard, j))
        n += 1
    for j in range(2 if ctx.tier == 'quick' else 150):
        killed_peer_case(ctx, f'{ctx.seed}:{ctx.shard}:k{j}')
        ctx.nontrivial(('killed', ctx.seed, ctx.shard, j))
        n += 1
    modes = ('poll', 'iter_pending', 'receive')
    for j in range(3 if ctx.tier == 'quick' else 150):
        server_case(ctx, f'{ctx.seed}:{ctx.shard}:s{j}', 1 + (j + ctx.shard) % 3, modes[(j + ctx.shard) % 3])
        ctx.nontrivial(('server', ctx.seed, ctx.shard, j))
        n += 1
        if j == 0:
            server_case(ctx, f'{ctx.seed}:{ctx.shard}:t{j}', 2 + ctx.shard % 2, modes[ctx.shard % 3], clock='set back an hour')
            ctx.nontrivial(('server-clock', ctx.seed, ctx.shard, j))
            n += 1
    for j in range(2 if ctx.tier == 'quick' else 100):
        reply_to_departed_peer_case(ctx, f'{ctx.seed}:{ctx.shard}:d{j}')
        ctx.nontrivial(('departed', ctx.seed, ctx.shard, j))
        n += 1
        reply_to_departed_peer_case(ctx, f'{ctx.seed}:{ctx.shard}:e{j}', sends_after_reset=1 + (j + ctx.shard) % 3)
        ctx.nontrivial(('departed-write', ctx.seed, ctx.shard, j))
        n += 1
    for j in range(3 if ctx.tier == 'quick' else 100):
        half_close_case(ctx, f'{ctx.seed}:{ctx.shard}:hc{j}')
        ctx.nontrivial(('half-close', ctx.seed, ctx.shard, j))
        n += 1
    if ctx.shard in (1 % ctx.nshards, 9 % ctx.nshards):
        concurrent_ports_case(ctx, f'{ctx.seed}:{ctx.shard}:conc')
        ctx.nontrivial(('concurrent-ports', ctx.seed, ctx.shard))
        n += 1
    for ci, count in enumerate((1023, 1025, 4095, 4097, 6000)):
        if ci % ctx.nshards == (ctx.shard + 5) % ctx.nshards:
            burst_then_disconnect_case(ctx, count)
            ctx.nontrivial(('burst', count))
            n += 1
    for j in range(1 if ctx.tier == 'quick' else 30):
        explicit_accept_case(ctx, f'{ctx.seed}:{ctx.shard}:e{j}')
        dying_client_case(ctx, f'{ctx.seed}:{ctx.shard}:y{j}', ('as-is', 'reversed')[(j + ctx.shard) % 2])
        ctx.nontrivial(('accept+dying', ctx.seed, ctx.shard, j))
        n += 2
    for hi, how in enumerate(('poll', 'iter_pending', 'receive-nb')):
        if (hi + 9) % ctx.nshards == ctx.shard:
            n += accept_in_background_case(ctx, how)
            ctx.nontrivial(('accept-in-background', how))
    for j in range(6 if ctx.tier == 'quick' else 400):
        client_turnover_case(ctx, f'{ctx.seed}:{ctx.shard}:t{j}')
        ctx.nontrivial(('turnover', ctx.seed, ctx.shard, j))
        n += 1
    k = address_cases(ctx, ctx.shard, ctx.nshards)
    ctx.nontrivial(None, k)
    ctx.extra('address_pairs', k)
    n += k
    ctx.count('cases', n)


def replay(ctx, case):
    if case.get('kind') == 'half-close':
        half_close_case(ctx, case['seed'])
        return
    if case.get('kind') == 'concurrent-ports':
        concurrent_ports_case(ctx, case['seed'], case['ports'], case['messages_each'])
        return
    k = case['kind']
    if k == 'cut':
        msgs = [Message.from_hex(h) for h in case['msgs']]
        cut_case(ctx, msgs, case['cut'], case['seg'], case['seed'])
    elif k == 'close-visible':
        peer_sees_close(ctx, case['how'])
    elif k == 'thread-peer':
        thread_peer_case(ctx, case['seed'])
    elif k == 'killed-peer':
        killed_peer_case(ctx, case['seed'])
    elif k == 'burst':
        burst_then_disconnect_case(ctx, case['count'])
    elif k == 'close-while-receiving':
        close_while_receiving_case(ctx, case['how'])
    elif k == 'explicit-accept':
        explicit_accept_case(ctx, case['seed'])
    elif k == 'accept-in-background':
        accept_in_background_case(ctx, case['how'])
    elif k == 'client-turnover':
        client_turnover_case(ctx, case['seed'])
    elif k == 'dying-client':
        dying_client_case(ctx, case['seed'], case['order'])
    elif k == 'reply-to-departed':
        reply_to_departed_peer_case(ctx, case['seed'], case.get('sends_after_reset', 0))
    elif k == 'server':
        server_case(ctx, case['seed'], case['clients'], case['mode'], case.get('wall_clock', 'steady'))
    else:
        address_cases(ctx, 0, 16)
