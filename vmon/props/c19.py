"""C19 - SYX files round-trip sysex messages.

Boundary monitor on write_syx_file / read_syx_file with real files in a private
temporary directory; oracle = filter-and-preserve model (exactly the sysex
messages of the list, in order, equal data), hand-written text layouts, and
ValueError for text that is not two-digit hex.
"""
import os
import pathlib
import random
import tempfile

import mido
from mido import Message, MetaMessage, read_syx_file, write_syx_file

from .. import gen
from ..ref import midi1

ID = 'C19'
ANCHORS = ['mido.syx']
LEVEL = 'exploration'
RULE = ('seeded message lists (0-40 messages; sysex payload lengths from {0,1,2,3,127,128,1000,'
        '1365,1366,5000} (+70 000/200 000 thorough) with zero/max/ramp/random contents, interleaved '
        'channel, real-time, system common and meta messages; lists of 1 500 (quick) / 5 000 '
        '(thorough) sysex messages) x {binary, plain text} x {str path, pathlib.Path} x {list, tuple, '
        'generator}; hand-written text files with every mix of space, tab, LF, CRLF, leading/'
        'trailing whitespace and letter case; binary files with other messages and real-time bytes '
        'between/inside sysex; invalid texts. Distinct by content hash; non-trivial when the list '
        'contains at least one sysex and one other message, or the layout is hand-written')
ASSUMPTIONS = [
    'only data and order are compared (messages read back have time 0)',
    'a text file whose bytes are valid hex but contain status bytes other than F0/F7 inside a message is not judged',
]
DECIDING = ['read(write(L)) == sysex(L) [binary]', 'read(write(L)) == sysex(L) [text]',
            'no sysex => []', 'whitespace layouts', 'invalid hex text => ValueError']
TIMEOUT = {'quick': 300, 'thorough': 1800}
ENV_FULL = True        # cheap enough: every shard runs once in each interpreter environment (core.ENV_MODES)
LENS = [0, 1, 2, 3, 127, 128, 1000, 1365, 1366, 5000]


def nshards(tier):
    return 16


def rand_list(rng, tier):
    out = []
    for _ in range(rng.choice((0, 1, 2, 5, 12, 40))):
        r = rng.random()
        if r < 0.5:
            ln = rng.choice(LENS + [0, 1, 2, 3, 5, 8] * 3)
            if tier == 'thorough' and rng.random() < 0.01:
                ln = rng.choice((70000, 200000))
            elif rng.random() < 0.004:
                ln = rng.choice((65534, 65535, 65536, 70000))          # a bulk dump beyond 64 KiB
            style = rng.choice(('zeros', 'max', 'ramp', 'random'))
            m = Message('sysex', data=gen.sysex_payload(ln, style, rng), time=rng.choice((0, 5, 0.5)))
            born = rng.random()
            if ln <= 2000 and born < 0.3:
                # the same message, come into being another way (its type name is then a string made at run time, not the
                # literal 'sysex' of some source file)
                import json
                import pickle
                from mido.frozen import freeze_message
                m = rng.choice((lambda: Message.from_str(str(m)), lambda: Message.from_dict(json.loads(json.dumps(m.dict()))),
                                lambda: pickle.loads(pickle.dumps(m)), lambda: freeze_message(m), lambda: m.copy(),
                                lambda: Message(''.join(['sy', 'sex']), data=m.data, time=m.time),
                                lambda: Message.from_bytes(m.bytes(), time=m.time)))()
            out.append(m)
        elif r < 0.9:
            t = gen.random_type(rng, exclude=('sysex',))
            out.append(Message(t, **gen.random_attrs(t, rng)))
        else:
            out.append(MetaMessage('marker', text='x'))
    return out


def data_of(msgs):
    return [tuple(m.data) for m in msgs]


def judge_roundtrip(ctx, d, msgs, plaintext, pathkind, cont, case):
    want = [tuple(m.data) for m in msgs if m.type == 'sysex']
    path = os.path.join(d, f'f{ctx.count_files}.syx')
    ctx.count_files += 1
    arg = pathlib.Path(path) if pathkind == 'Path' else path
    src = list(msgs) if cont == 'list' else tuple(msgs) if cont == 'tuple' else (m for m in msgs)
    clause = 'read(write(L)) == sysex(L) [text]' if plaintext else 'read(write(L)) == sysex(L) [binary]'
    form = ctx.count_files % 3
    try:
        if form == 0:
            write_syx_file(arg, src, plaintext=plaintext)
        elif form == 1 or plaintext:
            write_syx_file(arg, src, plaintext)              # the documented positional form
        else:
            write_syx_file(arg, src)
        got = read_syx_file(arg)
        if form == 2 and isinstance(src, (list, tuple)):
            # the caller edits what it was handed (bytes() lists, the messages read back) and then writes
            # the same list once more: same result
            first = data_of(got) if isinstance(got, list) else None
            for m in list(msgs)[:50]:
                b = m.bytes()
                if isinstance(b, list):
                    del b[:]
                    b.append(0x42)
            for m in got[:50]:
                try:
                    m.data = (0x7F,)
                    m.time = 9
                except Exception:
                    pass
            write_syx_file(arg, src, plaintext)
            got = read_syx_file(arg)
            if first is not None and isinstance(got, list) and data_of(got) != first:
                ctx.check(clause, False, f'second-write-differs:{"text" if plaintext else "binary"}', case,
                          {'first_n': len(first), 'second_n': len(got)})
    except Exception as exc:
        ctx.fail(clause, f'raised:{type(exc).__name__}:{"text" if plaintext else "binary"}', case,
                 f'{type(exc).__name__}: {exc}')
        return
    finally:
        if os.path.exists(path):
            size = os.path.getsize(path)
            os.remove(path)
    ok = (isinstance(got, list) and all(type(m) is Message and m.type == 'sysex' for m in got)
          and data_of(got) == want)
    ctx.check(clause, ok, f'differs:{"text" if plaintext else "binary"}', case,
              lambda: {'got_n': len(got), 'want_n': len(want), 'file_size': size,
                       'first_diff': next((i for i, (a, b) in enumerate(zip(data_of(got), want)) if a != b), None)})
    if not want:
        ctx.check('no sysex => []', got == [], 'nonempty', case, repr(got)[:100])


def layouts(rng, datas):
    """Hand-written text layouts of the same sysex messages."""
    toks = []
    for dd in datas:
        toks += ['F0'] + ['%02X' % b for b in dd] + ['F7']
    seps = [' ', '\t', '\n', '\r\n', '  ', ' \n ', '\n\n', '\t \t']
    for style in range(10):
        if style < len(seps):
            sep = [seps[style]] * len(toks)
        else:
            sep = [rng.choice(seps) for _ in toks]
        lead = rng.choice(('', ' ', '\n', '\t', '\r\n  '))
        trail = rng.choice(('', ' ', '\n', '\r\n', '\n\n'))
        case_fn = rng.choice((str.upper, str.lower, lambda s: s))
        text = lead + ''.join(case_fn(t) + s for t, s in zip(toks, sep)).rstrip(' \t\r\n') + trail
        if not text.strip():
            continue
        yield text


INVALID_TEXTS = ['F0 1 F7', 'F0 GG F7', 'F0 0', 'F0 01 F', 'F0 01 F7 x', 'F0,01,F7', '0xF0 0x01 0xF7',
                 'F0 01 F7\nZZ', 'F0-01-F7', ' F0 0 1 F7', 'hello', 'F0 01 F7 F']


def run(ctx):
    rng = ctx.rng
    ctx.count_files = 0
    n = 0
    with tempfile.TemporaryDirectory(prefix='vmon-c19-') as d:
        nl = 60 if ctx.tier == 'quick' else 2500
        for j in range(nl):
            msgs = rand_list(rng, ctx.tier)
            for plaintext in (False, True):
                pathkind = rng.choice(('str', 'str', 'Path'))
                cont = rng.choice(('list', 'tuple', 'gen'))
                judge_roundtrip(ctx, d, msgs, plaintext, pathkind, cont,
                                lambda: {'kind': 'roundtrip', 'seed': ctx.seed, 'shard': ctx.shard, 'index': j,
                                         'plaintext': plaintext, 'types': [m.type for m in msgs][:12],
                                         'sysex_lens': [len(m.data) for m in msgs if m.type == 'sysex'][:12]})
                n += 1
            kinds = {m.type == 'sysex' for m in msgs}
            if kinds == {True, False}:
                ctx.nontrivial(('rt', ctx.seed, ctx.shard, j))
            if j < 2:
                ctx.put_sample({'types': [m.type for m in msgs][:10],
                                'sysex_lens': [len(m.data) for m in msgs if m.type == 'sysex'][:10]})
        # every single payload length boundary, alone, in both formats
        for li, ln in enumerate(LENS + ([70000, 200000] if ctx.tier == 'thorough' else [])):
            if li % ctx.nshards != ctx.shard:
                continue
            for style in ('zeros', 'max', 'ramp', 'random'):
                m = Message('sysex', data=gen.sysex_payload(ln, style, rng))
                for plaintext in (False, True):
                    judge_roundtrip(ctx, d, [Message('clock'), m, Message('note_on'), m.copy()], plaintext,
                                    'str', 'list', {'kind': 'length', 'len': ln, 'style': style, 'plaintext': plaintext})
                    ctx.nontrivial(('len', ln, style, plaintext))
                    n += 1
        # many messages in one file
        if ctx.shard in (5 % ctx.nshards, 6 % ctx.nshards):
            k = 1500 if ctx.tier == 'quick' else 5000
            many = [Message('sysex', data=(i % 128, (i // 128) % 128)) for i in range(k)]
            judge_roundtrip(ctx, d, many, ctx.shard == 5 % ctx.nshards, 'str', 'list',
                            {'kind': 'many', 'count': k, 'plaintext': ctx.shard == 5 % ctx.nshards})
            ctx.nontrivial(('many', ctx.shard))
            n += 1
        # hand-written layouts
        nh = 25 if ctx.tier == 'quick' else 800
        for j in range(nh):
            datas = [tuple(rng.randrange(128) for _ in range(rng.choice((0, 1, 2, 5, 40))))
                     for _ in range(rng.randrange(1, 5))]
            for text in layouts(rng, datas):
                path = os.path.join(d, f'h{ctx.count_files}.syx')
                ctx.count_files += 1
                with open(path, 'wb') as f:
                    f.write(text.encode('ascii'))
                case = {'kind': 'layout', 'text': text if len(text) < 300 else text[:300] + '...'}
                try:
                    got = read_syx_file(path)
                    ctx.check('whitespace layouts', data_of(got) == datas, 'layout-differs', case,
                              lambda: {'got': data_of(got)[:3], 'want': datas[:3]})
                except Exception as exc:
                    ctx.fail('whitespace layouts', f'layout-raised:{type(exc).__name__}', case,
                             f'{type(exc).__name__}: {exc}')
                os.remove(path)
                ctx.nontrivial(('layout', text))
                n += 1
        # binary files with other content
        if ctx.shard == 0:
            bins = [
                (bytes([0xF0, 1, 0xF7, 0x90, 0x40, 0x40, 0xF0, 2, 0xF7]), [(1,), (2,)]),
                (bytes([0xF0, 1, 0xF8, 2, 0xF7]), [(1, 2)]),
                (bytes([0xF0, 0xF7]), [()]),
                (bytes([0xF0, 1, 2]), []),
                (bytes([0xF0, 1, 0xF7, 0xF0, 5]), [(1,)]),
                (b'', []),
                (bytes([0xF0, 0xF7, 0xF0, 0xF7, 0xFE, 0xF0, 0x7F, 0xF7]), [(), (), (127,)]),
            ]
            # every defined real-time byte at every position inside and around a sysex: dropped, sysex intact
            for rb in (0xF8, 0xFA, 0xFB, 0xFC, 0xFE, 0xFF):
                body = [0xF0, 1, 2, 3, 0xF7]
                for pos in range(1, len(body) + 1):     # the first byte selects the format: keep F0 there
                    raw = body[:pos] + [rb] + body[pos:] + [0xF0, 0x7F, 0xF7]
                    bins.append((bytes(raw), [(1, 2, 3), (127,)]))
                    bins.append((' '.join(f'{b:02X}' for b in raw).encode('ascii'), [(1, 2, 3), (127,)]))
                bins.append((bytes([0xF0, rb, rb, 0xF7, rb]), [()]))
            # every kind of other message directly in front of a sysex with 0..5 payload bytes (binary and text)
            for pre in ([0x90, 1, 2], [0xC0, 5], [0xF2, 1, 2], [0xF3, 9], [0xF1, 0x35], [0xF6], [0xF8], [0xE1, 0, 64], [0xB0, 7, 100, 0xC1, 2]):
                for k in range(6):
                    payload = [(k + i) % 128 for i in range(k)]
                    raw = [0xF0, 0x7D, 0xF7] + pre + [0xF0] + payload + [0xF7] + pre + [0xF0, 1, 2, 3, 0xF7]
                    want3 = [(0x7D,), tuple(payload), (1, 2, 3)]
                    bins.append((bytes(raw), want3))
                    bins.append((' '.join(f'{b:02x}' for b in raw).encode('ascii'), want3))
            for raw, want in bins:
                path = os.path.join(d, f'b{ctx.count_files}.syx')
                ctx.count_files += 1
                with open(path, 'wb') as f:
                    f.write(raw)
                case = {'kind': 'binary', 'bytes': raw.hex()}
                try:
                    got = read_syx_file(path)
                    ctx.check('read(write(L)) == sysex(L) [binary]', data_of(got) == want, 'binary-hand', case,
                              data_of(got))
                except Exception as exc:
                    ctx.fail('read(write(L)) == sysex(L) [binary]', f'binary-raised:{type(exc).__name__}', case,
                             f'{type(exc).__name__}: {exc}')
                os.remove(path)
                n += 1
            for text in INVALID_TEXTS + [b'\xe9\xe9 F0 01 02 F7', b'\xef\xbb\xbfF0 01 F7',
                                         b'\xff\xfeF\x000\x00', b'\x80', b'\xf7 F0 01 F7']:
                path = os.path.join(d, f'i{ctx.count_files}.syx')
                ctx.count_files += 1
                with open(path, 'wb') as f:
                    f.write(text if isinstance(text, bytes) else text.encode('ascii'))
                text = repr(text)
                case = {'kind': 'invalid', 'text': text}
                try:
                    got = read_syx_file(path)
                    ctx.check('invalid hex text => ValueError', False, 'invalid-accepted', case, repr(got)[:100])
                except ValueError:
                    ctx.count('invalid hex text => ValueError')
                except Exception as exc:
                    ctx.check('invalid hex text => ValueError', False, f'invalid:{type(exc).__name__}', case,
                              f'{type(exc).__name__}: {exc}')
                os.remove(path)
                n += 1
            # the SYX "file" is a named pipe / an inherited descriptor: no size, no seeking
            import threading
            for plaintext in (False, True):
                msgs = [Message('sysex', data=(1, 2, 3)), Message('note_on'), Message('sysex', data=())]
                ref_path = os.path.join(d, f'ref{ctx.count_files}.syx')
                ctx.count_files += 1
                write_syx_file(ref_path, msgs, plaintext=plaintext)
                with open(ref_path, 'rb') as f:
                    content = f.read()
                for how in ('fifo', 'devfd'):
                    case = {'kind': 'pipe', 'how': how, 'plaintext': plaintext}
                    try:
                        if how == 'fifo':
                            path = os.path.join(d, f'fifo{ctx.count_files}')
                            ctx.count_files += 1
                            os.mkfifo(path)

                            def writer(p=path):
                                with open(p, 'wb') as f:
                                    f.write(content)
                            th = threading.Thread(target=writer, daemon=True)
                            th.start()
                            got = read_syx_file(path)
                            th.join(5)
                            os.remove(path)
                        else:
                            r, w = os.pipe()
                            os.write(w, content)
                            os.close(w)
                            try:
                                got = read_syx_file(f'/dev/fd/{r}')
                            finally:
                                os.close(r)
                        ctx.check('read(write(L)) == sysex(L) [text]' if plaintext else 'read(write(L)) == sysex(L) [binary]',
                                  data_of(got) == [(1, 2, 3), ()], f'pipe-differs:{how}', case, data_of(got))
                    except Exception as exc:
                        ctx.fail('read(write(L)) == sysex(L) [binary]', f'pipe:{how}:{type(exc).__name__}', case, repr(exc))
                    n += 1
                os.remove(ref_path)
            # targets outside the default temporary directory (other file systems where available)
            for base in ('/dev/shm', os.path.join(os.path.dirname(os.path.dirname(os.path.dirname(os.path.abspath(__file__)))), '.work'),
                         os.getcwd()):
                if not (os.path.isdir(base) and os.access(base, os.W_OK)):
                    continue
                sub = tempfile.mkdtemp(prefix='vmon-c19-', dir=base)
                try:
                    for plaintext in (False, True):
                        path = os.path.join(sub, 'x.syx')
                        case = {'kind': 'other-fs', 'dir': base, 'plaintext': plaintext}
                        try:
                            write_syx_file(path, [Message('sysex', data=(5, 6))], plaintext=plaintext)
                            got = read_syx_file(path)
                            ctx.check('read(write(L)) == sysex(L) [binary]', data_of(got) == [(5, 6)] and os.listdir(sub) == ['x.syx'],
                                      'other-filesystem', case, {'got': data_of(got), 'files': os.listdir(sub)})
                        except Exception as exc:
                            ctx.fail('read(write(L)) == sysex(L) [binary]', f'other-filesystem:{type(exc).__name__}', case, repr(exc))
                        n += 1
                finally:
                    import shutil
                    shutil.rmtree(sub, ignore_errors=True)
            # writing over an existing, longer file replaces it
            for plaintext in (False, True):
                for first_plain in (False, True):
                    path = os.path.join(d, f'ow{ctx.count_files}.syx')
                    ctx.count_files += 1
                    long_list = [Message('sysex', data=(i, i, i, i)) for i in range(6)]
                    case = {'kind': 'overwrite', 'first_plaintext': first_plain, 'second_plaintext': plaintext}
                    try:
                        write_syx_file(path, long_list, first_plain)
                        for second in ([Message('sysex', data=(99,))], [Message('note_on')], []):
                            write_syx_file(path, second, plaintext)
                            got = read_syx_file(path)
                            want = [tuple(m.data) for m in second if m.type == 'sysex']
                            ctx.check('read(write(L)) == sysex(L) [text]' if plaintext else 'read(write(L)) == sysex(L) [binary]',
                                      data_of(got) == want, 'overwrite-keeps-old-content', case, data_of(got))
                            write_syx_file(path, long_list, plaintext=first_plain)
                    except Exception as exc:
                        ctx.fail('read(write(L)) == sysex(L) [binary]', f'overwrite:{type(exc).__name__}', case, repr(exc))
                    os.remove(path)
                    n += 1
            # a write that fails half way (a message that cannot be encoded, in the middle of the list); the caller
            # holds on to the exception, writes a valid list to the same path, lets go of the exception, reads
            import gc
            for plaintext in (False, True):
                for keep in (True, False):
                    for nbefore in (0, 1, 400):
                        path = os.path.join(d, f'fw{ctx.count_files}.syx')
                        ctx.count_files += 1
                        case = {'kind': 'failed-write', 'plaintext': plaintext, 'exception_kept': keep, 'good_before_bad': nbefore}
                        bad_list = [Message('sysex', data=(i % 128, 1, 2, 3, 4, 5, 6, 7)) for i in range(nbefore)] + \
                            [Message('sysex', data=(1, 300), skip_checks=True), Message('sysex', data=(9,))]
                        held = None
                        try:
                            try:
                                write_syx_file(path, bad_list, plaintext=plaintext)
                            except Exception as exc:
                                held = exc if keep else None
                            good = [Message('sysex', data=(42, 43)), Message('sysex', data=())]
                            write_syx_file(path, good, plaintext=plaintext)
                            held = None
                            gc.collect()
                            got = read_syx_file(path)
                            ctx.check('read(write(L)) == sysex(L) [text]' if plaintext else 'read(write(L)) == sysex(L) [binary]',
                                      data_of(got) == [(42, 43), ()], 'failed-write-leaves-something-behind', case, data_of(got)[:4])
                        except Exception as exc:
                            ctx.fail('read(write(L)) == sysex(L) [binary]', f'failed-write:{type(exc).__name__}', case, repr(exc))
                        finally:
                            if os.path.exists(path):
                                os.remove(path)
                        n += 1
            # one path rewritten at once with other contents of exactly the same size (and read in between)
            for plaintext in (False, True):
                path = os.path.join(d, f'same{ctx.count_files}.syx')
                ctx.count_files += 1
                case = {'kind': 'same-size-rewrite', 'plaintext': plaintext}
                try:
                    seen = []
                    for rnd in range(6):
                        data = (rnd, 10 + rnd, 20 + rnd)
                        write_syx_file(path, [Message('sysex', data=data), Message('sysex', data=(rnd,))], plaintext=plaintext)
                        seen.append(data_of(read_syx_file(path)) == [data, (rnd,)])
                    ctx.check('read(write(L)) == sysex(L) [text]' if plaintext else 'read(write(L)) == sysex(L) [binary]', all(seen),
                              'stale-after-same-size-rewrite', case, seen)
                except Exception as exc:
                    ctx.fail('read(write(L)) == sysex(L) [binary]', f'same-size-rewrite:{type(exc).__name__}', case, repr(exc))
                finally:
                    if os.path.exists(path):
                        os.remove(path)
                n += 1
            # failed reads (and other calls) must leave nothing behind for the next read
            good = os.path.join(d, 'good.syx')
            write_syx_file(good, [Message('sysex', data=(9, 8, 7))])
            for text in ('F0 01 F7\nF0 02 F7\nF0 GG F7\n', 'F0 03 F7 F0 04', 'F0 05 F7\nxx'):
                path = os.path.join(d, f'seq{ctx.count_files}.syx')
                ctx.count_files += 1
                with open(path, 'w') as f:
                    f.write(text)
                case = {'kind': 'sequence', 'first': text}
                try:
                    read_syx_file(path)
                except ValueError:
                    pass
                got = read_syx_file(good)
                ctx.check('read(write(L)) == sysex(L) [binary]', data_of(got) == [(9, 8, 7)], 'leftover-from-failed-read',
                          case, data_of(got))
                os.remove(path)
                n += 1
            for name, thunk in gen.perturbations():
                gen.run_quietly(thunk)
                got = read_syx_file(good)
                ctx.check('read(write(L)) == sysex(L) [binary]', data_of(got) == [(9, 8, 7)], 'leftover-from-other-call',
                          {'kind': 'sequence', 'after': name}, data_of(got))
                n += 1
            os.remove(good)
            # empty list and only non-sysex
            for msgs in ([], [Message('note_on'), Message('clock')]):
                for plaintext in (False, True):
                    judge_roundtrip(ctx, d, msgs, plaintext, 'str', 'list',
                                    {'kind': 'empty', 'n': len(msgs), 'plaintext': plaintext})
                    n += 1
            ctx.nontrivial(None, len(bins) + len(INVALID_TEXTS) + 4)
        ctx.extra('files_written', ctx.count_files)
    ctx.count('cases', n)


def replay(ctx, case):
    # cases are regenerated from (seed, shard); re-run the shard that produced it
    ctx.shard = case.get('shard', 0)
    ctx.nshards = 16
    import random as _r
    ctx.rng = _r.Random(f'{ctx.prop}:{ctx.seed}:{ctx.shard}')
    run(ctx)
