"""C20 - Backend selection and port-opening arguments resolve deterministically.

Call log of recording fake backend modules (generated on a private sys.path
entry: with/without a native IOPort, with/without get_devices) + their import
log + sys.modules; oracle = independent precedence model.  The finite grid of
configurations is enumerated completely in both tiers; set_backend sequences
check rebinding of the top-level functions.
"""
import itertools
import os
import sys
import tempfile

import mido
from mido import ports
from mido.backends.backend import Backend

ID = 'C20'
ANCHORS = ['mido.backends.backend']
LEVEL = 'exploration'
RULE = ('full grid: 6 entry points (open_input/open_output/open_ioport/get_*_names) x port name '
        'given/absent x MIDO_DEFAULT_INPUT/OUTPUT/IOPORT each set/unset x api from {backend name '
        'suffix, Backend(api=), call keyword api=, none, suffix+call keyword} x use_environ on/off '
        'x backend named explicitly / through MIDO_BACKEND x 4 module variants (native IOPort '
        'yes/no, get_devices yes/no) x load on/off; plus set_backend sequences (string and Backend '
        'object, same module with different API, use in between). Exhaustive, distinct by '
        'construction; every configuration is non-trivial: the recorded constructor / query calls '
        'and the import log are compared with the model')
ASSUMPTIONS = [
    'MIDO_BACKEND is read when no backend name is given, whatever use_environ says (docs/backends/index.rst: use_environ governs the MIDO_DEFAULT_* port names only)',
    'api given both as name suffix and as Backend(api=...) is outside the grid (not judged)',
    'the default backend mido.backends.rtmidi cannot be imported in the sandbox: only its lazy naming is checked',
]
DECIDING = ['backend module lazily imported', 'constructor calls == model', 'device query calls == model',
            'name listings == model', 'set_backend rebinds top-level functions']
TIMEOUT = {'quick': 300, 'thorough': 900}
ENV_FULL = 'both'      # cheap enough (an exhaustive grid, the same in both tiers): every shard runs once in each
                       # interpreter environment (core.ENV_MODES), in the thorough tier too
VARIANTS = {'vmonbk_a': (True, True), 'vmonbk_b': (True, False), 'vmonbk_c': (False, True),
            'vmonbk_d': (False, False)}
ENVV = ('MIDO_BACKEND', 'MIDO_DEFAULT_INPUT', 'MIDO_DEFAULT_OUTPUT', 'MIDO_DEFAULT_IOPORT')

LOGMOD = '''
import threading
LOG = []
FAIL = []          # non-empty: importing vmonbk_flaky raises ImportError
GATE = threading.Event()
GATE_REACHED = threading.Event()
'''
SLOW_HEAD = '''
import vmonbk_log as _L
_L.GATE_REACHED.set()
_L.GATE.wait(10)
'''
TEMPLATE = '''
import collections
import vmonbk_log as L
L.LOG.append(('import', __name__))
DEVICES = [
    {{'name': 'A', 'is_input': True, 'is_output': False}},
    {{'name': 'B', 'is_input': True, 'is_output': True}},
    {{'name': 'C', 'is_input': False, 'is_output': True}},
    {{'name': 'B', 'is_input': True, 'is_output': True}},
    {{'name': 'D', 'is_input': True, 'is_output': False}},
    {{'name': 'D', 'is_input': False, 'is_output': True}},
    {{'name': 'E', 'is_input': False, 'is_output': False}},
    {{'name': 'G', 'is_input': False, 'is_output': True}},
    {{'name': 'H', 'is_input': True, 'is_output': False}},
    {{'name': 'G', 'is_input': True, 'is_output': False}},
    {{'name': 'H', 'is_input': False, 'is_output': True}},
    {{'name': 'H', 'is_input': False, 'is_output': True}},
    {{'name': 'G', 'is_input': True, 'is_output': False}},
]
class _P:
    kind = None
    def __init__(self, name=None, **kwargs):
        L.LOG.append((self.kind, __name__, name, dict(kwargs)))
        self.name = name
        self.closed = False
        self._messages = collections.deque()
    def close(self):
        self.closed = True
class Input(_P):
    kind = 'Input'
class Output(_P):
    kind = 'Output'
{ioport}
{getdev}
'''
IOPORT = '''
class IOPort(_P):
    kind = 'IOPort'
    def __init__(self, name=None, **kwargs):
        _P.__init__(self, name, **kwargs)
        if name == 'RAISE-ATTR':
            raise AttributeError('native IOPort failed inside its constructor')
        if name == 'RAISE-OS':
            raise OSError('device busy')
'''
GETDEV = '''
def get_devices(**kwargs):
    L.LOG.append(('get_devices', __name__, dict(kwargs)))
    if __name__[-1] in 'c':
        # like the portmidi and pygame backends: the flags are ints (1 / 0), not bools
        return [dict(d, is_input=int(d['is_input']), is_output=int(d['is_output'])) for d in DEVICES]
    return [dict(d) for d in DEVICES]
'''
DEVICES = [('A', True, False), ('B', True, True), ('C', False, True), ('B', True, True),
           ('D', True, False), ('D', False, True), ('E', False, False), ('G', False, True), ('H', True, False),
           ('G', True, False), ('H', False, True), ('H', False, True), ('G', True, False)]


def nshards(tier):
    return 8


def make_modules(d):
    with open(os.path.join(d, 'vmonbk_log.py'), 'w') as f:
        f.write(LOGMOD)
    for name, (io, gd) in VARIANTS.items():
        with open(os.path.join(d, name + '.py'), 'w') as f:
            f.write(TEMPLATE.format(ioport=IOPORT if io else '', getdev=GETDEV if gd else ''))
    with open(os.path.join(d, 'vmonbk_slow.py'), 'w') as f:
        f.write(SLOW_HEAD + TEMPLATE.format(ioport=IOPORT, getdev=GETDEV))
    with open(os.path.join(d, 'vmonbk_flaky.py'), 'w') as f:
        f.write("import vmonbk_log as _L\nif _L.FAIL:\n    raise ImportError('driver not ready')\n" + TEMPLATE.format(ioport=IOPORT, getdev=GETDEV))


def purge():
    for name in VARIANTS:
        sys.modules.pop(name, None)


def model_names(kind, has_gd):
    if not has_gd:
        return []
    ins = [n for n, i, o in DEVICES if i]
    outs = [n for n, i, o in DEVICES if o]
    if kind == 'input':
        return ins
    if kind == 'output':
        return outs
    return [n for n in ins if n in set(outs)]


def CALLBACK(msg):
    """A callback handed to open_input / open_ioport."""


def judge_config(ctx, cfg, LOG):
    (entry, given, env_in, env_out, env_io, api_mode, use_environ, via_env_backend, mod, load) = cfg
    has_io, has_gd = VARIANTS[mod]
    case = lambda: {'kind': 'config', 'cfg': list(cfg)}  # noqa: E731
    key = f'{entry}'
    purge()
    del LOG[:]
    saved = {k: os.environ.get(k) for k in ENVV}
    try:
        for k in ENVV:
            os.environ.pop(k, None)
        if env_in:
            os.environ['MIDO_DEFAULT_INPUT'] = 'envIN'
        if env_out:
            os.environ['MIDO_DEFAULT_OUTPUT'] = 'envOUT'
        if env_io:
            os.environ['MIDO_DEFAULT_IOPORT'] = 'envIO'
        suffix = '/SUFX' if api_mode in ('suffix', 'suffix+call') else ''
        bk_api = 'BKAPI' if api_mode == 'backendkw' else None
        call_api = {'api': 'CALLAPI'} if api_mode in ('call', 'suffix+call') else {}
        want_api = ('CALLAPI' if call_api else 'SUFX' if suffix else bk_api)
        if via_env_backend:
            os.environ['MIDO_BACKEND'] = mod + suffix
            os.environ['MIDO_DEFAULT_INPUT'] = os.environ.get('MIDO_DEFAULT_INPUT', '')
            if not env_in:
                del os.environ['MIDO_DEFAULT_INPUT']
            b = Backend(api=bk_api, load=load, use_environ=use_environ)
        else:
            os.environ['MIDO_BACKEND'] = 'vmonbk_nonexistent/ENVAPI'     # must lose against the explicit name
            # the constructor's arguments by keyword, all by position, or by position as far as they differ from the defaults
            style = hash((entry, given, env_in, env_out, env_io, api_mode)) % 3 if isinstance(entry, str) else 0
            if style == 0:
                b = Backend(mod + suffix, api=bk_api, load=load, use_environ=use_environ)
            elif style == 1:
                b = Backend(mod + suffix, bk_api, load, use_environ)
            elif use_environ:
                b = Backend(mod + suffix, bk_api, load)
            else:
                b = Backend(mod + suffix, bk_api, load, use_environ=False)
        ctx.check('backend name and api split', b.name == mod and b.api == (('SUFX' if suffix else bk_api)),
                  'name-api-split', case, [b.name, b.api])
        imported = [e for e in LOG if e[0] == 'import']
        ctx.check('backend module lazily imported', (len(imported) == 1) == bool(load) and
                  ((mod in sys.modules) == bool(load)) and b.loaded == bool(load),
                  'import-at-construction' if not load else 'load-did-not-import', case, imported)
        # sometimes the Backend object goes through copy / deepcopy / pickle first (an unloaded one: a module
        # object can be neither deep-copied nor pickled); the copy is the same configuration
        cv = (sum(map(len, map(str, cfg))) + len(mod)) % 5
        if cv == 1:
            import copy
            b = copy.copy(b)
        elif cv == 2 and not load:
            import copy
            b = copy.deepcopy(b)
        elif cv == 3 and not load:
            import pickle
            b = pickle.loads(pickle.dumps(b))
        # the call
        port_name = 'GIVEN' if given else None
        opts = {}
        if entry.startswith('open'):
            fn = getattr(b, entry)
            extra = {'foo': 7}
            # the documented options of the call, rotating with the configuration (none / virtual / the others / all)
            oi = sum(map(len, map(str, cfg))) + sum(bool(x) for x in cfg[1:5]) + len(mod)
            allowed = {'open_input': ('virtual', 'callback'), 'open_output': ('virtual', 'autoreset'),
                       'open_ioport': ('virtual', 'callback', 'autoreset')}[entry]
            pick = ((), ('virtual',), ('callback', 'autoreset'), ('virtual', 'callback', 'autoreset'))[oi % 4]
            opts = {k: (CALLBACK if k == 'callback' else True) for k in pick if k in allowed}
            args = (port_name,) if given else ()
            r = fn(*args, **extra, **opts, **call_api)
        else:
            r = getattr(b, entry)(**call_api)
        imported = [e for e in LOG if e[0] == 'import']
        ctx.check('backend module lazily imported', len(imported) == 1 and imported[0][1] == mod and b.loaded,
                  'import-count', case, imported)
        calls = [e for e in LOG if e[0] != 'import']
        env = lambda k: os.environ.get(k) if use_environ else None  # noqa: E731
        api_kw = {'api': want_api} if want_api else {}
        if entry == 'open_input':
            want = [('Input', mod, port_name or env('MIDO_DEFAULT_INPUT'),
                     {'virtual': False, 'callback': None, 'foo': 7, **opts, **api_kw})]
        elif entry == 'open_output':
            want = [('Output', mod, port_name or env('MIDO_DEFAULT_OUTPUT'),
                     {'virtual': False, 'autoreset': False, 'foo': 7, **opts, **api_kw})]
        elif entry == 'open_ioport':
            kw = {'virtual': False, 'callback': None, 'autoreset': False, 'foo': 7, **opts, **api_kw}
            nm = port_name or env('MIDO_DEFAULT_IOPORT')
            if has_io:
                want = [('IOPort', mod, nm, kw)]
            else:
                i_n = nm if nm else env('MIDO_DEFAULT_INPUT')
                o_n = nm if nm else env('MIDO_DEFAULT_OUTPUT')
                want = [('Input', mod, i_n, kw), ('Output', mod, o_n, kw)]
        else:
            want = [('get_devices', mod, api_kw)] if has_gd else []
        clause = 'constructor calls == model' if entry.startswith('open') else 'device query calls == model'
        ctx.check(clause, calls == want, f'{entry}:calls', case, lambda: {'got': calls, 'want': want})
        if entry == 'open_ioport':
            if has_io:
                ok = type(r).__name__ == 'IOPort' and type(r).__module__ == mod
            else:
                ok = (type(r) is ports.IOPort and type(r.input).__name__ == 'Input'
                      and type(r.output).__name__ == 'Output')
            ctx.check('native IOPort iff present', ok, 'ioport-kind', case, type(r).__name__)
            if isinstance(r, ports.IOPort):
                r.closed = True       # nothing to close; keeps __del__ quiet
        elif entry.startswith('get_'):
            kind = entry.split('_')[1]
            ctx.check('name listings == model', r == model_names(kind, has_gd), f'{entry}:names', case,
                      lambda: {'got': r, 'want': model_names(kind, has_gd)})
        # a second call must not import again
        del LOG[:]
        getattr(b, 'get_input_names')()
        ctx.check('backend module lazily imported', not [e for e in LOG if e[0] == 'import'],
                  'reimported', case, None)
    except Exception as exc:
        ctx.fail('no exception', f'{type(exc).__name__}:{key}', case, f'{type(exc).__name__}: {exc}')
    finally:
        for k, v in saved.items():
            if v is None:
                os.environ.pop(k, None)
            else:
                os.environ[k] = v


def grid():
    entries = ('open_input', 'open_output', 'open_ioport', 'get_input_names', 'get_output_names',
               'get_ioport_names')
    for entry in entries:
        givens = (False, True) if entry.startswith('open') else (False,)
        for given, env_in, env_out, env_io, api_mode, use_environ, via_env, mod, load in itertools.product(
                givens, (False, True), (False, True), (False, True),
                ('none', 'suffix', 'backendkw', 'call', 'suffix+call'), (True, False), (False, True),
                tuple(VARIANTS), (False, True)):
            yield (entry, given, env_in, env_out, env_io, api_mode, use_environ, via_env, mod, load)


def extra_sequences(ctx, LOG):
    """Errors from a native IOPort propagate; the environment is read at every call."""
    n = 0
    saved_env = {k: os.environ.get(k) for k in ENVV}
    try:
        for k in ENVV:
            os.environ.pop(k, None)
        for mod in ('vmonbk_a', 'vmonbk_b'):
            for name, exc in (('RAISE-ATTR', AttributeError), ('RAISE-OS', OSError)):
                purge()
                del LOG[:]
                case = {'kind': 'native-ioport-raises', 'module': mod, 'name': name}
                b = Backend(mod)
                try:
                    r = b.open_ioport(name)
                    ctx.check('native IOPort iff present', False, 'native-error-swallowed', case, type(r).__name__)
                    if isinstance(r, ports.IOPort):
                        r.closed = True
                except exc:
                    ctx.count('native IOPort iff present')
                except Exception as e2:
                    ctx.check('native IOPort iff present', False, f'native-error-changed:{type(e2).__name__}', case, repr(e2))
                calls = [e[0] for e in LOG if e[0] != 'import']
                ctx.check('constructor calls == model', calls == ['IOPort'], 'native-error-fallback-calls', case, calls)
                n += 1
        # one Backend object, the environment changes between calls
        for mod in VARIANTS:
            purge()
            b = Backend(mod)
            for entry, var, kind in (('open_input', 'MIDO_DEFAULT_INPUT', 'Input'),
                                     ('open_output', 'MIDO_DEFAULT_OUTPUT', 'Output'),
                                     ('open_ioport', 'MIDO_DEFAULT_IOPORT', None)):
                seen = []
                for value in (None, 'first', 'second', None, 'third'):
                    if value is None:
                        os.environ.pop(var, None)
                    else:
                        os.environ[var] = value
                    del LOG[:]
                    r = getattr(b, entry)()
                    if isinstance(r, ports.IOPort):
                        r.closed = True
                    seen.append([e[2] for e in LOG if e[0] != 'import'])
                want = [[v] * len(seen[0]) for v in (None, 'first', 'second', None, 'third')]
                ctx.check('constructor calls == model', seen == want, f'stale-environment:{entry}',
                          {'kind': 'env-sequence', 'module': mod, 'entry': entry}, lambda: {'got': seen, 'want': want})
                os.environ.pop(var, None)
                n += 1
    except Exception as exc:
        ctx.fail('no exception', f'extra:{type(exc).__name__}', {'kind': 'extra'}, f'{type(exc).__name__}: {exc}')
    finally:
        for k, v in saved_env.items():
            if v is None:
                os.environ.pop(k, None)
            else:
                os.environ[k] = v
    return n


BASECLASS_MODULE = '''
import vmonbk_log as L
from mido.ports import BaseInput, BaseOutput
L.LOG.append(('import', __name__))
class Input(BaseInput):
    def _open(self, **kwargs):
        L.LOG.append(('Input', __name__, self.name, dict(kwargs)))
class Output(BaseOutput):
    def _open(self, **kwargs):
        L.LOG.append(('Output', __name__, self.name, dict(kwargs)))
def get_devices(**kwargs):
    L.LOG.append(('get_devices', __name__, dict(kwargs)))
    return [{'name': 'X', 'is_input': True, 'is_output': True}]
'''


def baseclass_backend_cases(ctx, LOG, d):
    """A backend written the way the documentation says ("subclass BaseInput / BaseOutput and override _open ..."), with no
    IOPort of its own: every documented option of open_input / open_output / open_ioport reaches it, open_ioport wraps
    an Input/Output pair opened with those options, names and API as for any other module."""
    with open(os.path.join(d, 'vmonbk_base.py'), 'w') as f:
        f.write(BASECLASS_MODULE)
    n = 0
    saved_env = {k: os.environ.get(k) for k in ENVV}
    try:
        for k in ENVV:
            os.environ.pop(k, None)
        for api in (None, 'APIX'):
            for opts in ({}, {'virtual': True}, {'autoreset': True}, {'callback': CALLBACK}, {'virtual': True, 'autoreset': True, 'callback': CALLBACK},
                         {'autoreset': False, 'client_name': 'me'}):
                for entry in ('open_input', 'open_output', 'open_ioport'):
                    allowed = {'open_input': ('virtual', 'callback', 'client_name'), 'open_output': ('virtual', 'autoreset', 'client_name'),
                               'open_ioport': ('virtual', 'callback', 'autoreset', 'client_name')}[entry]
                    kw = {k: v for k, v in opts.items() if k in allowed}
                    case = {'kind': 'baseclass-backend', 'entry': entry, 'api': api, 'options': sorted(kw)}
                    sys.modules.pop('vmonbk_base', None)
                    del LOG[:]
                    try:
                        b = Backend('vmonbk_base' + (f'/{api}' if api else ''))
                        r = getattr(b, entry)('P', **kw)
                        calls = [(e[0], e[2]) for e in LOG if e[0] in ('Input', 'Output')]
                        want = {'open_input': [('Input', 'P')], 'open_output': [('Output', 'P')], 'open_ioport': [('Input', 'P'), ('Output', 'P')]}[entry]
                        seen = [e[3] for e in LOG if e[0] in ('Input', 'Output')]
                        ok_kw = all(all(d_.get(k) == v for k, v in kw.items() if k != 'autoreset' and k != 'callback') and d_.get('api') == api for d_ in seen) \
                            if api else all(all(d_.get(k) == v for k, v in kw.items() if k not in ('autoreset', 'callback')) for d_ in seen)
                        ctx.check('constructor calls == model', calls == want and ok_kw, 'baseclass-backend:calls', case,
                                  lambda: {'calls': calls, 'kwargs': [sorted(x) for x in seen]})
                        if entry == 'open_ioport':
                            ctx.check('native IOPort iff present', type(r) is ports.IOPort, 'baseclass-backend:ioport-kind', case, type(r).__name__)
                        r.close()
                    except Exception as exc:
                        ctx.fail('no exception', f'baseclass-backend:{type(exc).__name__}:{entry}', case, f'{type(exc).__name__}: {exc}')
                    n += 1
    finally:
        sys.modules.pop('vmonbk_base', None)
        for k, v in saved_env.items():
            if v is None:
                os.environ.pop(k, None)
            else:
                os.environ[k] = v
    return n


NATIVE_SUBCLASS_MODULE = '''
import vmonbk_log as L
from mido import ports
L.LOG.append(('import', __name__))
class Input(ports.BaseInput):
    def _open(self, **kwargs):
        L.LOG.append(('Input', __name__, self.name, dict(kwargs)))
class Output(ports.BaseOutput):
    def _open(self, **kwargs):
        L.LOG.append(('Output', __name__, self.name, dict(kwargs)))
class IOPort({base}):
    """The module's own I/O port, written by deriving from one of mido's port classes."""
    def __init__(self, name=None, **kwargs):
        L.LOG.append(('IOPort', __name__, name, dict(kwargs)))
        self.name = name
        self.closed = False
        self.opened_with = dict(kwargs)
    def close(self):
        self.closed = True
    def __del__(self):
        pass
def get_devices(**kwargs):
    L.LOG.append(('get_devices', __name__, dict(kwargs)))
    return [{{'name': 'X', 'is_input': True, 'is_output': True}}]
'''


def native_subclass_cases(ctx, LOG, d):
    """"open_ioport uses the module's native IOPort when present" - whatever that class derives from: mido's IOPort wrapper,
    BaseIOPort, BasePort, object.  It is constructed once, with the name, the options and the API; no Input/Output pair."""
    n = 0
    saved_env = {k: os.environ.get(k) for k in ENVV}
    try:
        for k in ENVV:
            os.environ.pop(k, None)
        for bi, base in enumerate(('ports.IOPort', 'ports.BaseIOPort', 'ports.BasePort', 'object', 'ports.BaseInput, ports.BaseOutput')):
            modname = f'vmonbk_native{bi}'
            with open(os.path.join(d, modname + '.py'), 'w') as f:
                f.write(NATIVE_SUBCLASS_MODULE.format(base=base))
            for api in (None, 'APIX'):
                for via in ('backend', 'top-level'):
                    for kw in ({}, {'virtual': True, 'client_name': 'me'}):
                        case = {'kind': 'native-subclass', 'base': base, 'api': api, 'via': via, 'options': sorted(kw)}
                        sys.modules.pop(modname, None)
                        del LOG[:]
                        try:
                            import mido
                            b = Backend(modname + (f'/{api}' if api else ''))
                            if via == 'top-level':
                                mido.set_backend(b)
                            r = (mido if via == 'top-level' else b).open_ioport('P', **kw)
                            calls = [(e[0], e[2]) for e in LOG if e[0] in ('Input', 'Output', 'IOPort')]
                            seen = [e[3] for e in LOG if e[0] == 'IOPort']
                            want_kw = dict(kw, **({'api': api} if api else {}))
                            ctx.check('native IOPort iff present', calls == [('IOPort', 'P')] and type(r).__module__ == modname,
                                      'native-ioport-not-used', case, lambda: {'calls': calls, 'returned': type(r).__module__ + '.' + type(r).__name__})
                            ctx.check('constructor calls == model', len(seen) == 1 and all(seen[0].get(k_) == v_ for k_, v_ in want_kw.items()), 'native-ioport-options', case, lambda: {'got': seen, 'want': want_kw})
                            r.closed = True
                        except Exception as exc:
                            ctx.fail('no exception', f'native-subclass:{type(exc).__name__}', case, f'{type(exc).__name__}: {exc}')
                        finally:
                            import mido
                            mido.set_backend()
                        n += 1
            sys.modules.pop(modname, None)
    finally:
        for k, v in saved_env.items():
            if v is None:
                os.environ.pop(k, None)
            else:
                os.environ[k] = v
    return n


def explicit_empty_name_cases(ctx, LOG):
    """An explicit port name beats the environment - also the empty string, which is a name like any other to
    open_input / open_output and to a native IOPort (what a wrapped pair does with it is left open: the code asks
    `if name:` there)."""
    import mido
    n = 0
    saved_env = {k: os.environ.get(k) for k in ENVV}
    try:
        for k in ENVV:
            os.environ.pop(k, None)
        os.environ['MIDO_DEFAULT_INPUT'], os.environ['MIDO_DEFAULT_OUTPUT'], os.environ['MIDO_DEFAULT_IOPORT'] = 'envin', 'envout', 'envio'
        for mod, (has_io, has_gd) in VARIANTS.items():
            for use_environ in (True, False):
                for via in ('backend', 'top-level'):
                    purge()
                    b = Backend(mod, use_environ=use_environ)
                    if via == 'top-level':
                        mido.set_backend(b)
                    tgt = mido if via == 'top-level' else b
                    for entry, kind in (('open_input', 'Input'), ('open_output', 'Output')) + ((('open_ioport', 'IOPort'),) if has_io else ()):
                        for how in ('positional', 'keyword'):
                            case = {'kind': 'empty-name', 'module': mod, 'entry': entry, 'use_environ': use_environ, 'via': via, 'how': how}
                            del LOG[:]
                            try:
                                r = getattr(tgt, entry)('') if how == 'positional' else getattr(tgt, entry)(name='')
                                got = [e[:3] for e in LOG if e[0] != 'import']
                                ctx.check('constructor calls == model', got == [(kind, mod, '')], 'explicit-empty-name-replaced', case, got)
                            except Exception as exc:
                                ctx.fail('no exception', f'empty-name:{type(exc).__name__}', case, f'{type(exc).__name__}: {exc}')
                            n += 1
    finally:
        for k, v in saved_env.items():
            if v is None:
                os.environ.pop(k, None)
            else:
                os.environ[k] = v
        mido.set_backend()
    return n


def subclass_and_empty_env(ctx, LOG):
    """load() is the documented hook ("will be called if you access the 'module' property"): a
    subclass overriding it is honoured.  An empty MIDO_DEFAULT_IOPORT counts as unset."""
    n = 0
    saved_env = {k: os.environ.get(k) for k in ENVV}
    try:
        for k in ENVV:
            os.environ.pop(k, None)
        for mod in VARIANTS:
            purge()
            calls = []

            class Tracing(Backend):
                def load(self):
                    calls.append('load')
                    Backend.load(self)
            del LOG[:]
            b = Tracing(mod)
            b.open_input('x')
            b.get_input_names()
            r = b.open_ioport('y')
            if isinstance(r, ports.IOPort):
                r.closed = True
            ctx.check('backend module lazily imported', len(calls) >= 1 and [e for e in LOG if e[0] == 'import'] == [('import', mod)],
                      'load-hook-bypassed', {'kind': 'subclass', 'module': mod}, {'load_calls': len(calls), 'log': LOG[:2]})
            n += 1

            class Redirect(Backend):
                def load(self):
                    if not self.loaded:
                        import importlib
                        self._module = importlib.import_module('vmonbk_a')
            del LOG[:]
            purge()
            rb = Redirect('vmonbk_nonexistent_module')
            try:
                rb.open_output('z')
                kinds = [(e[0], e[1]) for e in LOG if e[0] != 'import']
                ctx.check('constructor calls == model', kinds == [('Output', 'vmonbk_a')], 'load-override-ignored',
                          {'kind': 'subclass', 'module': 'redirect'}, kinds)
            except Exception as exc:
                ctx.check('constructor calls == model', False, 'load-override-ignored', {'kind': 'subclass', 'module': 'redirect'},
                          repr(exc))
            n += 1
        # empty MIDO_DEFAULT_IOPORT
        for mod in VARIANTS:
            has_io, _ = VARIANTS[mod]
            for env_in, env_out in ((None, None), ('IN', 'OUT')):
                purge()
                del LOG[:]
                os.environ['MIDO_DEFAULT_IOPORT'] = ''
                for k, v in (('MIDO_DEFAULT_INPUT', env_in), ('MIDO_DEFAULT_OUTPUT', env_out)):
                    if v is None:
                        os.environ.pop(k, None)
                    else:
                        os.environ[k] = v
                r = Backend(mod).open_ioport()
                if isinstance(r, ports.IOPort):
                    r.closed = True
                names = [(e[0], e[2]) for e in LOG if e[0] != 'import']
                want = [('IOPort', None)] if has_io else [('Input', env_in), ('Output', env_out)]
                ctx.check('constructor calls == model', names == want, 'empty-ioport-variable',
                          {'kind': 'empty-env', 'module': mod, 'in': env_in, 'out': env_out}, {'got': names, 'want': want})
                n += 1
    except Exception as exc:
        ctx.fail('no exception', f'subclass-env:{type(exc).__name__}', {'kind': 'subclass'}, repr(exc))
    finally:
        for k, v in saved_env.items():
            if v is None:
                os.environ.pop(k, None)
            else:
                os.environ[k] = v
    return n


def concurrent_first_use(ctx, LOG):
    """Two Backend objects for one module; the second is used while the first is still inside the
    module's import.  It must wait for the import and then see the complete module."""
    import threading
    import vmonbk_log as L
    case = {'kind': 'concurrent-import'}
    sys.modules.pop('vmonbk_slow', None)
    L.GATE.clear()
    L.GATE_REACHED.clear()
    out = {}

    def first():
        try:
            out['a'] = type(Backend('vmonbk_slow').open_input('x')).__name__
        except Exception as exc:
            out['a'] = repr(exc)

    def second():
        try:
            b = Backend('vmonbk_slow/API2')
            names = b.get_ioport_names()
            io = b.open_ioport('y')
            out['b'] = (names, type(io).__name__, type(io).__module__)
            if isinstance(io, ports.IOPort):
                io.closed = True
        except Exception as exc:
            out['b'] = repr(exc)
    ta, tb = threading.Thread(target=first, daemon=True), threading.Thread(target=second, daemon=True)
    ta.start()
    if not L.GATE_REACHED.wait(10):
        stuck = stuck_in_library(ta)
        if stuck:
            ctx.check('backend module lazily imported', False, 'first-use-blocked-with-nobody-else-inside',
                      {'kind': 'concurrent-first-use'}, {'thread a waits at': stuck,
                                                        'earlier in this process': 'imports of other backends, some of which failed'})
        else:
            ctx.undecided('concurrent import: the module body was never entered')
        return 0
    tb.start()
    tb.join(0.3)                       # give the second user the chance to run ahead (it must not)
    L.GATE.set()
    ta.join(10)
    tb.join(10)
    want_b = (model_names('ioport', True), 'IOPort', 'vmonbk_slow')
    ctx.check('backend module lazily imported', out.get('a') == 'Input' and out.get('b') == want_b,
              'half-imported-module-used', case, lambda: {'first': out.get('a'), 'second': out.get('b'), 'want_second': want_b})
    sys.modules.pop('vmonbk_slow', None)
    return 1


def stuck_in_library(th, settle=1.5):
    """Where is a thread that does not come back?  Two samples of its stack, `settle` seconds apart: when both show the
    same innermost frame, and that frame is a line of mido itself (a blocking primitive called from there has no Python
    frame of its own), the thread is waiting inside the library for something - and when no other thread is inside
    the library at all, nothing can ever give it.  Returns a description, or None (not stuck / not in mido)."""
    import time
    import traceback

    def where():
        fr = sys._current_frames().get(th.ident)
        if fr is None:
            return None
        st = traceback.extract_stack(fr)
        return (st[-1].filename, st[-1].lineno, st[-1].name) if st else None
    a = where()
    time.sleep(settle)
    b = where()
    if a is None or a != b or not th.is_alive():
        return None
    if os.sep + 'mido' + os.sep not in a[0]:
        return None
    return f'{os.path.basename(a[0])}:{a[1]} in {a[2]}()'


def shared_backend_cases(ctx, LOG):
    """ONE Backend object: (a) its first import fails (the driver is not ready) and a later call tries again and
    works; (b) two threads make its first calls, the second while the first is still inside the import."""
    import threading
    import vmonbk_log as L
    n = 0
    case = {'kind': 'shared-backend', 'what': 'import fails, then works'}
    sys.modules.pop('vmonbk_flaky', None)
    try:
        L.FAIL.append(1)
        b = Backend('vmonbk_flaky/API9')
        first = None
        try:
            b.open_input('x')
        except ImportError as exc:
            first = exc
        state_after_failure = (b.loaded, 'vmonbk_flaky' in sys.modules)
        del L.FAIL[:]
        del LOG[:]
        port = b.open_input('x')
        names = b.get_input_names()
        ctx.check('backend module lazily imported', first is not None and state_after_failure == (False, False)
                  and type(port).__name__ == 'Input' and b.loaded and names == model_names('input', True)
                  and [e for e in LOG if e[0] == 'import'] == [('import', 'vmonbk_flaky')],
                  'failed-import-not-retried', case,
                  lambda: {'first_call_raised': repr(first), 'loaded/in sys.modules after the failure': state_after_failure,
                           'second_call': type(port).__name__, 'log': LOG[:4]})
    except Exception as exc:
        ctx.fail('no exception', f'shared-backend:retry:{type(exc).__name__}', case, f'{type(exc).__name__}: {exc}')
    finally:
        del L.FAIL[:]
        sys.modules.pop('vmonbk_flaky', None)
    n += 1
    case = {'kind': 'shared-backend', 'what': 'two threads, one object'}
    sys.modules.pop('vmonbk_slow', None)
    L.GATE.clear()
    L.GATE_REACHED.clear()
    out = {}
    shared = Backend('vmonbk_slow/API3')

    def use(tag, fn):
        try:
            r = fn()
            out[tag] = type(r).__name__ if not isinstance(r, list) else r
        except Exception as exc:
            out[tag] = repr(exc)
    ta = threading.Thread(target=use, args=('a', lambda: shared.open_input('x')), daemon=True)
    tb = threading.Thread(target=use, args=('b', lambda: shared.get_output_names()), daemon=True)
    ta.start()
    if L.GATE_REACHED.wait(10):
        tb.start()
        tb.join(0.3)
        L.GATE.set()
        ta.join(10)
        tb.join(10)
        ctx.check('backend module lazily imported', out.get('a') == 'Input' and out.get('b') == model_names('output', True),
                  'shared-object-used-while-importing', case, lambda: dict(out))
        n += 1
    else:
        stuck = stuck_in_library(ta)
        if stuck:
            # the first thread never got as far as the import, and it is the only one using the library
            ctx.check('backend module lazily imported', False, 'first-use-blocked-with-nobody-else-inside', case,
                      {'thread a waits at': stuck, 'earlier in this process': 'another Backend object failed to import, then imported'})
            n += 1
        else:
            ctx.undecided('shared backend: the module body was never entered')
    L.GATE.set()
    sys.modules.pop('vmonbk_slow', None)
    # (c) the first import failed in a thread that is gone by now; this thread is the next to use the object
    case = {'kind': 'shared-backend', 'what': 'import failed in a thread that has ended; next use from another thread'}
    sys.modules.pop('vmonbk_flaky', None)
    try:
        L.FAIL.append(1)
        b3 = Backend('vmonbk_flaky/API9')
        th = threading.Thread(target=use, args=('c1', lambda: b3.open_input('x')), daemon=True)
        th.start()
        th.join(10)
        del L.FAIL[:]
        th2 = threading.Thread(target=use, args=('c2', lambda: b3.open_input('x')), daemon=True)
        th2.start()
        th2.join(5)
        if th2.is_alive():
            stuck = stuck_in_library(th2)
            if stuck:
                ctx.check('backend module lazily imported', False, 'use-after-failed-import-in-ended-thread-blocks', case,
                          {'thread waits at': stuck, 'first thread': out.get('c1')})
            else:
                ctx.undecided('shared backend: second use did not return and is not waiting inside mido')
        else:
            ctx.check('backend module lazily imported', 'ImportError' in str(out.get('c1')) and out.get('c2') == 'Input',
                      'use-after-failed-import-in-ended-thread', case, lambda: dict(out))
        n += 1
    except Exception as exc:
        ctx.fail('no exception', f'shared-backend:ended-thread:{type(exc).__name__}', case, f'{type(exc).__name__}: {exc}')
    finally:
        del L.FAIL[:]
        sys.modules.pop('vmonbk_flaky', None)
    return n


class UserBackend(Backend):
    """A user's Backend subclass: one method overridden (it only delegates), the rest inherited."""

    def open_output(self, name=None, **kwargs):
        return Backend.open_output(self, name, **kwargs)


def set_backend_sequences(ctx, LOG):
    """set_backend rebinds open_*/get_* and mido.backend; same module, different API included."""
    saved_env = {k: os.environ.get(k) for k in ENVV}
    for k in ENVV:
        os.environ.pop(k, None)
    seqs = [
        [('vmonbk_a/ALSA', True), ('vmonbk_a/JACK', True), ('vmonbk_a', True)],
        [('vmonbk_c/X', False), ('vmonbk_c/Y', True), ('vmonbk_d', True), ('vmonbk_c/X', True)],
        [('OBJ:vmonbk_b/Q', True), ('vmonbk_b', True), ('OBJ:vmonbk_a/Z', True)],
        [('vmonbk_a/ALSA', True), ('vmonbk_a/ALSA', True), ('vmonbk_b/ALSA', True)],
        [('vmonbk_a/ALSA', True), ('SUB:vmonbk_b/Q', True), ('vmonbk_c', True), ('SUB:vmonbk_d', True)],
    ]
    n = 0
    try:
        for si, seq in enumerate(seqs):
            purge()
            for step, (spec, use) in enumerate(seq):
                case = {'kind': 'set_backend', 'seq': seq, 'step': step}
                del LOG[:]
                if spec.startswith('OBJ:'):
                    obj = Backend(spec[4:])
                    mido.set_backend(obj)
                    modapi = spec[4:]
                elif spec.startswith('SUB:'):
                    obj = UserBackend(spec[4:])         # a user subclass that overrides one method only
                    mido.set_backend(obj)
                    modapi = spec[4:]
                else:
                    obj = None
                    mido.set_backend(spec)
                    modapi = spec
                mod, _, api = modapi.partition('/')
                ctx.check('set_backend rebinds top-level functions',
                          isinstance(mido.backend, Backend) and mido.backend.name == mod
                          and mido.backend.api == (api or None) and (obj is None or mido.backend is obj),
                          'mido.backend', case, repr(mido.backend))
                if not use:
                    continue
                api_kw = {'api': api} if api else {}
                has_io, has_gd = VARIANTS[mod]
                mido.open_input('p')
                mido.open_output()
                names = mido.get_ioport_names()
                io = mido.open_ioport('q')
                if isinstance(io, ports.IOPort):
                    io.closed = True
                calls = [e for e in LOG if e[0] != 'import']
                kw_in = {'virtual': False, 'callback': None, **api_kw}
                kw_out = {'virtual': False, 'autoreset': False, **api_kw}
                kw_io = {'virtual': False, 'callback': None, 'autoreset': False, **api_kw}
                want = [('Input', mod, 'p', kw_in), ('Output', mod, None, kw_out)]
                if has_gd:
                    want.append(('get_devices', mod, api_kw))
                want += [('IOPort', mod, 'q', kw_io)] if has_io else \
                    [('Input', mod, 'q', kw_io), ('Output', mod, 'q', kw_io)]
                ctx.check('set_backend rebinds top-level functions', calls == want, 'top-level-calls', case,
                          lambda: {'got': calls, 'want': want})
                ctx.check('name listings == model', names == model_names('ioport', has_gd), 'top-level-names',
                          case, names)
                for fn in ('open_input', 'open_output', 'open_ioport', 'get_input_names', 'get_output_names',
                           'get_ioport_names'):
                    ctx.check('set_backend rebinds top-level functions',
                              getattr(getattr(mido, fn), '__self__', None) is mido.backend, f'unbound:{fn}',
                              case, None)
                n += 1
        # default backend: lazily named, not imported
        purge()
        mido.set_backend()
        case = {'kind': 'set_backend', 'seq': 'default'}
        ctx.check('backend module lazily imported', mido.backend.name == 'mido.backends.rtmidi'
                  and not mido.backend.loaded and 'mido.backends.rtmidi' not in sys.modules, 'default-eager',
                  case, repr(mido.backend))
        os.environ['MIDO_BACKEND'] = 'vmonbk_c/ENVAPI'
        mido.set_backend()
        ctx.check('set_backend rebinds top-level functions', mido.backend.name == 'vmonbk_c'
                  and mido.backend.api == 'ENVAPI' and 'vmonbk_c' not in sys.modules, 'env-backend', case,
                  repr(mido.backend))
        os.environ.pop('MIDO_BACKEND')
        mido.set_backend('vmonbk_d', load=True)
        ctx.check('backend module lazily imported', 'vmonbk_d' in sys.modules and mido.backend.loaded,
                  'load-flag', case, None)
        n += 3
        # a backend chosen by name is a new Backend with the documented defaults, whatever was installed before it:
        # in particular it reads the MIDO_DEFAULT_* variables again after an object that had that turned off
        for prev_env in (False, True):
            for nxt in ('vmonbk_b', 'vmonbk_a/JACK', None):
                purge()
                case = {'kind': 'set_backend', 'seq': 'environ-policy', 'previous_use_environ': prev_env, 'next': nxt}
                os.environ['MIDO_DEFAULT_OUTPUT'] = 'envout'
                try:
                    mido.set_backend(Backend('vmonbk_a/ALSA', use_environ=prev_env))
                    del LOG[:]
                    mido.open_output()
                    first = [e[:3] for e in LOG if e[0] != 'import']
                    if nxt is None:
                        os.environ['MIDO_BACKEND'] = 'vmonbk_c'
                        mido.set_backend()
                        os.environ.pop('MIDO_BACKEND')
                    else:
                        mido.set_backend(nxt)
                    del LOG[:]
                    mido.open_output()
                    second = [e[:3] for e in LOG if e[0] != 'import']
                    mod2 = (nxt or 'vmonbk_c').partition('/')[0]
                    ctx.check('set_backend rebinds top-level functions',
                              first == [('Output', 'vmonbk_a', 'envout' if prev_env else None)]
                              and second == [('Output', mod2, 'envout')] and mido.backend.use_environ is True,
                              'backend-by-name-inherits-from-previous', case,
                              lambda: {'first': first, 'second': second, 'use_environ': mido.backend.use_environ})
                finally:
                    os.environ.pop('MIDO_DEFAULT_OUTPUT', None)
                    os.environ.pop('MIDO_BACKEND', None)
                n += 1
        # a set_backend() that fails chooses nothing: the previous backend stays bound everywhere
        FNS = ('open_input', 'open_output', 'open_ioport', 'get_input_names', 'get_output_names', 'get_ioport_names')
        for prev in ('vmonbk_a/ALSA', 'vmonbk_c'):
            for bad, kw in (('vmonbk_no_such_module', {'load': True}), ('vmonbk_no_such_module/API', {'load': True}),
                            ('', {'load': True}), (5, {})):
                purge()
                mido.set_backend(prev)
                before = (mido.backend,) + tuple(getattr(mido, fn) for fn in FNS)
                case = {'kind': 'set_backend', 'seq': 'failed', 'previous': prev, 'failing': repr(bad), 'kwargs': kw}
                try:
                    mido.set_backend(bad, **kw)
                    raised = None
                except Exception as exc:
                    raised = exc
                if raised is None:
                    continue        # accepted: nothing to judge here
                after = (mido.backend,) + tuple(getattr(mido, fn) for fn in FNS)
                ctx.check('set_backend rebinds top-level functions',
                          all(a is b or a == b for a, b in zip(before, after)) and after[0] is before[0],
                          'failed-set_backend-rebound', case,
                          lambda: {'raised': repr(raised), 'mido.backend': repr(mido.backend), 'previous': repr(before[0]),
                                   'open_input bound to': repr(getattr(mido.open_input, '__self__', None))})
                del LOG[:]
                mido.open_output('z')
                mod, _, api = prev.partition('/')
                got = [e[:3] for e in LOG if e[0] != 'import']
                ctx.check('set_backend rebinds top-level functions', got == [('Output', mod, 'z')],
                          'failed-set_backend-calls', case, lambda: got)
                n += 1
    except Exception as exc:
        ctx.fail('no exception', f'set_backend:{type(exc).__name__}', {'kind': 'set_backend'},
                 f'{type(exc).__name__}: {exc}')
    finally:
        for k, v in saved_env.items():
            if v is None:
                os.environ.pop(k, None)
            else:
                os.environ[k] = v
        mido.set_backend()
    return n


ODD_NAMES = ('hw:1,0,0', 'Synth, part A', 'a,b', ',', 'B,A', 'A,zz', ' padded ', 'semi;colon', 'x:y', 'slash/api', 'UM-1 (port 2)',
             'caf\u00e9 \u97f3', '0', 'None', 'A', '$HOME', '%s', 'tab\there')


def replaced_backend_cases(ctx, LOG):
    """A Backend object the program holds on to stays what it is when another backend is made the current one: loaded stays
    loaded, its module is the module it imported (imported once: "only when first needed"), its open_* / get_* go on working -
    whether it is used directly afterwards or made current again."""
    import importlib
    import mido.backends.backend as bmod
    n = 0
    calls = []

    class CountingImportlib:
        def import_module(self, name, package=None):
            calls.append(name)
            return importlib.import_module(name, package)

        def __getattr__(self, name):
            return getattr(importlib, name)
    saved_env = {k: os.environ.get(k) for k in ENVV}
    real = bmod.importlib
    bmod.importlib = CountingImportlib()
    try:
        for k in ENVV:
            os.environ.pop(k, None)
        for first, second in (('vmonbk_a/X', 'vmonbk_b'), ('vmonbk_c', 'vmonbk_d/Y'), ('vmonbk_d/Q', 'vmonbk_a')):
            for again in ('direct', 'set_backend-again', 'direct-after-two-switches'):
                case = {'kind': 'replaced-backend', 'first': first, 'second': second, 'again': again}
                purge()
                del calls[:]
                try:
                    a = Backend(first)
                    mido.set_backend(a)
                    mido.open_input('one')
                    mod_a = a.module
                    mido.set_backend(second)
                    mido.open_output('two')
                    if again == 'direct-after-two-switches':
                        mido.set_backend(Backend(second))
                    ctx.check('backend module lazily imported', a.loaded is True and a.module is mod_a, 'replaced-backend-forgot-its-module', case,
                              {'loaded': a.loaded})
                    del LOG[:]
                    if again == 'set_backend-again':
                        mido.set_backend(a)
                        mido.open_input('three')
                    else:
                        a.open_input('three')
                    got = [(e[0], e[1], e[2]) for e in LOG if e[0] != 'import']
                    ctx.check('constructor calls == model', got == [('Input', first.partition('/')[0], 'three')], 'replaced-backend-calls', case, got)
                    n_imports = calls.count(first.partition('/')[0])
                    ctx.check('backend module lazily imported', n_imports == 1, 'replaced-backend-imported-again', case,
                              {'import_module calls': list(calls)})
                except Exception as exc:
                    ctx.fail('no exception', f'replaced-backend:{type(exc).__name__}', case, f'{type(exc).__name__}: {exc}')
                n += 1
    finally:
        bmod.importlib = real
        mido.set_backend()
        for k, v in saved_env.items():
            if v is None:
                os.environ.pop(k, None)
            else:
                os.environ[k] = v
    return n


def odd_name_cases(ctx, LOG):
    """A port name is opaque: whatever characters a default name from the environment (or an explicit one) holds - commas,
    colons, slashes, blanks, other scripts, a name that is or is not in the device list - it reaches the constructor as it is."""
    n = 0
    saved_env = {k: os.environ.get(k) for k in ENVV}
    try:
        for k in ENVV:
            os.environ.pop(k, None)
        for mod, (has_io, has_gd) in VARIANTS.items():
            purge()
            b = Backend(mod)
            for name in ODD_NAMES:
                try:
                    os.fsencode(name)
                except UnicodeError:
                    continue          # this interpreter environment (C locale) cannot hold the name in a variable
                for src in ('env', 'explicit'):
                    for entry, var in (('open_input', 'MIDO_DEFAULT_INPUT'), ('open_output', 'MIDO_DEFAULT_OUTPUT'),
                                       ('open_ioport', 'MIDO_DEFAULT_IOPORT'), ('open_ioport', 'pair')):
                        case = {'kind': 'odd-name', 'module': mod, 'entry': entry, 'name': name, 'source': src, 'var': var}
                        for k in ENVV:
                            os.environ.pop(k, None)
                        if src == 'env':
                            if var == 'pair':
                                os.environ['MIDO_DEFAULT_INPUT'] = name
                                os.environ['MIDO_DEFAULT_OUTPUT'] = name + '.out'
                            else:
                                os.environ[var] = name
                        elif var == 'pair':
                            continue
                        del LOG[:]
                        try:
                            r = getattr(b, entry)() if src == 'env' else getattr(b, entry)(name)
                            if isinstance(r, ports.IOPort):
                                r.closed = True
                            got = [(e[0], e[2]) for e in LOG if e[0] not in ('import', 'get_devices')]
                            if entry == 'open_input':
                                want = [('Input', name)]
                            elif entry == 'open_output':
                                want = [('Output', name)]
                            elif var == 'pair':
                                want = [('IOPort', None)] if has_io else [('Input', name), ('Output', name + '.out')]
                            else:
                                want = [('IOPort', name)] if has_io else [('Input', name), ('Output', name)]
                            ctx.check('constructor calls == model', got == want, 'port-name-not-passed-verbatim', case,
                                      lambda: {'got': got, 'want': want})
                        except Exception as exc:
                            ctx.fail('no exception', f'odd-name:{type(exc).__name__}', case, f'{type(exc).__name__}: {exc}')
                        n += 1
    finally:
        for k, v in saved_env.items():
            if v is None:
                os.environ.pop(k, None)
            else:
                os.environ[k] = v
    return n


def changing_device_list_cases(ctx, LOG):
    """"Name listings derive from the module's device list" - the list as it is when the names are asked for: a device is
    plugged in or pulled between two listings on the same Backend object, a few microseconds apart or minutes apart, on a
    clock with nanosecond resolution and on a coarse one (15.6 ms ticks, two calls read the same time)."""
    from .. import clock
    n = 0
    saved_env = {k: os.environ.get(k) for k in ENVV}
    try:
        for k in ENVV:
            os.environ.pop(k, None)
        for mod, (has_io, has_gd) in VARIANTS.items():
            if not has_gd:
                continue
            for timer in ('fine', 'coarse', 'coarse', 'coarse', 'jump'):
                purge()
                b = Backend(mod)
                module = b.module
                orig = list(module.DEVICES)
                case = {'kind': 'changing-device-list', 'module': mod, 'timer': timer}
                cm = clock.coarse() if timer == 'coarse' and clock.installed() else None
                try:
                    if cm:
                        cm.__enter__()
                    steps = []
                    for step in range(4):
                        if step == 1:
                            module.DEVICES.append({'name': 'NEW', 'is_input': True, 'is_output': True})
                        elif step == 2:
                            del module.DEVICES[0]
                        elif step == 3:
                            module.DEVICES[:] = []
                        if timer == 'jump' and clock.installed():
                            clock.advance(600.0)
                        devs = [(d['name'], bool(d['is_input']), bool(d['is_output'])) for d in module.DEVICES]
                        ins = [x for x, i, o in devs if i]
                        outs = [x for x, i, o in devs if o]
                        want = (ins, outs, [x for x in ins if x in set(outs)])
                        del LOG[:]
                        got = (b.get_input_names(), b.get_output_names(), b.get_ioport_names())
                        queries = sum(1 for e in LOG if e[0] == 'get_devices')
                        steps.append(step)
                        ctx.check('name listings == model', got == want, 'listing-stale-after-device-change', dict(case, step=step),
                                  lambda: {'got': got, 'want': want})
                        ctx.check('device query calls == model', queries >= 3, 'listing-without-device-query', dict(case, step=step), queries)
                        n += 1
                except Exception as exc:
                    ctx.fail('no exception', f'changing-devices:{type(exc).__name__}', case, f'{type(exc).__name__}: {exc}')
                finally:
                    if cm:
                        cm.__exit__(None, None, None)
                    module.DEVICES[:] = orig
    finally:
        for k, v in saved_env.items():
            if v is None:
                os.environ.pop(k, None)
            else:
                os.environ[k] = v
    return n


def run(ctx):
    n = 0
    with tempfile.TemporaryDirectory(prefix='vmon-c20-') as d:
        make_modules(d)
        sys.path.insert(0, d)
        try:
            import vmonbk_log
            LOG = vmonbk_log.LOG
            for j, cfg in enumerate(grid()):
                if j % ctx.nshards != ctx.shard:
                    continue
                judge_config(ctx, cfg, LOG)
                n += 1
                if j % 1009 == ctx.shard:
                    ctx.put_sample({'cfg': dict(zip(('entry', 'name_given', 'env_in', 'env_out', 'env_io', 'api',
                                                     'use_environ', 'backend_via_env', 'module', 'load'), cfg))})
            ctx.nontrivial(None, n)
            ctx.exhaustive = True
            if ctx.shard == 0:
                k = set_backend_sequences(ctx, LOG)
                ctx.nontrivial(None, k)
                n += k
                k = extra_sequences(ctx, LOG)
                ctx.nontrivial(None, k)
                n += k
                k = concurrent_first_use(ctx, LOG)
                ctx.nontrivial(None, k)
                n += k
                k = shared_backend_cases(ctx, LOG)
                ctx.nontrivial(None, k)
                n += k
                k = subclass_and_empty_env(ctx, LOG)
                ctx.nontrivial(None, k)
                n += k
                k = explicit_empty_name_cases(ctx, LOG)
                ctx.nontrivial(None, k)
                n += k
                k = baseclass_backend_cases(ctx, LOG, d)
                ctx.nontrivial(None, k)
                n += k
                k = replaced_backend_cases(ctx, LOG)
                ctx.nontrivial(None, k)
                n += k
                k = native_subclass_cases(ctx, LOG, d)
                ctx.nontrivial(None, k)
                n += k
                k = odd_name_cases(ctx, LOG)
                ctx.nontrivial(None, k)
                n += k
                k = changing_device_list_cases(ctx, LOG)
                ctx.nontrivial(None, k)
                n += k
        finally:
            sys.path.remove(d)
            purge()
            sys.modules.pop('vmonbk_log', None)
    ctx.count('cases', n)
    ctx.extra('grid_configurations', n)


def replay(ctx, case):
    with tempfile.TemporaryDirectory(prefix='vmon-c20-') as d:
        make_modules(d)
        sys.path.insert(0, d)
        try:
            import vmonbk_log
            if case['kind'] == 'config':
                judge_config(ctx, tuple(case['cfg']), vmonbk_log.LOG)
            else:
                set_backend_sequences(ctx, vmonbk_log.LOG)
                extra_sequences(ctx, vmonbk_log.LOG)
                concurrent_first_use(ctx, vmonbk_log.LOG)
                shared_backend_cases(ctx, vmonbk_log.LOG)
                subclass_and_empty_env(ctx, vmonbk_log.LOG)
        finally:
            sys.path.remove(d)
            purge()
            sys.modules.pop('vmonbk_log', None)
