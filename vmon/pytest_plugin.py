"""pytest plugin (validation only, DESIGN section 6 item 4): runs the
repository's own tests with the ride-along codec monitor installed.

    cd /repo && PYTHONPATH=/verif:/repo /venv/bin/python -m pytest -q -p vmon.pytest_plugin -p no:cacheprovider

A monitor that fires here is either too strict or a defect the tests do not
assert; the violations are printed at the end of the session.
"""
from vmon.core import Ctx
from vmon.mon.wrap import CodecMonitor

_ctx = Ctx('RIDEALONG', 'quick', 0)
_mon = CodecMonitor(_ctx)


def pytest_sessionstart(session):
    _mon.__enter__()


def pytest_sessionfinish(session, exitstatus):
    _mon.__exit__(None, None, None)
    tr = session.config.pluginmanager.get_plugin('terminalreporter')
    msg = (f'vmon ride-along: {_mon.n_enc} encodings and {_mon.n_dec} decodings checked against the '
           f'reference codec, {len(_ctx.violations)} violations')
    if tr:
        tr.write_line(msg)
        for v in _ctx.violations[:10]:
            tr.write_line(f'  VIOLATION {v["clause"]} {v["key"]} {v["case"]} {v["detail"]}')
    if _ctx.violations:
        session.exitstatus = 1
