"""Reference meta-event codec, written from the Standard MIDI File 1.0
specification and docs/meta_message_types.rst.  Does not import
mido.midifiles.meta.
"""
from numbers import Integral

# name -> (type byte, attribute names, defaults)
SPECS = {
    'sequence_number': (0x00, ('number',), (0,)),
    'text': (0x01, ('text',), ('',)),
    'copyright': (0x02, ('text',), ('',)),
    'track_name': (0x03, ('name',), ('',)),
    'instrument_name': (0x04, ('name',), ('',)),
    'lyrics': (0x05, ('text',), ('',)),
    'marker': (0x06, ('text',), ('',)),
    'cue_marker': (0x07, ('text',), ('',)),
    'device_name': (0x09, ('name',), ('',)),
    'channel_prefix': (0x20, ('channel',), (0,)),
    'midi_port': (0x21, ('port',), (0,)),
    'end_of_track': (0x2F, (), ()),
    'set_tempo': (0x51, ('tempo',), (500000,)),
    'smpte_offset': (0x54, ('frame_rate', 'hours', 'minutes', 'seconds', 'frames',
                            'sub_frames'), (24, 0, 0, 0, 0, 0)),
    'time_signature': (0x58, ('numerator', 'denominator', 'clocks_per_click',
                              'notated_32nd_notes_per_beat'), (4, 4, 24, 8)),
    'key_signature': (0x59, ('key',), ('C',)),
    'sequencer_specific': (0x7F, ('data',), ((),)),
}
TYPE_BYTE = {n: s[0] for n, s in SPECS.items()}
BY_BYTE = {s[0]: n for n, s in SPECS.items()}
TEXT_TYPES = tuple(n for n, s in SPECS.items() if s[1] in (('text',), ('name',)))
assert len(TEXT_TYPES) == 8

INT_DOMAIN = {
    ('sequence_number', 'number'): (0, 65535),
    ('channel_prefix', 'channel'): (0, 255),
    ('midi_port', 'port'): (0, 255),
    ('set_tempo', 'tempo'): (0, 16777215),
    ('smpte_offset', 'hours'): (0, 255),
    ('smpte_offset', 'minutes'): (0, 59),
    ('smpte_offset', 'seconds'): (0, 59),
    ('smpte_offset', 'frames'): (0, 255),
    ('smpte_offset', 'sub_frames'): (0, 99),
    ('time_signature', 'numerator'): (0, 255),
    ('time_signature', 'clocks_per_click'): (0, 255),
    ('time_signature', 'notated_32nd_notes_per_beat'): (0, 255),
}
FRAME_RATES = {24: 0, 25: 1, 29.97: 2, 30: 3}
_MAJOR = ['Cb', 'Gb', 'Db', 'Ab', 'Eb', 'Bb', 'F', 'C', 'G', 'D', 'A', 'E', 'B', 'F#', 'C#']
_MINOR = ['Abm', 'Ebm', 'Bbm', 'Fm', 'Cm', 'Gm', 'Dm', 'Am', 'Em', 'Bm', 'F#m', 'C#m',
          'G#m', 'D#m', 'A#m']
KEYS = {}
for _i, _k in enumerate(_MAJOR):
    KEYS[_k] = (_i - 7, 0)
for _i, _k in enumerate(_MINOR):
    KEYS[_k] = (_i - 7, 1)
assert len(KEYS) == 30
KEY_BY_CODE = {v: k for k, v in KEYS.items()}


def vlq(n):
    """Minimal variable-length quantity."""
    out = [n & 0x7F]
    n >>= 7
    while n:
        out.insert(0, 0x80 | (n & 0x7F))
        n >>= 7
    return out


def vlq_padded(n, width):
    """VLQ of exactly `width` bytes (leading 0x80 groups), width >= minimal."""
    m = vlq(n)
    assert width >= len(m)
    return [0x80] * (width - len(m)) + m


def read_vlq(buf, pos):
    """Returns (value, newpos, nbytes)."""
    v = 0
    n = 0
    while True:
        b = buf[pos]
        pos += 1
        n += 1
        v = (v << 7) | (b & 0x7F)
        if b < 0x80:
            return v, pos, n


def is_pow2(x):
    return isinstance(x, Integral) and x >= 1 and (x & (x - 1)) == 0


def in_domain(type_, attrs):
    """None if every attribute value is in the documented domain, else why."""
    if type_ not in SPECS:
        return 'unknown type'
    for n, v in attrs.items():
        if n == 'time':
            continue
        if n not in SPECS[type_][1]:
            return f'no attribute {n}'
        if (type_, n) in INT_DOMAIN:
            lo, hi = INT_DOMAIN[(type_, n)]
            if not isinstance(v, Integral) or isinstance(v, bool) or not lo <= v <= hi:
                return f'{n}={v!r} outside {lo}..{hi}'
        elif n in ('text', 'name'):
            if not isinstance(v, str):
                return f'{n} not a string'
        elif n == 'denominator':
            if not is_pow2(v) or isinstance(v, bool) or v > 2 ** 255:
                return f'denominator {v!r}'
        elif n == 'frame_rate':
            if isinstance(v, bool) or v not in FRAME_RATES:
                return f'frame_rate {v!r}'
        elif n == 'key':
            if not isinstance(v, str) or v not in KEYS:
                return f'key {v!r}'
    return None


def payload(type_, attrs, charset='latin1'):
    """Payload bytes of a meta event from fully specified in-domain attrs."""
    a = dict(zip(SPECS[type_][1], SPECS[type_][2]))
    a.update({k: v for k, v in attrs.items() if k != 'time'})
    if type_ == 'sequence_number':
        return [a['number'] // 256, a['number'] % 256]
    if type_ in TEXT_TYPES:
        return list((a.get('text') if 'text' in a else a['name']).encode(charset))
    if type_ == 'channel_prefix':
        return [a['channel']]
    if type_ == 'midi_port':
        return [a['port']]
    if type_ == 'end_of_track':
        return []
    if type_ == 'set_tempo':
        t = a['tempo']
        return [t // 65536, (t // 256) % 256, t % 256]
    if type_ == 'smpte_offset':
        return [FRAME_RATES[a['frame_rate']] * 32 + a['hours'], a['minutes'], a['seconds'],
                a['frames'], a['sub_frames']]
    if type_ == 'time_signature':
        return [a['numerator'], int(a['denominator']).bit_length() - 1, a['clocks_per_click'],
                a['notated_32nd_notes_per_beat']]
    if type_ == 'key_signature':
        sf, mi = KEYS[a['key']]
        return [sf % 256, mi]
    if type_ == 'sequencer_specific':
        return list(a['data'])
    raise KeyError(type_)


def encode(type_, attrs, charset='latin1'):
    p = payload(type_, attrs, charset)
    return [0xFF, TYPE_BYTE[type_]] + vlq(len(p)) + p


def decode_payload(type_byte, data, charset='latin1'):
    """(type name, attrs) for a known type byte with a regular payload;
    ('unknown_meta', {'type_byte', 'data'}) otherwise."""
    data = list(data)
    if type_byte not in BY_BYTE:
        return 'unknown_meta', {'type_byte': type_byte, 'data': tuple(data)}
    t = BY_BYTE[type_byte]
    if t == 'sequence_number':
        return t, {'number': data[0] * 256 + data[1]}
    if t in TEXT_TYPES:
        return t, {SPECS[t][1][0]: bytes(data).decode(charset)}
    if t == 'channel_prefix':
        return t, {'channel': data[0]}
    if t == 'midi_port':
        return t, {'port': data[0]}
    if t == 'end_of_track':
        return t, {}
    if t == 'set_tempo':
        return t, {'tempo': data[0] * 65536 + data[1] * 256 + data[2]}
    if t == 'smpte_offset':
        rates = {v: k for k, v in FRAME_RATES.items()}
        return t, {'frame_rate': rates[data[0] // 32], 'hours': data[0] % 32,
                   'minutes': data[1], 'seconds': data[2], 'frames': data[3],
                   'sub_frames': data[4]}
    if t == 'time_signature':
        return t, {'numerator': data[0], 'denominator': 2 ** data[1],
                   'clocks_per_click': data[2], 'notated_32nd_notes_per_beat': data[3]}
    if t == 'key_signature':
        sf = data[0] - 256 if data[0] > 127 else data[0]
        return t, {'key': KEY_BY_CODE[(sf, data[1])]}
    if t == 'sequencer_specific':
        return t, {'data': tuple(data)}
    raise KeyError(t)


def attrs_of(msg):
    """Attributes (without type/time) of a mido MetaMessage as a dict."""
    return {k: v for k, v in vars(msg).items() if k not in ('type', 'time')}
