"""Reference MIDI 1.0 message codec, validity predicate and single-message
acceptor.  Written from the MIDI 1.0 specification and mido's documentation
(docs/message_types.rst); deliberately does NOT import mido.messages.specs.
"""
from numbers import Integral, Real

# type -> (status byte (channel types: high nibble), attribute names in
# documented order)
CHANNEL = {
    'note_off': (0x80, ('channel', 'note', 'velocity')),
    'note_on': (0x90, ('channel', 'note', 'velocity')),
    'polytouch': (0xA0, ('channel', 'note', 'value')),
    'control_change': (0xB0, ('channel', 'control', 'value')),
    'program_change': (0xC0, ('channel', 'program')),
    'aftertouch': (0xD0, ('channel', 'value')),
    'pitchwheel': (0xE0, ('channel', 'pitch')),
}
SYSTEM = {
    'sysex': (0xF0, ('data',)),
    'quarter_frame': (0xF1, ('frame_type', 'frame_value')),
    'songpos': (0xF2, ('pos',)),
    'song_select': (0xF3, ('song',)),
    'tune_request': (0xF6, ()),
    'clock': (0xF8, ()),
    'start': (0xFA, ()),
    'continue': (0xFB, ()),
    'stop': (0xFC, ()),
    'active_sensing': (0xFE, ()),
    'reset': (0xFF, ()),
}
TYPES = list(CHANNEL) + list(SYSTEM)
assert len(TYPES) == 18
ATTRS = {t: a for t, (_, a) in {**CHANNEL, **SYSTEM}.items()}
STATUS = {t: s for t, (s, _) in {**CHANNEL, **SYSTEM}.items()}
REALTIME_TYPES = ('clock', 'start', 'continue', 'stop', 'active_sensing', 'reset')
REALTIME_BYTES = {STATUS[t]: t for t in REALTIME_TYPES}   # six defined ones
UNDEFINED_STATUS = (0xF4, 0xF5, 0xF9, 0xFD)

DOMAIN = {
    'channel': (0, 15), 'note': (0, 127), 'velocity': (0, 127),
    'value': (0, 127), 'control': (0, 127), 'program': (0, 127),
    'pitch': (-8192, 8191), 'frame_type': (0, 7), 'frame_value': (0, 15),
    'pos': (0, 16383), 'song': (0, 127),
}
DEFAULTS = {a: 0 for a in DOMAIN}
DEFAULTS['velocity'] = 64

# status byte -> number of data bytes (None = sysex, absent = undefined)
_NDATA_BY_TYPE = {'note_off': 2, 'note_on': 2, 'polytouch': 2,
                  'control_change': 2, 'program_change': 1, 'aftertouch': 1,
                  'pitchwheel': 2, 'quarter_frame': 1, 'songpos': 2,
                  'song_select': 1, 'tune_request': 0, 'clock': 0, 'start': 0,
                  'continue': 0, 'stop': 0, 'active_sensing': 0, 'reset': 0}
STATUS_TYPE = {}
for _t, (_s, _a) in CHANNEL.items():
    for _c in range(16):
        STATUS_TYPE[_s | _c] = _t
for _t, (_s, _a) in SYSTEM.items():
    STATUS_TYPE[_s] = _t


def ndata(status):
    """Data bytes after this status byte: int, None for sysex (variable);
    raises KeyError for an undefined status byte."""
    t = STATUS_TYPE[status]
    return None if t == 'sysex' else _NDATA_BY_TYPE[t]


def encode(type_, a):
    """Encode from the spec.  `a` maps attribute names to in-range ints."""
    if type_ in CHANNEL:
        st = CHANNEL[type_][0] | a['channel']
        if type_ == 'pitchwheel':
            u = a['pitch'] + 8192                 # unsigned 14 bit, LSB first
            return [st, u % 128, u // 128]
        return [st] + [a[n] for n in CHANNEL[type_][1][1:]]
    st = SYSTEM[type_][0]
    if type_ == 'sysex':
        return [0xF0] + list(a['data']) + [0xF7]
    if type_ == 'quarter_frame':
        return [st, a['frame_type'] * 16 + a['frame_value']]
    if type_ == 'songpos':
        return [st, a['pos'] % 128, a['pos'] // 128]
    if type_ == 'song_select':
        return [st, a['song']]
    return [st]


class Reject(Exception):
    pass


def decode(seq):
    """Decode exactly one well-formed message; raise Reject otherwise.
    Items must be plain ints."""
    seq = list(seq)
    if not seq:
        raise Reject('empty')
    st = seq[0]
    if not (isinstance(st, Integral) and 0x80 <= st <= 0xFF):
        raise Reject('first item is not a status byte')
    if st not in STATUS_TYPE:
        raise Reject('undefined status')
    t = STATUS_TYPE[st]
    body = seq[1:]
    if t == 'sysex':
        if not body or body[-1] != 0xF7:
            raise Reject('sysex without terminator')
        body = body[:-1]
        if not all(isinstance(b, Integral) and 0 <= b <= 127 for b in body):
            raise Reject('sysex payload item not a data byte')
        return t, {'data': tuple(int(b) for b in body)}
    if len(body) != _NDATA_BY_TYPE[t]:
        raise Reject('wrong number of data bytes')
    if not all(isinstance(b, Integral) and 0 <= b <= 127 for b in body):
        raise Reject('data byte out of range')
    a = {}
    if t in CHANNEL:
        a['channel'] = st & 0x0F
        if t == 'pitchwheel':
            a['pitch'] = body[0] + 128 * body[1] - 8192
        else:
            for n, b in zip(CHANNEL[t][1][1:], body):
                a[n] = b
    elif t == 'quarter_frame':
        a['frame_type'], a['frame_value'] = body[0] // 16, body[0] % 16
    elif t == 'songpos':
        a['pos'] = body[0] + 128 * body[1]
    elif t == 'song_select':
        a['song'] = body[0]
    return t, a


def accept(seq):
    try:
        decode(seq)
        return True
    except Reject:
        return False


def valid_vars(v):
    """Validity predicate over vars(message).  Returns None when valid,
    else a string saying why not."""
    t = v.get('type')
    if t not in ATTRS:
        return f'unknown type {t!r}'
    want = set(ATTRS[t]) | {'type', 'time'}
    if set(v) != want:
        return f'attribute set {sorted(v)} != {sorted(want)}'
    tm = v['time']
    if not isinstance(tm, Real):
        return f'time {tm!r} is not a real number'
    for n in ATTRS[t]:
        x = v[n]
        if n == 'data':
            if not isinstance(x, tuple):
                return f'sysex data is {type(x).__name__}, not a tuple'
            for b in x:
                if not isinstance(b, Integral) or not 0 <= b <= 127:
                    return f'sysex data item {b!r}'
        else:
            lo, hi = DOMAIN[n]
            if not isinstance(x, Integral):
                return f'{n}={x!r} is not an integer'
            if not lo <= x <= hi:
                return f'{n}={x!r} outside {lo}..{hi}'
    return None


def valid(msg):
    return valid_vars(vars(msg))


def all_nonsysex(types=None):
    """Enumerate (type, attrs) for the complete finite non-sysex space."""
    for t in (types or TYPES):
        if t == 'sysex':
            continue
        names = ATTRS[t]
        if not names:
            yield t, {}
            continue
        ranges = [range(DOMAIN[n][0], DOMAIN[n][1] + 1) for n in names]
        if len(names) == 1:
            for x in ranges[0]:
                yield t, {names[0]: x}
        elif len(names) == 2:
            for x in ranges[0]:
                for y in ranges[1]:
                    yield t, {names[0]: x, names[1]: y}
        else:
            for x in ranges[0]:
                for y in ranges[1]:
                    for z in ranges[2]:
                        yield t, {names[0]: x, names[1]: y, names[2]: z}


def space_size(t):
    n = 1
    for a in ATTRS[t]:
        if a == 'data':
            return None
        n *= DOMAIN[a][1] - DOMAIN[a][0] + 1
    return n


# Byte classes for stream alphabets (C04/C06)
CLASS_ALPHABET = [0x00, 0x7F, 0x92, 0xC5, 0xE3, 0xF0, 0xF1, 0xF2, 0xF3, 0xF4,
                  0xF6, 0xF7, 0xF8, 0xFF, 0xF9]


def byte_class(b):
    if b < 0x80:
        return 'data'
    if b < 0xF0:
        return 'ch%d' % ndata(b)
    return '%02X' % b
