"""Reference Standard MIDI File codec: a strict decoder that reports every
deviation from the format, and an encoder that produces alternative legal
encodings (running status or not, padded variable-length quantities, longer
header chunk).  Events are plain tuples, independent of mido objects:

    ('ch',    delta, status, [data...])      0x80 <= status <= 0xEF
    ('sys',   delta, status, [data...])      status in F1 F2 F3 F6 (mido stores these raw)
    ('sysex', delta, [payload...])           written F0 <len+1> payload F7
    ('meta',  delta, type_byte, [payload...])
"""
import struct

from . import meta as rmeta
from . import midi1

SYS_LEN = {0xF1: 1, 0xF2: 2, 0xF3: 1, 0xF6: 0}
EOT = ('meta', 0, 0x2F, [])


def ev_delta(ev):
    return ev[1]


def with_delta(ev, d):
    return (ev[0], d) + tuple(ev[2:])


def is_eot(ev):
    return ev[0] == 'meta' and ev[2] == 0x2F


def fold_eot(events):
    """Independent model of the end_of_track normalisation the property
    defines: drop every end_of_track, add its delta to the next event, finish
    with exactly one end_of_track carrying the remainder."""
    out = []
    carry = 0
    for ev in events:
        if is_eot(ev):
            carry += ev[1]
        else:
            out.append(with_delta(ev, ev[1] + carry))
            carry = 0
    out.append(('meta', carry, 0x2F, []))
    return out


def event_of_message(msg, charset='latin1'):
    """Reference event of a mido message, computed from its attributes with the
    reference encoders (never through msg.bytes())."""
    v = vars(msg)
    t = v['type']
    d = v['time']
    if getattr(msg, 'is_meta', False):
        if t == 'unknown_meta':
            return ('meta', d, v['type_byte'], list(v['data']))
        return ('meta', d, rmeta.TYPE_BYTE[t], rmeta.payload(t, rmeta.attrs_of(msg), charset))
    a = {k: x for k, x in v.items() if k not in ('type', 'time')}
    enc = midi1.encode(t, a)
    if t == 'sysex':
        return ('sysex', d, list(a['data']))
    if enc[0] < 0xF0:
        return ('ch', d, enc[0], enc[1:])
    return ('sys', d, enc[0], enc[1:])


def events_of_track(track, charset='latin1'):
    return [event_of_message(m, charset) for m in track]


def norm(ev):
    return (ev[0], ev[1]) + tuple(list(x) if isinstance(x, (list, tuple)) else x for x in ev[2:])


def norm_track(evs):
    return [norm(e) for e in evs]


# ------------------------------------------------------------- decoder
class Malformed(Exception):
    pass


def decode_file(buf):
    """Strict decode.  Returns dict(format, ntrks, division, header_len,
    tracks=[events], flags=[...]).  flags lists every deviation from a
    conformant, minimally encoded file; structure that cannot be parsed at all
    raises Malformed."""
    buf = bytes(buf)
    flags = []
    if buf[:4] != b'MThd' or len(buf) < 14:
        raise Malformed('no MThd')
    hl = struct.unpack('>L', buf[4:8])[0]
    if hl != 6:
        flags.append(f'header chunk length {hl} != 6')
    if hl < 6:
        raise Malformed('header too short')
    fmt, ntrks, div = struct.unpack('>HHH', buf[8:14])
    pos = 8 + hl
    tracks = []
    while pos < len(buf):
        if buf[pos:pos + 4] != b'MTrk':
            flags.append(f'unexpected bytes/chunk at {pos}')
            break
        if pos + 8 > len(buf):
            raise Malformed('truncated chunk header')
        ln = struct.unpack('>L', buf[pos + 4:pos + 8])[0]
        body = buf[pos + 8:pos + 8 + ln]
        if len(body) != ln:
            flags.append(f'track chunk length {ln} exceeds file')
        tracks.append(decode_track(body, flags, len(tracks)))
        pos += 8 + ln
    if ntrks != len(tracks):
        flags.append(f'header says {ntrks} tracks, file has {len(tracks)}')
    return {'format': fmt, 'ntrks': ntrks, 'division': div, 'header_len': hl,
            'tracks': tracks, 'flags': flags}


def decode_track(body, flags, ti):
    evs = []
    pos = 0
    prev_channel_status = None        # running status only legal right after a channel event
    n = len(body)
    try:
        while pos < n:
            delta, pos, nb = rmeta.read_vlq(body, pos)
            if nb != len(rmeta.vlq(delta)):
                flags.append(f'track {ti}: non-minimal delta VLQ at {pos - nb}')
            b = body[pos]
            if b < 0x80:
                if prev_channel_status is None:
                    flags.append(f'track {ti}: running status at {pos} without a preceding channel event')
                    raise Malformed('illegal running status')
                status = prev_channel_status
            else:
                status = b
                pos += 1
            if status == 0xFF:
                tb = body[pos]
                pos += 1
                ln, pos, nb = rmeta.read_vlq(body, pos)
                if nb != len(rmeta.vlq(ln)):
                    flags.append(f'track {ti}: non-minimal meta length VLQ')
                data = list(body[pos:pos + ln])
                if len(data) != ln:
                    raise Malformed('meta payload overruns chunk')
                pos += ln
                evs.append(('meta', delta, tb, data))
                prev_channel_status = None
            elif status == 0xF0:
                ln, pos, nb = rmeta.read_vlq(body, pos)
                if nb != len(rmeta.vlq(ln)):
                    flags.append(f'track {ti}: non-minimal sysex length VLQ')
                data = list(body[pos:pos + ln])
                if len(data) != ln:
                    raise Malformed('sysex payload overruns chunk')
                pos += ln
                if not data or data[-1] != 0xF7:
                    flags.append(f'track {ti}: sysex event not terminated by F7')
                    evs.append(('sysex', delta, data))
                else:
                    evs.append(('sysex', delta, data[:-1]))
                prev_channel_status = None
            elif status in SYS_LEN:
                k = SYS_LEN[status]
                data = list(body[pos:pos + k])
                if len(data) != k:
                    raise Malformed('system common overruns chunk')
                pos += k
                evs.append(('sys', delta, status, data))
                prev_channel_status = None
            elif status < 0xF0:
                k = midi1.ndata(status)
                data = list(body[pos:pos + k])
                if len(data) != k:
                    raise Malformed('channel message overruns chunk')
                pos += k
                if any(x > 127 for x in data):
                    flags.append(f'track {ti}: data byte > 127')
                evs.append(('ch', delta, status, data))
                prev_channel_status = status
            else:
                flags.append(f'track {ti}: status byte {status:#x} not allowed in a file')
                raise Malformed('bad status')
    except IndexError:
        flags.append(f'track {ti}: event overruns the chunk')
    except Malformed:
        pass
    if not evs or not is_eot(evs[-1]):
        flags.append(f'track {ti}: does not end with FF 2F 00')
    if any(is_eot(e) for e in evs[:-1]):
        flags.append(f'track {ti}: end_of_track before the end of the chunk')
    return evs


# ------------------------------------------------------------- encoder
def encode_event(ev, prev_status, rng=None, pad=False, running='never'):
    """Returns (bytes, new_prev_status, used_running)."""
    def q(n):
        if pad and rng is not None and rng.random() < 0.4:
            w = rng.randrange(len(rmeta.vlq(n)), 5)
            return rmeta.vlq_padded(n, w)
        return rmeta.vlq(n)
    out = q(ev[1])
    kind = ev[0]
    used = False
    if kind == 'ch':
        status, data = ev[2], list(ev[3])
        eligible = prev_status == status
        if eligible and (running == 'always' or (running == 'random' and rng.random() < 0.6)):
            out += data
            used = True
        else:
            out += [status] + data
        return out, status, used
    if kind == 'sys':
        return out + [ev[2]] + list(ev[3]), None, False
    if kind == 'sysex':
        return out + [0xF0] + q(len(ev[2]) + 1) + list(ev[2]) + [0xF7], None, False
    if kind == 'meta':
        return out + [0xFF, ev[2]] + q(len(ev[3])) + list(ev[3]), None, False
    raise ValueError(kind)


def encode_track(events, rng=None, pad=False, running='never'):
    body = []
    prev = None
    nrun = 0
    for ev in events:
        b, prev, used = encode_event(ev, prev, rng, pad, running)
        nrun += used
        body += b
    return b'MTrk' + struct.pack('>L', len(body)) + bytes(body), nrun


def encode_file(fmt, division, tracks, rng=None, pad=False, running='never', header_len=6):
    filler = bytes((rng.randrange(256) if rng else 0) for _ in range(header_len - 6))
    out = b'MThd' + struct.pack('>LHHH', header_len, fmt, len(tracks), division) + filler
    nrun = 0
    for t in tracks:
        b, k = encode_track(t, rng, pad, running)
        out += b
        nrun += k
    return out, nrun
